"""C02 -- stages run in order; every cleanup runs exactly once, LIFO, whatever failed."""

import ast

from ..absint import NONE, TRUE, State, unbox_deep
from ..astutil import FUNC_TYPES, attr_chain, dotted, norm, walk_shallow
from ..loader import AnalysisError
from . import casemodel as cm
from . import streamobjects as so
from .common import RUNTEST, TESTCASE, TWRUNTEST

EXPLANATION = (
    "TestCase.run is followed as written (ttsa.rules.casemodel: the TestCase is constructed through its real __init__; run, "
    "RunTest, the result adapter, addCleanup / patch / useFixture, testtools.monkey are interpreted by ttsa.objects), with the "
    "user's setUp / test method / tearDown / cleanups scripted: they register cleanups, patch, use fixtures, return or raise. "
    "R-STAGE-ORDER: for every combination of stage outcomes the user code called is setUp, then the test method and tearDown "
    "iff setUp returned, then the cleanups; a setUp / tearDown that does not upcall is an error and does not stop the cleanups. "
    "R-CLEANUPS-ALWAYS / R-DRAIN-LIFO: with cleanups registered by setUp, the test, tearDown, by a cleanup that runs first and by "
    "the one that runs last, every one of them is called exactly once, with its arguments, in reverse registration order (a "
    "cleanup registered while the cleanups run is the next to run), whatever stages and cleanups raise (Exception or "
    "KeyboardInterrupt), and none is left registered; the same for AsynchronousDeferredRunTest._run_cleanups (model shared "
    "with C14). R-RESET-COMPLETE: a second run() of the same instance whose user code no longer adds details / cleanups / "
    "force_failure / patches repeats exactly the history of a fresh instance; the same failing test run twice gives the same "
    "history twice. R-PATCH-PAIR: attributes changed with patch() (existing and not existing, the same one twice) have their "
    "value during the rest of the test and their pre-test value / absence after run(), also when stages raise; MonkeyPatcher "
    "patch(); restore() alone likewise; useFixture sets the fixture up, registers cleanUp in LIFO position, and a failing "
    "fixture setUp propagates as the test's error without registering cleanUp. R-CALL-SHAPE: receiver-sensitive "
    "class-hierarchy analysis over the whole package -- every self.m(...) / super().m(...) call shape is accepted by the method "
    "m resolves to for every receiver class that can execute the enclosing body."
)

MONKEY = "testtools.monkey"
A1, K1 = ("sym", "cleanup-argument"), ("sym", "cleanup-keyword-argument")
CLEANUPS = ("c_setup", "c_test", "c_teardown", "c_nested", "c_late")


def _w(kind):
    return "ok" if kind is None else kind


def _user(r):
    return [n.split(".", 1)[1] for n in cm.names(r, ("user.",))]


def _left(r):
    v = unbox_deep(r.state.get("self._cleanups", None), r.state)
    return v


def check_stage_order(ctx, case):
    Q = f"{TESTCASE}:TestCase.run"
    quick = ctx.tier != "thorough"
    for su in (None, "fail", "error", "skip", "interrupt"):
        for te in ((None, "fail") if quick else (None, "fail", "skip", "interrupt")):
            for td in ((None, "error") if quick else (None, "error", "interrupt")):
                if su is not None and (te, td) != (None, None):
                    continue   # (the test and tearDown do not run: nothing to vary)
                script = {"setUp": [("call", "addCleanup", [cm.user("cleanup")], [])], "test": [], "tearDown": []}
                for name, kind in (("setUp", su), ("test", te), ("tearDown", td)):
                    if kind is not None:
                        script[name].append(("raise", cm.raised(kind, name)))
                d, runs = cm.run_case(ctx, script)
                want = ["setUp"] + (["test", "tearDown"] if su is None else []) + ["cleanup"]
                problems = set()
                for r in runs:
                    if _user(r) != want:
                        problems.add(f"the user code called is {_user(r)}; expected {want}")
                label = f"setUp {_w(su)}, test {_w(te)}, tearDown {_w(td)}"
                ctx.check("R-STAGE-ORDER", f"[{label}] setUp, then test and tearDown iff setUp returned, then the cleanups", case.node, bool(runs) and not problems,
                          "; ".join(sorted(problems)) or "no path of run() was followed to its end", examined=len(runs), construct=f"{Q}::stages {label}")
    # the upcall checks: a setUp / tearDown that does not call the base class's is an error -- and the cleanups still run
    for stage in ("setUp", "tearDown"):
        script = {"setUp": [("call", "addCleanup", [cm.user("cleanup")], [])], "no_upcall_" + stage: True}
        d, runs = cm.run_case(ctx, script)
        want = ["setUp"] + (["test", "tearDown"] if stage == "tearDown" else []) + ["cleanup"]
        problems = set()
        for r in runs:
            if _user(r) != want:
                problems.add(f"the user code called is {_user(r)}; expected {want}")
            if cm.outcomes(r) != ["addError"]:
                problems.add(f"the outcomes are {cm.outcomes(r)}; expected one error (the missing upcall)")
        ctx.check("R-STAGE-ORDER", f"a {stage} that does not upcall TestCase.{stage} is reported as an error; the later stages follow the same rule", case.node, bool(runs) and not problems,
                  "; ".join(sorted(problems)) or "no path", examined=len(runs), construct=f"{Q}::upcall {stage}")
    ctx.floor("R-STAGE-ORDER", 8, "stage outcome combinations")


def _cleanup_script(su, te, td, raising):
    """Cleanups registered by setUp, the test, tearDown, by the cleanup tearDown registered (it runs first) and by the
    cleanup setUp registered (it runs last); ``raising``: cleanup name -> kind of exception."""
    script = {
        "setUp": [("call", "addCleanup", [cm.user("c_setup"), A1], [("key", K1)])],
        "test": [("call", "addCleanup", [cm.user("c_test")], [])],
        "tearDown": [("call", "addCleanup", [cm.user("c_teardown")], [])],
        "c_teardown": [("call", "addCleanup", [cm.user("c_nested")], [])],
        "c_setup": [("call", "addCleanup", [cm.user("c_late")], [])],
        "c_test": [], "c_nested": [], "c_late": [],
    }
    for name, kind in (("setUp", su), ("test", te), ("tearDown", td)):
        if kind is not None:
            script[name].append(("raise", cm.raised(kind, name)))
    for name, kind in raising.items():
        script[name].append(("raise", cm.raised(kind, name)))
    return script


def _cleanup_scenarios(thorough):
    stage_sets = [(None, None, None), (None, "fail", "error"), ("error", None, None), (None, "interrupt", None)]
    if thorough:
        stage_sets += [(None, "fail", None), (None, None, "error"), (None, "skip", "interrupt"), ("interrupt", None, None)]
    out = []
    for st in stage_sets:
        out.append((st, {}))
        singles = CLEANUPS if thorough else ("c_teardown", "c_test", "c_late")
        for c in singles:
            for kind in (("error", "interrupt") if thorough or st == stage_sets[1] else ("error",)):
                out.append((st, {c: kind}))
        out.append((st, {c: "error" for c in CLEANUPS}))
        if thorough:
            out.append((st, {"c_teardown": "interrupt", "c_nested": "fail", "c_setup": "error"}))
            out.append((st, {c: "interrupt" for c in CLEANUPS}))
    return out


def check_cleanups(ctx, case):
    Q = f"{TESTCASE}:TestCase.run"
    for (su, te, td), raising in _cleanup_scenarios(ctx.tier == "thorough"):
        d, runs = cm.run_case(ctx, _cleanup_script(su, te, td, raising))
        if su is None:
            want = ["c_teardown", "c_nested", "c_test", "c_setup", "c_late"]
        else:
            want = ["c_setup", "c_late"]
        always, lifo = set(), set()
        for r in runs:
            called = [n for n in _user(r) if n.startswith("c_")]
            if sorted(called) != sorted(want):
                miss = [c for c in want if c not in called]
                twice = sorted({c for c in called if called.count(c) > 1})
                always.add(f"the cleanups called are {called}" + (f": {miss} never run" if miss else "") + (f": {twice} run more than once" if twice else ""))
            elif called != want:
                lifo.add(f"the cleanups run in the order {called}; expected {want} (reverse registration order, one registered by a cleanup next)")
            stages = [n for n in _user(r) if not n.startswith("c_")]
            if _user(r)[: len(stages)] != stages:
                lifo.add(f"cleanups run before the stages are over: {_user(r)}")
            for n, pos, kw in cm.events(r, ("user.c_setup",)):
                if tuple(pos) != (A1,) or kw != {"key": K1}:
                    lifo.add(f"the cleanup registered with addCleanup(f, arg, key=kwarg) is called with {tuple(pos)!r} {kw!r}")
            left = _left(r)
            if left != ("tuple",):
                always.add(f"after run() the cleanups still registered are {left!r}")
        label = f"setUp {_w(su)}, test {_w(te)}, tearDown {_w(td)}; raising cleanups: " + (", ".join(f"{c} {k}" for c, k in sorted(raising.items())) or "none")
        ctx.check("R-CLEANUPS-ALWAYS", f"[{label}] every registered cleanup runs exactly once and none is left", case.node, bool(runs) and not always,
                  "; ".join(sorted(always)) or "no path of run() was followed to its end", examined=len(runs), construct=f"{Q}::cleanups-run {label}")
        ctx.check("R-DRAIN-LIFO", f"[{label}] cleanups run after the stages, last registered first, with their arguments", case.node, bool(runs) and not lifo,
                  "; ".join(sorted(lifo)) or "no path", examined=len(runs), construct=f"{Q}::cleanups-order {label}")
    ctx.floor("R-CLEANUPS-ALWAYS", 10, "cleanup scenarios")
    # the Twisted runner has its own drain loop
    from . import c14
    f, problems, n = c14.run_cleanups_problems(ctx)
    ctx.check("R-DRAIN-LIFO", "AsynchronousDeferredRunTest._run_cleanups runs every cleanup, last registered first, with its arguments, whatever the earlier ones raise, and leaves none", f,
              not problems, "; ".join(sorted(problems)[:4]), examined=n, construct=f"{TWRUNTEST}:AsynchronousDeferredRunTest._run_cleanups::drain")


def _history(r):
    return [(n, pos, tuple(sorted(kw.items()))) for n, pos, kw in cm.events(r, ("result.", "user.", "patched."))]


def check_rerun(ctx, case):
    """The same program run twice on one instance: the same calls of user code, the same calls on the result with the
    same arguments (outcome, details and their names), the same effects on patched objects -- twice."""
    Q = f"{TESTCASE}:TestCase.run"
    P, F = ("wobj", "patched"), ("wobj", "fixture")
    detail = ("new", "Content", (("sym", "a-content-type"), ("sym", "a-byte-source")))
    reg = ("call", "addCleanup", [cm.user("cleanup")], [])
    programs = {
        "passes": {"setUp": [reg], "test": []},
        "fails with a detail": {"setUp": [reg], "test": [("call", "addDetail", [("const", "note"), detail], []), ("raise", cm.raised("fail", "test"))]},
        "cleanup fails": {"setUp": [reg], "test": [], "cleanup": [("raise", cm.raised("error", "cleanup"))]},
        "test and tearDown fail": {"test": [("raise", cm.raised("fail", "test"))], "tearDown": [("raise", cm.raised("error", "tearDown"))]},
        "setUp fails": {"setUp": [reg, ("raise", cm.raised("error", "setUp"))]},
        "skips": {"test": [("call", "skipTest", [("const", "not today")], [])]},
        "patches": {"test": [("call", "patch", [P, ("const", "there"), ("sym", "patched-value")], []), ("call", "patch", [P, ("const", "absent"), ("sym", "patched-value")], [])]},
        "uses a fixture": {"test": [("call", "useFixture", [F], []), ("raise", cm.raised("fail", "test"))]},
        "forced failure": {"test": [("set", "force_failure", TRUE)]},
    }
    if ctx.tier != "thorough":
        programs = {k: v for k, v in programs.items() if k in ("passes", "fails with a detail", "cleanup fails", "test and tearDown fail", "skips", "patches")}
    for what, script in programs.items():
        d, runs = cm.run_case(ctx, script, times=2, extra_attrs={"patched.there": ("sym", "original")}, lacks={("patched", "absent"), ("fixture", "_details")},
                              answers={"fixture.getDetails": [("val", ("kwdict", ()))]})
        problems = set()
        for r in runs:
            h = _history(r)
            half = len(h) // 2
            if len(h) % 2 or h[:half] != h[half:]:
                diff = next((i for i in range(min(half, len(h) - half)) if h[i] != h[half + i]), None)
                problems.add(f"the second run differs from the first: calls {[e[0] for e in h[:half]]} then {[e[0] for e in h[half:]]}" +
                             (f"; first difference: {h[diff]!r} / {h[half + diff]!r}" if diff is not None else ""))
            if r.kind != "val":
                problems.add(f"run() raises {r.value!r}")
        ctx.check("R-RESET-COMPLETE", f"[a test that {what}] run twice on one instance: the same calls, outcome and details twice", case.node, bool(runs) and not problems,
                  "; ".join(sorted(problems))[:900] or "no path", examined=len(runs), construct=f"{Q}::rerun {what}")
    ctx.floor("R-RESET-COMPLETE", 5, "rerun programs")


def check_patch(ctx, case):
    Q = f"{TESTCASE}:TestCase.patch"
    P = ("wobj", "patched")
    OLD, N1, N2, N3 = ("sym", "original"), ("sym", "new-1"), ("sym", "new-2"), ("sym", "new-3")
    for te, cl in ((None, None), ("fail", None), ("interrupt", None), (None, "error"), ("fail", "error")):
        script = {
            "setUp": [("call", "addCleanup", [cm.user("cleanup")], [])],
            "test": [("call", "patch", [P, ("const", "there"), N1], []), ("call", "patch", [P, ("const", "absent"), N2], []), ("call", "patch", [P, ("const", "there"), N3], []),
                     ("call", "addCleanup", [cm.user("probe")], [])],
            "cleanup": [], "probe": [],
        }
        if te:
            script["test"].append(("raise", cm.raised(te, "test")))
        if cl:
            script["probe"].append(("raise", cm.raised(cl, "probe")))
        d, runs = cm.run_case(ctx, script, extra_attrs={"patched.there": OLD}, lacks={("patched", "absent")}, snapshot_on=("user.probe", ("obj.patched.there", "obj.patched.absent")))
        problems = set()
        for r in runs:
            there, absent = r.state.get("obj.patched.there", OLD), r.state.get("obj.patched.absent", None)
            if there != OLD:
                problems.add(f"after run() the attribute patched twice holds {there!r}; expected its pre-test value {OLD!r}")
            if absent is not None and absent != so.DELETED:
                problems.add(f"after run() the attribute that did not exist before the test holds {absent!r}; expected it to be absent again")
            seen = [e for e in r.state.get("ev.snapshots", ())]
            if seen != [("user.probe", (N3, N2))]:
                problems.add(f"while the test's last cleanup runs the patched attributes hold {seen!r}; expected the patched values {(N3, N2)!r}")
            if "cleanup" not in _user(r):
                problems.add("the cleanup registered before the patches does not run")
        label = f"test {_w(te)}, a cleanup {_w(cl)}"
        ctx.check("R-PATCH-PAIR", f"[{label}] patch(): the new values hold during the test, the pre-test values (or absence) after run()", case.node, bool(runs) and not problems,
                  "; ".join(sorted(problems)) or "no path", examined=len(runs), construct=f"{Q}::undo {label}")
    check_monkey_patcher(ctx)


def check_monkey_patcher(ctx):
    mp_cls = ctx.classes.get(MONKEY, "MonkeyPatcher")
    if mp_cls is None:
        raise AnalysisError("anchor vanished: testtools.monkey.MonkeyPatcher")
    P = ("wobj", "patched")
    OLD, N1, N2, N3 = ("sym", "original"), ("sym", "new-1"), ("sym", "new-2"), ("sym", "new-3")
    dom = so.StreamDomain(ctx.classes, accepting=("patched",), attrs={"self": ("self",), "patched.there": OLD}, lacks={("patched", "absent")})
    d = so.Driver(ctx, mp_cls, dom)
    runs = d.construct([("tuple", P, ("const", "there"), N1), ("tuple", P, ("const", "absent"), N2)])
    runs = d.call(runs, "add_patch", [P, ("const", "there"), N3])
    mid = d.call(runs, "patch")
    end = d.call(mid, "restore")
    again = d.call(end, "restore")
    d.done()
    problems = set()
    for r in mid:
        if r.kind != "val" or (r.state.get("obj.patched.there"), r.state.get("obj.patched.absent")) != (N3, N2):
            problems.add(f"after patch() the attributes hold {(r.state.get('obj.patched.there'), r.state.get('obj.patched.absent'))!r}; expected the last value given for each, {(N3, N2)!r}")
    for which, rs in (("restore()", end), ("a second restore()", again)):
        for r in rs:
            if r.kind != "val":
                problems.add(f"{which} raises {r.value!r}")
            elif r.state.get("obj.patched.there", OLD) != OLD or r.state.get("obj.patched.absent", so.DELETED) != so.DELETED:
                problems.add(f"after {which} the attributes hold {(r.state.get('obj.patched.there'), r.state.get('obj.patched.absent'))!r}; expected the original value and absence")
    ctx.check("R-PATCH-PAIR", "MonkeyPatcher: patch() sets every attribute, restore() brings back the original value of one patched twice and removes one that did not exist", mp_cls.node,
              bool(mid) and bool(end) and not problems, "; ".join(sorted(problems)) or "no path", examined=len(end), construct=f"{MONKEY}:MonkeyPatcher::roundtrip")


def check_fixture(ctx, case):
    Q = f"{TESTCASE}:TestCase.useFixture"
    F = ("wobj", "fixture")
    base = {"fixture.getDetails": [("val", ("kwdict", ()))]}
    for te in (None, "fail", "interrupt"):
        script = {"setUp": [("call", "addCleanup", [cm.user("c_before")], [])],
                  "test": [("call", "useFixture", [F], []), ("call", "addCleanup", [cm.user("c_after")], [])] + ([("raise", cm.raised(te, "test"))] if te else []),
                  "c_before": [], "c_after": []}
        d, runs = cm.run_case(ctx, script, answers=base, lacks={("fixture", "_details")})
        problems = set()
        for r in runs:
            seq = [n for n in cm.names(r, ("user.", "fixture.")) if n in ("fixture.setUp", "fixture.cleanUp") or n.startswith("user.c_") or n in ("user.test", "user.tearDown")]
            want = ["user.test", "fixture.setUp", "user.tearDown", "user.c_after", "fixture.cleanUp", "user.c_before"]
            if seq != want:
                problems.add(f"the calls are {seq}; expected {want} (the fixture is set up when used and cleaned up once, in its place among the cleanups)")
        ctx.check("R-PATCH-PAIR", f"[test {_w(te)}] useFixture sets the fixture up and registers its cleanUp as a cleanup", case.node, bool(runs) and not problems,
                  "; ".join(sorted(problems)) or "no path", examined=len(runs), construct=f"{Q}::cleanup test {_w(te)}")
    # a fixture whose setUp fails: the failure is the test's, nothing is registered for it
    answers = dict(base)
    answers["fixture.setUp"] = [("exc", ("exc", "RuntimeError", "fixture"))]
    script = {"test": [("call", "useFixture", [F], []), ("call", "addCleanup", [cm.user("c_after")], [])], "c_after": []}
    d, runs = cm.run_case(ctx, script, answers=answers, lacks={("fixture", "_details")})
    problems = set()
    for r in runs:
        if cm.outcomes(r) != ["addError"]:
            problems.add(f"the outcomes are {cm.outcomes(r)}; expected the fixture's error")
        if "fixture.cleanUp" in cm.names(r, ("fixture.",)) or "user.c_after" in cm.names(r):
            problems.add("the test goes on after useFixture failed, or cleanUp of the fixture that was never set up is called")
        if "user.tearDown" not in cm.names(r):
            problems.add("tearDown does not run")
    ctx.check("R-PATCH-PAIR", "a fixture whose setUp raises: the exception leaves useFixture (the test errors), cleanUp is not registered", case.node, bool(runs) and not problems,
              "; ".join(sorted(problems)) or "no path", examined=len(runs), construct=f"{Q}::setup-fails")


def run(ctx):
    ctx.rule("R-STAGE-ORDER", "setUp first; test and tearDown iff setUp returned normally; cleanups after them")
    ctx.rule("R-CLEANUPS-ALWAYS", "every registered cleanup runs exactly once whatever stages and cleanups raise; none is left registered")
    ctx.rule("R-DRAIN-LIFO", "cleanups run after the stages in reverse registration order (one registered by a cleanup next), with their arguments")
    ctx.rule("R-RESET-COMPLETE", "a second run() of the same instance starts from the state of a fresh one")
    ctx.rule("R-PATCH-PAIR", "patch / useFixture are undone by the cleanups: patched attributes get their pre-test value or absence back, fixtures are cleaned up")
    ctx.rule("R-CALL-SHAPE", "self/super call shapes are accepted by the resolved callee for every possible receiver class")
    case = cm.case_class(ctx)
    check_stage_order(ctx, case)
    check_cleanups(ctx, case)
    check_rerun(ctx, case)
    check_patch(ctx, case)
    check_fixture(ctx, case)
    check_call_shapes(ctx)
    ctx.floor("R-CALL-SHAPE", 150, "resolved self/super call sites")


def call_shape_problem(call, callee, bound, enclosing):
    """Why callee (a def) cannot accept this call shape, or None."""
    a = callee.args
    pos_params = [p.arg for p in a.posonlyargs + a.args]
    if bound and pos_params:
        pos_params = pos_params[1:]
    n_defaults = len(a.defaults)
    required = pos_params[: len(pos_params) - n_defaults] if n_defaults else list(pos_params)
    kwonly = [p.arg for p in a.kwonlyargs]
    kwonly_required = [p.arg for p, d in zip(a.kwonlyargs, a.kw_defaults) if d is None]
    has_star = any(isinstance(x, ast.Starred) for x in call.args)
    dstar = [k for k in call.keywords if k.arg is None]
    n_pos = sum(1 for x in call.args if not isinstance(x, ast.Starred))
    kw_names = [k.arg for k in call.keywords if k.arg is not None]
    if n_pos > len(pos_params) and a.vararg is None:
        return f"passes {n_pos} positional arguments, callee accepts at most {len(pos_params)}"
    for k in kw_names:
        if k not in pos_params and k not in kwonly and a.kwarg is None:
            return f"passes keyword {k!r}, which the callee does not accept"
        if k in a.posonlyargs:
            return f"passes positional-only parameter {k!r} by keyword"
        if k in pos_params[:n_pos]:
            return f"passes {k!r} both positionally and by keyword"
    if not has_star and not dstar:
        missing = [p for p in required[n_pos:] if p not in kw_names]
        if missing:
            return f"misses required argument(s) {missing}"
        missing = [p for p in kwonly_required if p not in kw_names]
        if missing:
            return f"misses required keyword-only argument(s) {missing}"
    for k in dstar:
        own_kwarg = enclosing.args.kwarg.arg if isinstance(enclosing, FUNC_TYPES) and enclosing.args.kwarg else None
        if a.kwarg is None and dotted(k.value) != own_kwarg:
            return (f"passes arbitrary keyword arguments (**{norm(k.value)}) but the callee "
                    f"`def {callee.name}({norm(a)})` has no **kwargs: any keyword argument raises TypeError")
    return None


def _externally_named(ctx):
    """Attribute names read on something other than `self` / `super()` anywhere in the package: methods with such a
    name can be entered from outside their class (test._get_test_method(), self.case._run_setup, getattr-free)."""
    cached = getattr(ctx, "_externally_named", None)
    if cached is not None:
        return cached
    names = set()
    for mod in ctx.repo.modules.values():
        for n in ast.walk(mod.tree):
            if isinstance(n, ast.Attribute) and not (isinstance(n.value, ast.Name) and n.value.id == "self") \
                    and not (isinstance(n.value, ast.Call) and dotted(n.value.func) == "super"):
                names.add(n.attr)
            elif isinstance(n, ast.Constant) and isinstance(n.value, str) and n.value.isidentifier():
                names.add(n.value)   # getattr(x, "name") and friends
    ctx._externally_named = names
    return names


def _reachable_methods(ctx, c, names):
    """The method names whose resolved body can execute with an object of class ``c`` as receiver: public and special
    methods, methods named from outside the class, and whatever those reach through self.m / super().m."""
    classes = ctx.classes
    external = _externally_named(ctx)
    roots = {m for m in names if not m.startswith("_") or (m.startswith("__") and m.endswith("__")) or m in external}
    seen, work = set(), sorted(roots)
    while work:
        m = work.pop()
        if m in seen:
            continue
        seen.add(m)
        owner, body = classes.resolve_method(c, m)
        bodies = [(owner, body)]
        # bodies reached by super().m chains
        while bodies:
            o, b = bodies.pop()
            if not isinstance(b, FUNC_TYPES) or o is None:
                continue
            for n in ast.walk(b):
                if isinstance(n, ast.Attribute) and isinstance(n.value, ast.Name) and n.value.id == "self" and n.attr in names and n.attr not in seen:
                    work.append(n.attr)
                elif isinstance(n, ast.Attribute) and isinstance(n.value, ast.Call) and dotted(n.value.func) == "super":
                    o2, b2 = classes.resolve_method(c, n.attr, after=o)
                    if isinstance(b2, FUNC_TYPES) and (id(b2)) not in {id(x[1]) for x in bodies} and b2 is not b:
                        bodies.append((o2, b2))
    return seen


def check_call_shapes(ctx):
    classes = ctx.classes
    n = 0
    seen = set()
    for c in sorted(classes.all, key=lambda c: (c.module.name, c.node.lineno)):
        if c.external:
            continue
        # every method body that can execute with receiver class c
        names = set()
        for k in classes.mro(c):
            names |= set(k.methods)
        reachable = _reachable_methods(ctx, c, names)
        for mname in sorted(names):
            if mname not in reachable:
                continue   # (a private helper of a base class that only overridden methods call: never entered with this receiver)
            owner, body = classes.resolve_method(c, mname)
            if not isinstance(body, FUNC_TYPES) or owner is None or owner.external:
                continue
            if "staticmethod" in [dotted(d) for d in body.decorator_list] or "classmethod" in [dotted(d) for d in body.decorator_list]:
                continue
            for call in walk_shallow(body, include_self=False):
                if not isinstance(call, ast.Call):
                    continue
                ch = attr_chain(call.func)
                if not ch or len(ch) != 2 or ch[0] not in ("self", "super()"):
                    continue
                if ch[0] == "self":
                    o2, callee = classes.resolve_method(c, ch[1])
                    # an instance attribute assigned in some method shadows the class attribute
                else:
                    o2, callee = classes.resolve_method(c, ch[1], after=owner)
                if not isinstance(callee, FUNC_TYPES) or o2 is None:
                    continue
                decos = [dotted(d) for d in callee.decorator_list]
                if "property" in decos:
                    continue
                bound = "staticmethod" not in decos
                key = (id(call), id(callee))
                if key in seen:
                    continue
                seen.add(key)
                ctx.repo.module(c.module.name) if c.module.name in ctx.repo.modules else None
                problem = call_shape_problem(call, callee, bound, body)
                n += 1
                ctx.check("R-CALL-SHAPE", f"{owner.name}.{mname} (receiver {c.name}): {norm(call.func)}(...) -> {o2.name}.{callee.name}", call, problem is None,
                          f"for receiver class {c.name} the call `{norm(call)[:70]}` in {owner.name}.{mname} resolves to {o2.name}.{callee.name} and {problem}",
                          construct=f"{owner.module.name}:{owner.name}.{mname}::{norm(call.func)} -> {o2.module.name}:{o2.name}.{callee.name}")
    return n
