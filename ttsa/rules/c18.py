"""C18 -- routing picks exactly one destination; route prefixes push and pop inversely."""

import ast

from ..astutil import attr_chain, dotted, norm, walk_shallow
from ..cfg import live_nodes, node_calls
from ..flow import explore
from ..loader import AnalysisError
from .common import REAL, cfg_of, nodes_calling, own_method, str_const

EXPLANATION = (
    "Rules on testtools.testresult.real.StreamResultRouter and StreamToQueue.route_code: "
    "R-ONE-DESTINATION (typestate counter on the CFG of status(): exactly one forwarding "
    "<target>.status(**kwargs) on every returning path; target chosen by an if/elif/else in the "
    "order route-prefix rule, test-id rule, fallback; prefix = first segment of the route code), "
    "R-SEPARATOR-AGREES (writer StreamToQueue.route_code produces own+SEP+incoming, reader splits on "
    "the same SEP and a consuming rule strips exactly len(prefix)+len(SEP) characters mapping the "
    "empty remainder to None; _map_route_code_prefix rejects a prefix containing SEP; all literals "
    "equal), R-ONLY-OWNED-KEY (the only event field rewritten is route_code, only under "
    "consume_route), R-SINK-PAIR (startTestRun/stopTestRun iterate the same sink list calling the "
    "same-named method once per sink; add_rule appends to it iff do_start_stop_run; the immediate "
    "startTestRun for a rule added mid-run is control-dependent on both the in-run flag and "
    "do_start_stop_run), R-POLICY-TABLE (exactly the documented policies with the documented "
    "parameters; unknown policy raises before any state change)."
)

R = "StreamResultRouter"


def _cond_names(test):
    """Names / dotted attrs that must be truthy for ``test`` to be true."""
    if isinstance(test, ast.BoolOp) and isinstance(test.op, ast.And):
        out = set()
        for v in test.values:
            out |= _cond_names(v)
        return out
    d = dotted(test)
    return {d} if d else set()


def check_router_status(ctx, status):
    from .. import effects
    classes = ctx.classes
    router = classes.get(REAL, R)
    Q = f"{REAL}:{R}"
    kwname = status.args.kwarg.arg
    n = 0
    for consume in (True, False):
        # (codes whose next segment repeats the consumed one -- nested workers numbered alike -- included)
        for rc in ("<absent>", None, "a", "a/b", "a/b/c", "a/a", "a/a/b", "a/aa/a", "z", "z/a", "ab", "ab/c"):
            for tid in ("<absent>", "T1", "T9"):
                items = []
                if tid != "<absent>":
                    items.append(("test_id", ("const", tid)))
                if rc != "<absent>":
                    items.append(("route_code", "None" if rc is None else ("const", rc)))
                items.append(("file_name", ("arg", "other-field")))
                dom = effects.EffectDomain(classes, attrs={
                    "self._route_code_prefixes": ("table", (("a", ("tuple", ("wobj", "prefix-sink"), "True" if consume else "False")),)),
                    "self._test_ids": ("table", (("T1", ("wobj", "id-sink")),)), "self.fallback": ("wobj", "fallback")})
                res = effects.run(ctx, dom, status, router, {kwname: ("kwdict", tuple(items))})
                first = rc.split("/")[0] if isinstance(rc, str) and rc != "<absent>" else None
                want_kw = dict(items)
                if first == "a":
                    want_t = "prefix-sink"
                    if consume:
                        rest = rc[2:] if len(rc) > 1 else ""
                        want_kw["route_code"] = ("const", rest) if rest else "None"
                elif tid == "T1":
                    want_t = "id-sink"
                else:
                    want_t = "fallback"
                problems = set()
                if not res:
                    problems.add("no path")
                for r in res:
                    if r.kind != "val":
                        problems.add(f"raises {r.value!r}")
                        continue
                    sent = [e for e in effects.calls(r) if e[0].endswith(".status")]
                    if len(sent) != 1:
                        problems.add(f"the event is forwarded {len(sent)} times")
                        continue
                    tgt, pos, kw, _ = sent[0]
                    if tgt != want_t + ".status":
                        problems.add(f"goes to {tgt[:-7]} (documented: {want_t}; precedence route-prefix rule > test-id rule > fallback)")
                    if pos or dict(kw) != want_kw:
                        diff = {k: (dict(kw).get(k), want_kw.get(k)) for k in set(dict(kw)) | set(want_kw) if dict(kw).get(k) != want_kw.get(k)}
                        problems.add(f"forwarded fields differ: {diff} (got, expected)")
                n += 1
                label = f"route_code={rc!r} test_id={tid!r} consuming={consume}"
                rule = "R-ONE-DESTINATION" if not any("fields differ" in p_ for p_ in problems) else ("R-SEPARATOR-AGREES" if "route_code" in str(problems) else "R-ONLY-OWNED-KEY")
                ctx.check(rule, f"{R}.status: {label} -> {want_t}", status, not problems, "; ".join(sorted(problems)), construct=f"{Q}.status::{label}")
    # no rule matches and there is no fallback: the event cannot be dropped silently
    dom = effects.EffectDomain(classes, attrs={"self._route_code_prefixes": ("table", ()), "self._test_ids": ("table", ()), "self.fallback": "None"})
    res = effects.run(ctx, dom, status, router, {kwname: ("kwdict", (("test_id", ("const", "T9")),))})
    ctx.check("R-ONE-DESTINATION", f"{R}.status: no matching rule and no fallback raises", status, bool(res) and all(r.kind == "exc" for r in res),
              "an event that matches no rule is dropped silently when the router has no fallback", construct=f"{Q}.status::no-destination")
    return n


def check_router_sinks(ctx):
    """startTestRun / stopTestRun reach exactly the sinks registered for them, once per run; a rule added while a run is
    in progress is started at once iff it is registered -- decided on call sequences with the router's state carried along."""
    from .. import effects
    from ..absint import State
    classes = ctx.classes
    router = classes.get(REAL, R)
    Q = f"{REAL}:{R}"
    pol = {"route_code_prefix": own_method(ctx, REAL, R, "_map_route_code_prefix"), "test_id": own_method(ctx, REAL, R, "_map_test_id")}

    def step(states, meth, argv):
        f = own_method(ctx, REAL, R, meth)
        out = []
        for st in states:
            dom = effects.EffectDomain(classes, attrs={"self": ("self",), "self.fallback": ("wobj", "fallback")},
                                       results={"StreamResultRouter._policies.get": [("func", pol["route_code_prefix"])], "self._policies.get": [("func", pol["route_code_prefix"])]})
            for r in effects.run(ctx, dom, f, router, argv, state=st, depth=6):
                if r.kind == "val":
                    out.append(State([(k, v) for k, v in r.state.items if k.startswith("self.") or k == "ev.calls"]))
                else:
                    out.append(State([("ev.failed", f"{meth} raises {r.value!r}")]))
        return list(dict.fromkeys(out))

    def log(st):
        return [e[0] for e in st.get("ev.calls", ()) if e[0].split(".")[-1] in ("startTestRun", "stopTestRun")]

    ADD = lambda sink, flag: {"sink": ("wobj", sink), "policy": ("const", "route_code_prefix"), "do_start_stop_run": "True" if flag else "False",
                              "policy_args": ("kwdict", (("route_prefix", ("const", sink)),))}
    start = [State([("self._sinks", ("tuple",)), ("self._in_run", "False"), ("ev.calls", ())])]
    scenarios = [
        ("rule registered before the run", [("add_rule", ADD("s1", True)), ("startTestRun", {}), ("stopTestRun", {})], ["s1.startTestRun", "s1.stopTestRun"]),
        ("rule without do_start_stop_run", [("add_rule", ADD("s1", False)), ("startTestRun", {}), ("stopTestRun", {})], []),
        ("registered rule added mid-run", [("startTestRun", {}), ("add_rule", ADD("s1", True)), ("stopTestRun", {})], ["s1.startTestRun", "s1.stopTestRun"]),
        ("unregistered rule added mid-run", [("startTestRun", {}), ("add_rule", ADD("s1", False)), ("stopTestRun", {})], []),
        ("rule added mid-run, then a second run", [("startTestRun", {}), ("add_rule", ADD("s1", True)), ("stopTestRun", {}), ("startTestRun", {}), ("stopTestRun", {})],
         ["s1.startTestRun", "s1.stopTestRun", "s1.startTestRun", "s1.stopTestRun"]),
        ("registered rule added after a finished run is not started at once", [("startTestRun", {}), ("stopTestRun", {}), ("add_rule", ADD("s1", True))], []),
        ("two registered sinks, two runs", [("add_rule", ADD("s1", True)), ("add_rule", ADD("s2", True)), ("startTestRun", {}), ("stopTestRun", {}), ("startTestRun", {}), ("stopTestRun", {})],
         ["s1.startTestRun", "s2.startTestRun", "s1.stopTestRun", "s2.stopTestRun"] * 2),
    ]
    for name, seq, want in scenarios:
        states = start
        for meth, argv in seq:
            states = step(states, meth, argv)
        problems = set()
        for st in states:
            if st.get("ev.failed", None):
                problems.add(st.get("ev.failed"))
            elif log(st) != want:
                problems.add(f"sinks see {log(st)}; expected {want}")
        ctx.check("R-SINK-PAIR", f"{R}: {name}", router.node, bool(states) and not problems, "; ".join(sorted(problems)), construct=f"{Q}::sinks {name}")
    init = own_method(ctx, REAL, R, "__init__")
    for flag, want in ((True, ("tuple", ("wobj", "fallback"))), (False, ("tuple",))):
        dom = effects.EffectDomain(classes, attrs={"self": ("self",)})
        res = effects.run(ctx, dom, init, router, {"fallback": ("wobj", "fallback"), "do_start_stop_run": "True" if flag else "False"})
        got = {r.state.get("self._sinks", None) for r in res if r.kind == "val"}
        ctx.check("R-SINK-PAIR", f"{R}.__init__: fallback registered for start/stop iff do_start_stop_run ({flag})", init, got == {want},
                  f"with do_start_stop_run={flag} the start/stop list starts as {sorted(map(repr, got))}", construct=f"{Q}.__init__::fallback {flag}")


def run(ctx):
    ctx.rule("R-ONE-DESTINATION", "every status event is forwarded to exactly one sink, chosen route-prefix > test-id > fallback")
    ctx.rule("R-SEPARATOR-AGREES", "StreamToQueue's prefixing and the router's consuming strip are inverse (same separator, exact length)")
    ctx.rule("R-ONLY-OWNED-KEY", "the router rewrites only route_code, only for a consuming rule")
    ctx.rule("R-SINK-PAIR", "startTestRun/stopTestRun reach exactly the registered sinks; mid-run add starts only registered sinks")
    ctx.rule("R-POLICY-TABLE", "policy table has the documented entries; unknown policy raises before any state change")
    Q = f"{REAL}:{R}"
    status = own_method(ctx, REAL, R, "status")
    cfg = cfg_of(ctx, status)
    live = live_nodes(cfg)
    kw = status.args.kwarg.arg if status.args.kwarg else None
    if kw is None or status.args.args[1:]:
        raise AnalysisError("StreamResultRouter.status no longer takes only **kwargs")

    def chk(rule, name, ok, msg, node=None, path=None, fn="status"):
        ctx.check(rule, f"{R}.{fn}: {name}", node if node is not None else status, bool(ok), msg, path=path,
                  construct=f"{Q}.{fn}::{name}")

    # ---- destination and route code, on abstract runs over small concrete route codes
    check_router_status(ctx, status)
    sep_split = "/"
    # writer: StreamToQueue puts its own code in front, "/"-separated (decided on runs with concrete codes)
    from .. import effects
    rcm = own_method(ctx, REAL, "StreamToQueue", "route_code")
    sq_cls = ctx.classes.get(REAL, "StreamToQueue")
    outs = {}
    for rc, label in ((("const", "x/y"), "given"), ("None", "none")):
        dom_ = effects.EffectDomain(ctx.classes, attrs={"self.routing_code": ("const", "own")})
        outs[label] = {(r.kind, r.value) for r in effects.run(ctx, dom_, rcm, sq_cls, {rcm.args.args[1].arg: rc})}
    ctx.check("R-SEPARATOR-AGREES", "StreamToQueue.route_code: None -> own code", rcm, outs["none"] == {("val", ("const", "own"))},
              f"an event without route code gets {sorted(map(repr, outs['none']))}, not exactly the queue's own code", construct=f"{REAL}:StreamToQueue.route_code::none-arm")
    ctx.check("R-SEPARATOR-AGREES", "StreamToQueue.route_code: own + SEP + incoming", rcm, outs["given"] == {("val", ("const", "own/x/y"))},
              f"route code 'x/y' through a queue with code 'own' becomes {sorted(map(repr, outs['given']))}, not 'own/x/y'", construct=f"{REAL}:StreamToQueue.route_code::concat")
    sep_write = "/" if outs["given"] == {("val", ("const", "own/x/y"))} else None
    from .c11 import check_queue_semantics
    sq_status = own_method(ctx, REAL, "StreamToQueue", "status")
    check_queue_semantics(ctx, [a.arg for a in sq_status.args.args[1:]], rule="R-SEPARATOR-AGREES")
    mp = own_method(ctx, REAL, R, "_map_route_code_prefix")
    sep_reject = None
    for n in walk_shallow(mp, include_self=False):
        if isinstance(n, ast.If) and isinstance(n.test, ast.Compare) and isinstance(n.test.ops[0], ast.In) and str_const(n.test.left) is not None:
            if any(isinstance(x, ast.Raise) for x in n.body) and dotted(n.test.comparators[0]) == mp.args.args[2].arg:
                sep_reject = n.test.left.value
    ctx.check("R-SEPARATOR-AGREES", "a prefix containing the separator is rejected", mp, sep_reject is not None,
              "_map_route_code_prefix accepts prefixes that span more than one route step", construct=f"{Q}._map_route_code_prefix::reject")
    ctx.check("R-SEPARATOR-AGREES", f"{R}.status: separator literals agree", mp, sep_reject == "/" and sep_write == "/",
              f"the separator rejected in prefixes is {sep_reject!r}, the one StreamToQueue writes {sep_write!r} (the router splits on '/': see the status scenarios)",
              construct=f"{Q}.status::separator literals agree")
    # ---- sink pairing
    check_router_sinks(ctx)
    # ---- policy table
    cls = ctx.classes.get(REAL, R)
    table = {}
    for stmt in cls.node.body:
        if isinstance(stmt, ast.Assign) and isinstance(stmt.targets[0], ast.Subscript) and dotted(stmt.targets[0].value) == "_policies":
            table[str_const(stmt.targets[0].slice)] = dotted(stmt.value)
    if isinstance(cls.attrs.get("_policies"), ast.Dict):
        for k, v in zip(cls.attrs["_policies"].keys, cls.attrs["_policies"].values):
            table[str_const(k)] = dotted(v)
    doc = {"route_code_prefix": ["sink", "route_prefix", "consume_route"], "test_id": ["sink", "test_id"]}
    ctx.check("R-POLICY-TABLE", "policies are exactly route_code_prefix and test_id", cls.node, set(table) == set(doc),
              f"policy table keys are {sorted(table)}", construct=f"{Q}::_policies")
    for pol, params in doc.items():
        mname = table.get(pol)
        f = cls.own_method(mname) if mname else None
        ok = f is not None and [a.arg for a in f.args.args[1:]] == params
        ctx.check("R-POLICY-TABLE", f"policy {pol} takes ({', '.join(params)})", f if f is not None else cls.node, ok,
                  f"policy {pol} is bound to {mname} with parameters {[a.arg for a in f.args.args[1:]] if f else None}", construct=f"{Q}::policy {pol}")
    # unknown policy: ValueError, nothing registered, no sink touched (abstract run)
    from .. import effects
    add_rule = own_method(ctx, REAL, R, "add_rule")
    dom_ = effects.EffectDomain(ctx.classes, attrs={"self": ("self",), "self._in_run": "True"}, results={"StreamResultRouter._policies.get": ["None"], "self._policies.get": ["None"]})
    from ..absint import State as _State
    res_ = effects.run(ctx, dom_, add_rule, cls, {"sink": ("wobj", "s1"), "policy": ("const", "no-such-policy"), "do_start_stop_run": "True", "policy_args": ("kwdict", ())},
                       state=_State([("self._sinks", ("tuple",))]))
    ok = bool(res_) and all(r.kind == "exc" and r.value == ("exc", "ValueError") and r.state.get("self._sinks") == ("tuple",) and not effects.calls(r) for r in res_)
    chk("R-POLICY-TABLE", "unknown policy raises ValueError before any state change", ok,
        "an unknown policy does not end in ValueError with the router untouched: " + "; ".join(sorted({f"{r.kind} {r.value!r}, sinks {r.state.get('self._sinks')!r}, calls {[e[0] for e in effects.calls(r)]}" for r in res_})),
        fn="add_rule", node=add_rule)
    ctx.floor("R-ONE-DESTINATION", 40, "status scenarios")
    ctx.floor("R-SEPARATOR-AGREES", 4)
    ctx.floor("R-SINK-PAIR", 8)
