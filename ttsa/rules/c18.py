"""C18 -- routing picks exactly one destination; route prefixes push and pop inversely."""

import ast

from ..astutil import attr_chain, dotted, norm, walk_shallow
from ..cfg import live_nodes, node_calls
from ..flow import explore
from ..loader import AnalysisError
from .common import REAL, cfg_of, nodes_calling, own_method, str_const

EXPLANATION = (
    "Rules on testtools.testresult.real.StreamResultRouter and StreamToQueue.route_code: "
    "R-ONE-DESTINATION (typestate counter on the CFG of status(): exactly one forwarding "
    "<target>.status(**kwargs) on every returning path; target chosen by an if/elif/else in the "
    "order route-prefix rule, test-id rule, fallback; prefix = first segment of the route code), "
    "R-SEPARATOR-AGREES (writer StreamToQueue.route_code produces own+SEP+incoming, reader splits on "
    "the same SEP and a consuming rule strips exactly len(prefix)+len(SEP) characters mapping the "
    "empty remainder to None; _map_route_code_prefix rejects a prefix containing SEP; all literals "
    "equal), R-ONLY-OWNED-KEY (the only event field rewritten is route_code, only under "
    "consume_route), R-SINK-PAIR (startTestRun/stopTestRun iterate the same sink list calling the "
    "same-named method once per sink; add_rule appends to it iff do_start_stop_run; the immediate "
    "startTestRun for a rule added mid-run is control-dependent on both the in-run flag and "
    "do_start_stop_run), R-POLICY-TABLE (exactly the documented policies with the documented "
    "parameters; unknown policy raises before any state change)."
)

R = "StreamResultRouter"


def _cond_names(test):
    """Names / dotted attrs that must be truthy for ``test`` to be true."""
    if isinstance(test, ast.BoolOp) and isinstance(test.op, ast.And):
        out = set()
        for v in test.values:
            out |= _cond_names(v)
        return out
    d = dotted(test)
    return {d} if d else set()


def run(ctx):
    ctx.rule("R-ONE-DESTINATION", "every status event is forwarded to exactly one sink, chosen route-prefix > test-id > fallback")
    ctx.rule("R-SEPARATOR-AGREES", "StreamToQueue's prefixing and the router's consuming strip are inverse (same separator, exact length)")
    ctx.rule("R-ONLY-OWNED-KEY", "the router rewrites only route_code, only for a consuming rule")
    ctx.rule("R-SINK-PAIR", "startTestRun/stopTestRun reach exactly the registered sinks; mid-run add starts only registered sinks")
    ctx.rule("R-POLICY-TABLE", "policy table has the documented entries; unknown policy raises before any state change")
    Q = f"{REAL}:{R}"
    status = own_method(ctx, REAL, R, "status")
    cfg = cfg_of(ctx, status)
    live = live_nodes(cfg)
    kw = status.args.kwarg.arg if status.args.kwarg else None
    if kw is None or status.args.args[1:]:
        raise AnalysisError("StreamResultRouter.status no longer takes only **kwargs")

    def chk(rule, name, ok, msg, node=None, path=None, fn="status"):
        ctx.check(rule, f"{R}.{fn}: {name}", node if node is not None else status, bool(ok), msg, path=path,
                  construct=f"{Q}.{fn}::{name}")

    # ---- forwarding calls
    def is_forward(c):
        return (isinstance(c.func, ast.Attribute) and c.func.attr == "status" and not c.args
                and len(c.keywords) == 1 and c.keywords[0].arg is None and dotted(c.keywords[0].value) == kw
                and dotted(c.func.value) != "super()")

    fwd_nodes = nodes_calling(cfg, is_forward, live)
    other_status = nodes_calling(cfg, lambda c: isinstance(c.func, ast.Attribute) and c.func.attr == "status" and not is_forward(c) and dotted(c.func.value) != "super()", live)
    chk("R-ONE-DESTINATION", "forwarding passes the whole event (**kwargs)", bool(fwd_nodes) and not other_status,
        "a forwarding call does not pass the event as **kwargs (fields would be dropped or reordered)")

    def transfer(node, st, kind, target, exp, pair):
        if node.id in fwd_nodes and kind != "exc":
            return min(st + 1, 2)
        return st

    exp = explore(cfg, 0, transfer)
    ctx.stats["states"] += exp.size
    bad = [s for s in exp.states_at(cfg.exit_return) if s != 1]
    path = None
    if bad:
        path = exp.describe((cfg.exit_return, bad[0]))
    chk("R-ONE-DESTINATION", "exactly one forward on every returning path", not bad,
        f"a path through status() forwards the event {bad[0] if bad else ''} times" if bad else "", path=path)
    # precedence
    recv = None
    for nid in fwd_nodes:
        for c in node_calls(cfg.nodes[nid]):
            if is_forward(c):
                recv = dotted(c.func.value)
    sources = {}
    for n in walk_shallow(status, include_self=False):
        if isinstance(n, ast.Assign):
            for t in n.targets:
                names = [dotted(e) for e in t.elts] if isinstance(t, ast.Tuple) else [dotted(t)]
                if recv in names:
                    v = norm(n.value)
                    if "_route_code_prefixes" in v:
                        sources["prefix"] = n
                    elif "_test_ids" in v:
                        sources["test_id"] = n
                    elif v == "self.fallback":
                        sources["fallback"] = n
    chk("R-ONE-DESTINATION", "three destination sources present", set(sources) == {"prefix", "test_id", "fallback"},
        f"destination {recv} is not chosen among the route-prefix table, the test-id table and the fallback (found {sorted(sources)})")
    if set(sources) == {"prefix", "test_id", "fallback"}:
        top = getattr(sources["prefix"], "_parent", None)
        ok = (isinstance(top, ast.If) and sources["prefix"] in top.body and "_route_code_prefixes" in norm(top.test)
              and len(top.orelse) == 1 and isinstance(top.orelse[0], ast.If)
              and sources["test_id"] in top.orelse[0].body and "_test_ids" in norm(top.orelse[0].test)
              and sources["fallback"] in top.orelse[0].orelse)
        chk("R-ONE-DESTINATION", "precedence route-prefix > test-id > fallback", ok,
            "the destination is no longer chosen by if <prefix rule> / elif <test-id rule> / else <fallback>", node=sources["prefix"])
        if ok:
            t1 = top.test
            t2 = top.orelse[0].test
            ok_tests = (isinstance(t1, ast.Compare) and isinstance(t1.ops[0], ast.In) and dotted(t1.comparators[0]) == "self._route_code_prefixes"
                        and isinstance(t2, ast.Compare) and isinstance(t2.ops[0], ast.In) and dotted(t2.comparators[0]) == "self._test_ids")
            chk("R-ONE-DESTINATION", "rules are looked up by membership in their tables", ok_tests,
                "rule lookup is not `<prefix> in self._route_code_prefixes` / `<test id> in self._test_ids`", node=top)
            # test-id lookup key is the event's test_id
            key2 = dotted(t2.left) if isinstance(t2, ast.Compare) else None
            src_ok = any(isinstance(n, ast.Assign) and dotted(n.targets[0]) == key2 and isinstance(n.value, ast.Call)
                         and dotted(n.value.func) == f"{kw}.get" and n.value.args and str_const(n.value.args[0]) == "test_id"
                         for n in walk_shallow(status, include_self=False))
            chk("R-ONE-DESTINATION", "test-id rule keyed by the event's test_id", src_ok, "the test-id rule is not looked up with the event's test_id")
    # ---- separator agreement
    sep_split = None
    prefix_var = rc_var = None
    for n in walk_shallow(status, include_self=False):
        if isinstance(n, ast.Assign) and isinstance(n.value, ast.Call) and dotted(n.value.func) == f"{kw}.get" and n.value.args and str_const(n.value.args[0]) == "route_code":
            rc_var = dotted(n.targets[0])
    for n in walk_shallow(status, include_self=False):
        if isinstance(n, ast.Assign) and isinstance(n.value, ast.Subscript):
            v = n.value
            if isinstance(v.value, ast.Call) and isinstance(v.value.func, ast.Attribute) and v.value.func.attr in ("split", "partition") and dotted(v.value.func.value) == rc_var:
                if isinstance(v.slice, ast.Constant) and v.slice.value == 0 and v.value.args:
                    sep_split = str_const(v.value.args[0])
                    prefix_var = dotted(n.targets[0])
    chk("R-SEPARATOR-AGREES", "prefix is the first segment of the event's route code", sep_split is not None and prefix_var is not None,
        "the lookup key is not <route_code>.split(SEP)[0]")
    # strip idioms
    strip_len = None
    strip_node = None
    cons_var = None
    if "prefix" in sources:
        t = sources["prefix"].targets[0]
        if isinstance(t, ast.Tuple) and len(t.elts) == 2:
            cons_var = dotted(t.elts[1])
    for n in walk_shallow(status, include_self=False):
        if isinstance(n, ast.Assign) and dotted(n.targets[0]) == rc_var:
            v = n.value
            if isinstance(v, ast.Subscript) and dotted(v.value) == rc_var and isinstance(v.slice, ast.Slice) and v.slice.upper is None and v.slice.lower is not None:
                lo = v.slice.lower
                if isinstance(lo, ast.BinOp) and isinstance(lo.op, ast.Add):
                    parts = [lo.left, lo.right]
                    lens = [p for p in parts if isinstance(p, ast.Call) and dotted(p.func) == "len" and p.args and dotted(p.args[0]) == prefix_var]
                    consts = [p for p in parts if isinstance(p, ast.Constant) and isinstance(p.value, int)]
                    lens_sep = [p for p in parts if isinstance(p, ast.Call) and dotted(p.func) == "len" and p.args and isinstance(p.args[0], ast.Constant) and isinstance(p.args[0].value, str)]
                    if lens and consts:
                        strip_len, strip_node = consts[0].value, n
                    elif lens and lens_sep:
                        strip_len, strip_node = len(lens_sep[0].args[0].value), n
                elif isinstance(lo, ast.Call) and dotted(lo.func) == "len" and lo.args and dotted(lo.args[0]) == prefix_var:
                    strip_len, strip_node = 0, n
            elif isinstance(v, ast.Subscript) and isinstance(v.value, ast.Call) and isinstance(v.value.func, ast.Attribute) and dotted(v.value.func.value) == rc_var:
                m = v.value.func.attr
                a = v.value.args
                if m == "partition" and a and str_const(a[0]) is not None and isinstance(v.slice, ast.Constant) and v.slice.value == 2:
                    strip_len, strip_node = (len(a[0].value) if a[0].value == sep_split else -1), n
                if m == "split" and len(a) == 2 and str_const(a[0]) is not None and isinstance(a[1], ast.Constant) and a[1].value == 1 and isinstance(v.slice, ast.Constant) and v.slice.value == 1:
                    strip_len, strip_node = (len(a[0].value) if a[0].value == sep_split else -1), n
            elif isinstance(v, ast.Call) and isinstance(v.func, ast.Attribute) and v.func.attr == "removeprefix" and dotted(v.func.value) == rc_var and v.args:
                a = v.args[0]
                if isinstance(a, ast.BinOp) and isinstance(a.op, ast.Add) and dotted(a.left) == prefix_var and str_const(a.right) is not None:
                    strip_len, strip_node = (len(a.right.value) if a.right.value == sep_split else -1), n
    chk("R-SEPARATOR-AGREES", "consuming rule strips a recognised prefix idiom", strip_node is not None,
        "no statement strips the leading segment from the route code (rc[len(p)+k:], partition, split(sep,1), removeprefix)")
    # writer
    rcm = own_method(ctx, REAL, "StreamToQueue", "route_code")
    ctx.analysed(rcm)
    wparam = rcm.args.args[1].arg
    sep_write = None
    none_ok = False
    concat_ok = False
    for n in walk_shallow(rcm, include_self=False):
        if isinstance(n, ast.Return) and n.value is not None:
            v = n.value
            if dotted(v) == "self.routing_code":
                p = getattr(n, "_parent", None)
                if isinstance(p, ast.If) and norm(p.test) == f"{wparam} is None" and n in p.body:
                    none_ok = True
            if isinstance(v, ast.BinOp) and isinstance(v.op, ast.Add) and isinstance(v.left, ast.BinOp) and isinstance(v.left.op, ast.Add):
                if dotted(v.left.left) == "self.routing_code" and str_const(v.left.right) is not None and dotted(v.right) == wparam:
                    sep_write = v.left.right.value
                    concat_ok = True
            if isinstance(v, ast.JoinedStr):
                vals = v.values
                if (len(vals) == 3 and isinstance(vals[0], ast.FormattedValue) and dotted(vals[0].value) == "self.routing_code"
                        and isinstance(vals[1], ast.Constant) and isinstance(vals[2], ast.FormattedValue) and dotted(vals[2].value) == wparam):
                    sep_write = vals[1].value
                    concat_ok = True
    ctx.check("R-SEPARATOR-AGREES", "StreamToQueue.route_code: None -> own code", rcm, none_ok,
              "an event without route code no longer gets exactly the queue's own code", construct=f"{REAL}:StreamToQueue.route_code::none-arm")
    ctx.check("R-SEPARATOR-AGREES", "StreamToQueue.route_code: own + SEP + incoming", rcm, concat_ok,
              "the prefixed route code is not own code + separator + incoming code", construct=f"{REAL}:StreamToQueue.route_code::concat")
    # StreamToQueue.status applies route_code() to the route_code field
    sq = own_method(ctx, REAL, "StreamToQueue", "status")
    applied = any(k.arg == "route_code" and isinstance(k.value, ast.Call) and dotted(k.value.func) == "self.route_code" and k.value.args and dotted(k.value.args[0]) == "route_code"
                  for c in ast.walk(sq) if isinstance(c, ast.Call) for k in c.keywords)
    ctx.check("R-SEPARATOR-AGREES", "StreamToQueue.status prefixes the event's route code", sq, applied,
              "StreamToQueue.status does not send route_code=self.route_code(route_code)", construct=f"{REAL}:StreamToQueue.status::route")
    mp = own_method(ctx, REAL, R, "_map_route_code_prefix")
    sep_reject = None
    for n in walk_shallow(mp, include_self=False):
        if isinstance(n, ast.If) and isinstance(n.test, ast.Compare) and isinstance(n.test.ops[0], ast.In) and str_const(n.test.left) is not None:
            if any(isinstance(x, ast.Raise) for x in n.body) and dotted(n.test.comparators[0]) == mp.args.args[2].arg:
                sep_reject = n.test.left.value
    ctx.check("R-SEPARATOR-AGREES", "a prefix containing the separator is rejected", mp, sep_reject is not None,
              "_map_route_code_prefix accepts prefixes that span more than one route step", construct=f"{Q}._map_route_code_prefix::reject")
    seps = {"writer": sep_write, "reader-split": sep_split, "reader-reject": sep_reject}
    ok = len(set(seps.values())) == 1 and None not in seps.values()
    chk("R-SEPARATOR-AGREES", "separator literals agree", ok, f"separators differ between writer and reader: {seps}")
    if strip_node is not None and sep_write is not None:
        chk("R-SEPARATOR-AGREES", "strip length = len(prefix) + len(separator)", strip_len == len(sep_write),
            f"the consuming rule strips len(prefix)+{strip_len} characters but the separator {sep_write!r} has length {len(sep_write)}", node=strip_node)
        # empty remainder -> None
        emp = False
        for n in walk_shallow(status, include_self=False):
            if isinstance(n, ast.If) and norm(n.test) == f"not {rc_var}":
                if any(isinstance(s, ast.Assign) and dotted(s.targets[0]) == rc_var and isinstance(s.value, ast.Constant) and s.value.value is None for s in n.body):
                    emp = True
            if isinstance(n, ast.Assign) and isinstance(n.value, ast.BoolOp) and isinstance(n.value.op, ast.Or) and isinstance(n.value.values[-1], ast.Constant) and n.value.values[-1].value is None:
                if dotted(n.targets[0]) in (rc_var,) or (isinstance(n.targets[0], ast.Subscript) and str_const(n.targets[0].slice) == "route_code"):
                    emp = True
        chk("R-SEPARATOR-AGREES", "empty remainder becomes None", emp,
            "after stripping its only segment the route code stays '' instead of None (the inverse of prefixing None)")
        # strip is control dependent on consume flag and on route_code not None
        snodes = [i for i in cfg.nodes_for(strip_node) if i in live]
        guards = set()
        p = getattr(strip_node, "_parent", None)
        while p is not None and p is not status:
            if isinstance(p, ast.If) and any(strip_node is x or any(y is strip_node for y in ast.walk(x)) for x in p.body):
                guards |= _cond_names(p.test)
                if isinstance(p.test, ast.BoolOp):
                    for v in p.test.values:
                        if isinstance(v, ast.Compare) and isinstance(v.ops[0], ast.IsNot) and isinstance(v.comparators[0], ast.Constant) and v.comparators[0].value is None:
                            guards.add(dotted(v.left) + " is not None")
            p = getattr(p, "_parent", None)
        chk("R-SEPARATOR-AGREES", "strip only for a consuming rule", cons_var in guards,
            f"the route code is stripped even when consume_route is false (guards: {sorted(guards)})", node=strip_node)
    # ---- only owned key
    writes = []
    for n in walk_shallow(status, include_self=False):
        if isinstance(n, (ast.Assign, ast.AugAssign, ast.Delete)):
            targets = n.targets if not isinstance(n, ast.AugAssign) else [n.target]
            for t in targets:
                if isinstance(t, ast.Subscript) and dotted(t.value) == kw:
                    writes.append((n, str_const(t.slice)))
        if isinstance(n, ast.Call) and isinstance(n.func, ast.Attribute) and dotted(n.func.value) == kw and n.func.attr in ("pop", "update", "clear", "setdefault", "popitem"):
            writes.append((n, f".{n.func.attr}()"))
    chk("R-ONLY-OWNED-KEY", "only route_code is rewritten", all(k == "route_code" for _, k in writes),
        f"status() rewrites event fields other than route_code: {[k for _, k in writes]}")
    for n, k in writes:
        if k != "route_code":
            continue
        guards = set()
        p = getattr(n, "_parent", None)
        while p is not None and p is not status:
            if isinstance(p, ast.If) and any(x is n or any(y is n for y in ast.walk(x)) for x in p.body):
                guards |= _cond_names(p.test)
            p = getattr(p, "_parent", None)
        chk("R-ONLY-OWNED-KEY", "route_code rewritten only under consume_route", cons_var in guards,
            "the route code of the event is rewritten for a non-consuming rule", node=n)
    # ---- sink pairing
    sinks_attr = None
    add_rule = own_method(ctx, REAL, R, "add_rule")
    acfg = cfg_of(ctx, add_rule)
    alive = live_nodes(acfg)
    sink_p = add_rule.args.args[1].arg
    flag_p = "do_start_stop_run"
    if flag_p not in [a.arg for a in add_rule.args.args]:
        raise AnalysisError("add_rule lost its do_start_stop_run parameter")
    appends = []
    for n in walk_shallow(add_rule, include_self=False):
        if isinstance(n, ast.Call) and isinstance(n.func, ast.Attribute) and n.func.attr == "append" and n.args and dotted(n.args[0]) == sink_p:
            appends.append(n)
            sinks_attr = dotted(n.func.value)
    chk("R-SINK-PAIR", "add_rule registers the sink for start/stop", len(appends) == 1, "add_rule does not append the sink to the start/stop list exactly once", fn="add_rule", node=add_rule)

    def true_guards(node_ast, func):
        g = set()
        p = getattr(node_ast, "_parent", None)
        child = node_ast
        while p is not None and p is not func:
            if isinstance(p, ast.If) and any(x is child for x in p.body):
                g |= _cond_names(p.test)
            child = p
            p = getattr(p, "_parent", None)
        return g

    if appends:
        g = true_guards(appends[0], add_rule)
        chk("R-SINK-PAIR", "registered iff do_start_stop_run", g == {flag_p}, f"registration is guarded by {sorted(g)} instead of exactly {flag_p}", fn="add_rule", node=appends[0])
    imm = [n for n in walk_shallow(add_rule, include_self=False) if isinstance(n, ast.Call) and dotted(n.func) == f"{sink_p}.startTestRun"]
    chk("R-SINK-PAIR", "rule added mid-run is started immediately", len(imm) == 1, "add_rule no longer calls sink.startTestRun() for a rule added while a run is in progress", fn="add_rule", node=add_rule)
    for c in imm:
        g = true_guards(c, add_rule)
        ok = {"self._in_run", flag_p} <= g
        ctx.check("R-SINK-PAIR", f"{R}.add_rule: immediate startTestRun requires in-run AND do_start_stop_run", c, ok,
                  f"sink.startTestRun() is guarded only by {sorted(g)}: a sink added mid-run without do_start_stop_run is started but never stopped",
                  construct=f"{Q}.add_rule::immediate-start-guard")
    for name, flagval in (("startTestRun", True), ("stopTestRun", False)):
        f = own_method(ctx, REAL, R, name)
        ctx.analysed(f)
        loops = [n for n in walk_shallow(f, include_self=False) if isinstance(n, ast.For) and dotted(n.iter) == sinks_attr]
        ok = False
        if len(loops) == 1 and isinstance(loops[0].target, ast.Name):
            v = loops[0].target.id
            calls = [c for c in walk_shallow(loops[0]) if isinstance(c, ast.Call) and isinstance(c.func, ast.Attribute) and dotted(c.func.value) == v]
            jumps = [x for x in walk_shallow(loops[0]) if isinstance(x, (ast.Break, ast.Continue, ast.Return, ast.If))]
            ok = len(calls) == 1 and calls[0].func.attr == name and not jumps
        chk("R-SINK-PAIR", f"{name} reaches every registered sink once", ok, f"{name} does not call sink.{name}() once for every element of {sinks_attr}", fn=name, node=f)
        sets = [n for n in walk_shallow(f, include_self=False) if isinstance(n, ast.Assign) and dotted(n.targets[0]) == "self._in_run" and isinstance(n.value, ast.Constant) and n.value.value is flagval]
        chk("R-SINK-PAIR", f"{name} sets the in-run flag to {flagval}", len(sets) == 1, f"{name} does not set self._in_run = {flagval}", fn=name, node=f)
    init = own_method(ctx, REAL, R, "__init__")
    fb = [n for n in walk_shallow(init, include_self=False) if isinstance(n, ast.Call) and dotted(n.func) == f"{sinks_attr}.append" and n.args and dotted(n.args[0]) == "fallback"]
    ok = len(fb) == 1 and {"do_start_stop_run", "fallback"} <= true_guards(fb[0], init)
    chk("R-SINK-PAIR", "fallback registered iff do_start_stop_run", ok, "the fallback is not registered for start/stop exactly when do_start_stop_run is set", fn="__init__", node=init)
    # ---- policy table
    cls = ctx.classes.get(REAL, R)
    table = {}
    for stmt in cls.node.body:
        if isinstance(stmt, ast.Assign) and isinstance(stmt.targets[0], ast.Subscript) and dotted(stmt.targets[0].value) == "_policies":
            table[str_const(stmt.targets[0].slice)] = dotted(stmt.value)
    if isinstance(cls.attrs.get("_policies"), ast.Dict):
        for k, v in zip(cls.attrs["_policies"].keys, cls.attrs["_policies"].values):
            table[str_const(k)] = dotted(v)
    doc = {"route_code_prefix": ["sink", "route_prefix", "consume_route"], "test_id": ["sink", "test_id"]}
    ctx.check("R-POLICY-TABLE", "policies are exactly route_code_prefix and test_id", cls.node, set(table) == set(doc),
              f"policy table keys are {sorted(table)}", construct=f"{Q}::_policies")
    for pol, params in doc.items():
        mname = table.get(pol)
        f = cls.own_method(mname) if mname else None
        ok = f is not None and [a.arg for a in f.args.args[1:]] == params
        ctx.check("R-POLICY-TABLE", f"policy {pol} takes ({', '.join(params)})", f if f is not None else cls.node, ok,
                  f"policy {pol} is bound to {mname} with parameters {[a.arg for a in f.args.args[1:]] if f else None}", construct=f"{Q}::policy {pol}")
    raises = [n.id for n in acfg.nodes if n.id in alive and n.kind == "raise" and isinstance(n.ast, ast.Raise) and n.ast.exc is not None and "ValueError" in norm(n.ast.exc)]
    pm = nodes_calling(acfg, lambda c: dotted(c.func) == "policy_method" or (isinstance(c.func, ast.Name) and c.func.id.startswith("policy")), alive)
    ok = False
    if len(raises) == 1:
        rn = acfg.nodes[raises[0]].ast
        g = getattr(rn, "_parent", None)
        if isinstance(g, ast.If):
            gt = [n.id for n in acfg.nodes if n.kind == "test" and n.ast is g and n.id in alive]
            mut = pm + [i for a in appends for i in acfg.nodes_for(a)] + [i for c in imm for i in acfg.nodes_for(c)]
            ok = bool(gt) and all(acfg.dominated_by(m, set(gt)) for m in mut if m in alive)
    chk("R-POLICY-TABLE", "unknown policy raises ValueError before any state change", ok, "an unknown policy can modify the router before ValueError is raised", fn="add_rule", node=add_rule)
    ctx.floor("R-ONE-DESTINATION", 6)
    ctx.floor("R-SEPARATOR-AGREES", 9)
    ctx.floor("R-SINK-PAIR", 9)
