"""C18 -- routing picks exactly one destination; route prefixes push and pop inversely."""

import ast

from .common import REAL

EXPLANATION = (
    'StreamResultRouter is constructed and driven through histories of add_rule / startTestRun / status / stopTestRun calls '
    '(ttsa.rules.streamobjects; sinks and fallback are logging objects). R-ONE-DESTINATION: each event reaches exactly one '
    'sink -- route-prefix rule before test-id rule before fallback, only the first segment selecting -- and an event '
    'without destination is refused; histories: a rule added after an event with the same route code, a rule replaced, '
    'several codes under one prefix. R-ONLY-OWNED-KEY: the sink sees every field unchanged; the route code loses exactly '
    'its first segment under a consuming rule (also when the next segment looks the same; a bare prefix becomes None) and '
    'is untouched otherwise. R-SEPARATOR-AGREES: an event put through StreamToQueue(code) and then through a consuming rule '
    'for code arrives with its original route code; a multi-segment prefix is rejected. R-SINK-PAIR: startTestRun / '
    'stopTestRun reach exactly the sinks registered for them, once per run, over two runs, including a sink that joined in '
    'the middle of the first; nothing is started outside a run or without do_start_stop_run. R-POLICY-TABLE: unknown '
    'policies are refused before any state change; the documented ones are accepted.'
)

R = "StreamResultRouter"


from . import streamobjects as so   # noqa: E402
from ..absint import FALSE, NONE, TRUE   # noqa: E402

SINKS = ("fallback", "sink0", "sink1", "sink2", "queue")
EVENT = [("test_id", ("const", "pkg.T")), ("test_status", ("const", "success")), ("test_tags", ("sym", "tags")), ("runnable", FALSE), ("file_name", ("const", "f")),
         ("file_bytes", ("const", b"b")), ("eof", FALSE), ("mime_type", ("const", "text/plain")), ("timestamp", ("sym", "t1"))]


def _event(route=None, **over):
    kw = [(k, over.get(k, v)) for k, v in EVENT]
    if route is not None:
        kw.append(("route_code", route))
    return kw


def _router(ctx, fallback=True, start_stop_fallback=True):
    cls = ctx.classes.get(REAL, R)
    dom = so.StreamDomain(ctx.classes, accepting=SINKS)
    d = so.Driver(ctx, cls, dom)
    ctor = ([("wobj", "fallback")] if fallback else []) + ([] if start_stop_fallback else [FALSE] if fallback else [])
    return d, d.construct(ctor if fallback else [], [] if fallback or start_stop_fallback else [("do_start_stop_run", FALSE)])


def _sent(r):
    return [(n.split(".")[0], n.split(".")[1], dict(kw), pos) for n, pos, kw, tag in r.state.get("ev.calls", ()) if n.split(".")[0] in SINKS]


def check_routing(ctx):
    cls = ctx.classes.get(REAL, R)
    Q = f"{REAL}:{R}"
    base = dict(EVENT)
    cases = [
        # (what, rules to add, route code of the event, test id, expected sink, expected route code at the sink)
        ("an event whose first route segment has a consuming rule goes there, without that segment", [("prefix", "sink0", "0", True)], ("const", "0/1/2"), None, "sink0", ("const", "1/2")),
        ("a consuming rule strips exactly the first segment, also when the next one looks the same", [("prefix", "sink0", "0", True)], ("const", "0/0/00/1"), None, "sink0", ("const", "0/00/1")),
        ("a consuming rule turns a bare prefix into no route code at all", [("prefix", "sink0", "0", True)], ("const", "0"), None, "sink0", NONE),
        ("a non-consuming rule leaves the route code alone", [("prefix", "sink0", "0", False)], ("const", "0/1"), None, "sink0", ("const", "0/1")),
        ("only the first segment selects: a longer prefix-looking code does not match", [("prefix", "sink0", "0", True)], ("const", "00/1"), None, "fallback", ("const", "00/1")),
        ("a test-id rule catches events without a matching route rule", [("prefix", "sink0", "0", True), ("id", "sink1", "pkg.T")], ("const", "5/1"), None, "sink1", ("const", "5/1")),
        ("the route rule wins over the test-id rule", [("prefix", "sink0", "0", True), ("id", "sink1", "pkg.T")], ("const", "0/1"), None, "sink0", ("const", "1")),
        ("an event without route code can still match a test-id rule", [("prefix", "sink0", "0", True), ("id", "sink1", "pkg.T")], None, None, "sink1", "absent"),
        ("everything else goes to the fallback", [("prefix", "sink0", "0", True), ("id", "sink1", "pkg.other")], ("const", "7"), None, "fallback", ("const", "7")),
    ]
    for what, rules, route, _tid, want_sink, want_route in cases:
        d, runs = _router(ctx)
        for kind, sink, arg, consume in [tuple(x) + (None,) * (4 - len(x)) for x in rules]:
            if kind == "prefix":
                runs = d.call(runs, "add_rule", [("wobj", sink), ("const", "route_code_prefix")], [("route_prefix", ("const", arg)), ("consume_route", TRUE if consume else FALSE)])
            else:
                runs = d.call(runs, "add_rule", [("wobj", sink), ("const", "test_id")], [("test_id", ("const", arg))])
        runs = d.call(runs, "startTestRun")
        runs = d.call(runs, "status", kw=_event(route))
        d.done()
        one, owned = set(), set()
        for r in runs:
            if r.kind == "exc":
                one.add(f"status raises {r.value!r}")
                continue
            got = [(snk, kw) for snk, meth, kw, pos in _sent(r) if meth == "status"]
            if [snk for snk, _ in got] != [want_sink]:
                one.add(f"the event reaches {[snk for snk, _ in got]}; expected exactly [{want_sink!r}]")
                continue
            kw = got[0][1]
            rc = kw.get("route_code", "absent")
            if rc != want_route and not (want_route == "absent" and rc == NONE) and not (want_route == NONE and rc == "absent"):
                owned.add(f"the sink sees route_code={rc!r}; expected {want_route!r}")
            for k, v in base.items():
                if kw.get(k, "absent") != v:
                    owned.add(f"the field {k} arrives as {kw.get(k, 'absent')!r} instead of {v!r}")
        ctx.check("R-ONE-DESTINATION", what, cls.node, bool(runs) and not one, "; ".join(sorted(one)) or "no path returns", examined=len(runs), construct=f"{Q}.status::{what}")
        ctx.check("R-ONLY-OWNED-KEY", f"{what}: every other field unchanged", cls.node, bool(runs) and not owned, "; ".join(sorted(owned)), examined=len(runs), construct=f"{Q}.status::fields {what}")
    # the destination follows the rules in force when the event arrives -- not what an earlier event with the same route code met
    histories = [
        ("a rule added after an event with the same route code was routed to the fallback", [("event", "0/1"), ("rule", "sink0", "0", True), ("event", "0/1")],
         [("fallback", ("const", "0/1")), ("sink0", ("const", "1"))]),
        ("a rule replaced by a later rule for the same prefix", [("rule", "sink0", "0", True), ("event", "0/1"), ("rule", "sink1", "0", False), ("event", "0/1")],
         [("sink0", ("const", "1")), ("sink1", ("const", "0/1"))]),
        ("two route codes under one prefix, one bare", [("rule", "sink0", "0", True), ("event", "0/1"), ("event", "0"), ("event", "0/1")],
         [("sink0", ("const", "1")), ("sink0", NONE), ("sink0", ("const", "1"))]),
    ]
    for what, steps, want in histories:
        d, runs = _router(ctx)
        runs = d.call(runs, "startTestRun")
        for step in steps:
            if step[0] == "rule":
                runs = d.call(runs, "add_rule", [("wobj", step[1]), ("const", "route_code_prefix")], [("route_prefix", ("const", step[2])), ("consume_route", TRUE if step[3] else FALSE)])
            else:
                runs = d.call(runs, "status", kw=_event(("const", step[1])))
        d.done()
        problems = set()
        for r in runs:
            if r.kind == "exc":
                problems.add(f"the history raises {r.value!r}")
                continue
            got = [(snk, kw.get("route_code", NONE)) for snk, meth, kw, pos in _sent(r) if meth == "status"]
            if got != want:
                problems.add(f"the events reach {got!r}; expected {want!r}")
        ctx.check("R-ONE-DESTINATION", f"[history] {what}: each event goes where the rules in force send it", cls.node, bool(runs) and not problems, "; ".join(sorted(problems)) or "no path returns",
                  examined=len(runs), construct=f"{Q}.status::history {what}")
    # no rule matches and there is no fallback: the event is refused, not dropped
    d, runs = _router(ctx, fallback=False)
    runs = d.call(d.call(runs, "startTestRun"), "status", kw=_event(("const", "9")))
    d.done()
    ok = bool(runs) and all(r.kind == "exc" for r in runs)
    ctx.check("R-ONE-DESTINATION", "without any matching rule and without fallback the event raises", cls.node, ok, "an event that has no destination is dropped silently", examined=len(runs),
              construct=f"{Q}.status::no-destination")


def check_separator(ctx):
    """StreamToQueue(code) prefixes, a consuming router rule for code strips: the original route code comes back."""
    q = ctx.classes.get(REAL, "StreamToQueue")
    problems = set()
    n = 0
    for original in (None, ("const", "inner"), ("const", "a/b")):
        dq = so.Driver(ctx, q, so.StreamDomain(ctx.classes, accepting=SINKS))
        runs = dq.call(dq.construct([("wobj", "queue"), ("const", "code")]), "status", kw=_event(original))
        dq.done()
        for r in runs:
            n += 1
            if r.kind == "exc":
                problems.add(f"StreamToQueue.status raises {r.value!r}")
                continue
            puts = [pos for snk, meth, kw, pos in _sent(r) if snk == "queue" and meth == "put"]
            if len(puts) != 1 or not (isinstance(puts[0][0], tuple) and puts[0][0][:1] == ("kwdict",)):
                problems.add(f"StreamToQueue does not put exactly one event dict on the queue ({puts!r})")
                continue
            ev = dict(puts[0][0][1])
            want = ("const", "code" if original is None else "code/" + original[1])
            if ev.get("route_code") != want:
                problems.add(f"an event with route code {original!r} is queued with route_code={ev.get('route_code')!r}; expected {want!r}")
                continue
            d, rruns = _router(ctx)
            rruns = d.call(rruns, "add_rule", [("wobj", "sink0"), ("const", "route_code_prefix")], [("route_prefix", ("const", "code")), ("consume_route", TRUE)])
            rruns = d.call(d.call(rruns, "startTestRun"), "status", kw=[(k, v) for k, v in puts[0][0][1] if k != "event"])
            d.done()
            for r2 in rruns:
                got = [kw.get("route_code", NONE) for snk, meth, kw, pos in _sent(r2) if snk == "sink0" and meth == "status"] if r2.kind == "val" else None
                if got != [original if original is not None else NONE]:
                    problems.add(f"an event with route code {original!r}, queued under 'code' and routed by a consuming rule for 'code', arrives with route code {got!r}")
    ctx.check("R-SEPARATOR-AGREES", "StreamToQueue's prefixing and a consuming route rule are inverse", q.node, n > 0 and not problems, "; ".join(sorted(problems)) or "no path returns", examined=n,
              construct=f"{REAL}:StreamToQueue.route_code::inverse")
    d, runs = _router(ctx)
    runs = d.call(runs, "add_rule", [("wobj", "sink0"), ("const", "route_code_prefix")], [("route_prefix", ("const", "a/b"))])
    d.done()
    ok = bool(runs) and all(r.kind == "exc" for r in runs)
    ctx.check("R-SEPARATOR-AGREES", "a route prefix of more than one segment is rejected (it could never match)", ctx.classes.get(REAL, R).node, ok, "a multi-segment prefix is accepted",
              examined=len(runs), construct=f"{REAL}:{R}._map_route_code_prefix::one-step")


def check_sinks(ctx):
    cls = ctx.classes.get(REAL, R)
    Q = f"{REAL}:{R}"
    problems = set()
    n = 0
    # registered before the run: started and stopped with it, once each; unregistered sinks never
    d, runs = _router(ctx)
    runs = d.call(runs, "add_rule", [("wobj", "sink0"), ("const", "route_code_prefix")], [("route_prefix", ("const", "0")), ("do_start_stop_run", TRUE)])
    runs = d.call(runs, "add_rule", [("wobj", "sink1"), ("const", "route_code_prefix")], [("route_prefix", ("const", "1"))])
    runs = d.call(runs, "startTestRun")
    runs = d.call(runs, "add_rule", [("wobj", "sink2"), ("const", "test_id")], [("test_id", ("const", "pkg.T")), ("do_start_stop_run", TRUE)])
    mid = [[(snk, meth) for snk, meth, kw, pos in _sent(r)] for r in runs if r.kind == "val"]
    runs = d.call(runs, "stopTestRun")
    d.done()
    for r, before in zip([r for r in runs if r.kind == "val"], mid):
        n += 1
        calls_ = [(snk, meth) for snk, meth, kw, pos in _sent(r)]
        if sorted(before) != sorted([("fallback", "startTestRun"), ("sink0", "startTestRun"), ("sink2", "startTestRun")]):
            problems.add(f"after startTestRun and a rule added mid-run the sinks started are {before}; expected the fallback, the sink registered with do_start_stop_run, and at once the one added mid-run")
        stops = [c_ for c_ in calls_ if c_[1] == "stopTestRun"]
        if sorted(stops) != sorted([("fallback", "stopTestRun"), ("sink0", "stopTestRun"), ("sink2", "stopTestRun")]):
            problems.add(f"stopTestRun reaches {stops}; expected exactly the sinks that were started, once each")
    if any(r.kind == "exc" for r in runs):
        problems.add("registering sinks / starting / stopping raises")
    ctx.check("R-SINK-PAIR", "startTestRun / stopTestRun reach exactly the sinks registered for them, once per run; a rule added mid-run is started at once", cls.node, n > 0 and not problems,
              "; ".join(sorted(problems)) or "no path returns", examined=n, construct=f"{Q}::sink-pair")
    # a second run on the same router: every sink registered for start / stop -- before the first run or in the middle of it -- takes part again
    d, runs = _router(ctx)
    runs = d.call(runs, "add_rule", [("wobj", "sink0"), ("const", "route_code_prefix")], [("route_prefix", ("const", "0")), ("do_start_stop_run", TRUE)])
    runs = d.call(runs, "startTestRun")
    runs = d.call(runs, "add_rule", [("wobj", "sink2"), ("const", "test_id")], [("test_id", ("const", "pkg.T")), ("do_start_stop_run", TRUE)])
    runs = d.call(runs, "stopTestRun")
    runs = d.call(runs, "startTestRun")
    runs = d.call(runs, "stopTestRun")
    d.done()
    again = set()
    for r in runs:
        if r.kind != "val":
            again.add(f"the second run raises {r.value!r}")
            continue
        for snk in ("fallback", "sink0", "sink2"):
            got = [meth for s_, meth, kw, pos in _sent(r) if s_ == snk and meth in ("startTestRun", "stopTestRun")]
            if got != ["startTestRun", "stopTestRun", "startTestRun", "stopTestRun"]:
                again.add(f"over two runs {snk} receives {got}; expected to be started and stopped with each of them")
    ctx.check("R-SINK-PAIR", "a second run starts and stops every registered sink again, also one that joined in the middle of the first run", cls.node, bool(runs) and not again,
              "; ".join(sorted(again)) or "no path returns", examined=len(runs), construct=f"{Q}::second-run")
    # a rule added before the run is not started early; do_start_stop_run=False on the fallback keeps it out
    d, runs = _router(ctx)
    runs = d.call(runs, "add_rule", [("wobj", "sink0"), ("const", "test_id")], [("test_id", ("const", "pkg.T")), ("do_start_stop_run", TRUE)])
    d.done()
    early = [c_ for r in runs if r.kind == "val" for c_ in _sent(r)]
    ctx.check("R-SINK-PAIR", "a rule added while no run is in progress does not start its sink", cls.node, bool(runs) and not early, f"add_rule outside a run already calls {[(c_[0], c_[1]) for c_ in early]}",
              examined=len(runs), construct=f"{Q}.add_rule::not-in-run")
    # mid-run, without do_start_stop_run: routed to, but not started; after the run has stopped: not started either
    d, runs = _router(ctx)
    runs = d.call(runs, "startTestRun")
    runs = d.call(runs, "add_rule", [("wobj", "sink1"), ("const", "test_id")], [("test_id", ("const", "pkg.T"))])
    runs = d.call(runs, "stopTestRun")
    runs = d.call(runs, "add_rule", [("wobj", "sink2"), ("const", "test_id")], [("test_id", ("const", "pkg.U")), ("do_start_stop_run", TRUE)])
    d.done()
    wrong = sorted({(c_[0], c_[1]) for r in runs if r.kind == "val" for c_ in _sent(r) if c_[0] in ("sink1", "sink2")})
    ctx.check("R-SINK-PAIR", "a sink added mid-run without do_start_stop_run, or added after the run has stopped, is not started", cls.node, bool(runs) and not wrong and all(r.kind == "val" for r in runs),
              f"sinks that must be left alone receive {wrong}", examined=len(runs), construct=f"{Q}.add_rule::guards")
    d = so.Driver(ctx, cls, so.StreamDomain(ctx.classes, accepting=SINKS))
    runs = d.call(d.call(d.construct([("wobj", "fallback")], [("do_start_stop_run", FALSE)]), "startTestRun"), "stopTestRun")
    d.done()
    touched = [c_ for r in runs if r.kind == "val" for c_ in _sent(r)]
    ctx.check("R-SINK-PAIR", "a fallback given with do_start_stop_run=False is neither started nor stopped", cls.node, bool(runs) and not touched, f"the fallback receives {[(c_[0], c_[1]) for c_ in touched]}",
              examined=len(runs), construct=f"{Q}.__init__::fallback-flag")
    # unknown policy: refused before anything is registered or started
    d, runs = _router(ctx)
    runs = d.call(runs, "startTestRun")
    before = [len(_sent(r)) for r in runs if r.kind == "val"]
    bad = d.call(runs, "add_rule", [("wobj", "sink0"), ("const", "no-such-policy")], [("do_start_stop_run", TRUE)])
    d.done()
    ok = bool(bad) and all(r.kind == "exc" and r.value == ("exc", "ValueError") for r in bad) and all(len(_sent(r)) == b_ for r, b_ in zip(bad, before))
    ctx.check("R-POLICY-TABLE", "an unknown policy raises ValueError before the sink is registered or started", cls.node, ok, "an unknown policy is not refused cleanly", examined=len(bad),
              construct=f"{Q}.add_rule::unknown-policy")
    d, runs = _router(ctx)
    runs = d.call(runs, "add_rule", [("wobj", "sink0"), ("const", "route_code_prefix")], [("route_prefix", ("const", "0"))])
    runs = d.call(runs, "add_rule", [("wobj", "sink1"), ("const", "test_id")], [("test_id", ("const", "x"))])
    d.done()
    ctx.check("R-POLICY-TABLE", "the documented policies 'route_code_prefix' and 'test_id' are accepted with their documented arguments", cls.node, bool(runs) and all(r.kind == "val" for r in runs),
              "a documented policy is refused", examined=len(runs), construct=f"{Q}._policies::documented")


def run(ctx):
    ctx.rule("R-ONE-DESTINATION", "every status event is forwarded to exactly one sink, chosen route-prefix > test-id > fallback")
    ctx.rule("R-SEPARATOR-AGREES", "StreamToQueue's prefixing and the router's consuming strip are inverse (same separator, exact length)")
    ctx.rule("R-ONLY-OWNED-KEY", "the router rewrites only route_code, only for a consuming rule")
    ctx.rule("R-SINK-PAIR", "startTestRun/stopTestRun reach exactly the registered sinks; mid-run add starts only registered sinks")
    ctx.rule("R-POLICY-TABLE", "policy table has the documented entries; unknown policy raises before any state change")
    check_routing(ctx)
    check_separator(ctx)
    check_sinks(ctx)
