"""C15 -- Spinner returns the function's own result and restores the process.

Pairing / ordering rules on the exceptional CFG of Spinner.run, not_reentrant
and the helpers.  Timing (before / equal / after the timeout) and what the
reactor holds at run time are not decided here.
"""

import ast

from ..absint import FALSE, NONE, TOP, TRUE, DefaultDomain, Interp, State, exc, val
from ..astutil import FUNC_TYPES, attr_chain, dotted, norm, walk_shallow
from ..cfg import live_nodes, node_calls, node_exprs
from ..loader import AnalysisError
from .common import SPINNER, cfg_of, module_function, nodes_calling, own_method

EXPLANATION = (
    "Pairing and ordering rules on the exceptional CFG (finally/with cloned per exit kind) of "
    "testtools.twistedsupport._spinner: R-RESTORE-STOP (every path from the statement that "
    "replaces reactor.stop to any exit re-installs the saved value), R-RESTORE-SIGNALS (signals "
    "saved before reactor.run() and restored on every path out of it, save/restore cover the "
    "three preserved signals pairwise), R-CLEAN-ALWAYS (the result is fetched inside a try whose "
    "finally cleans the reactor; _clean cancels and records every delayed call and selectable), "
    "R-STALE-JUNK-FIRST (the junk refusal dominates every mutation), R-REENTRANCY-FLAG (flag set "
    "after the re-entry test and cleared on all paths), R-RESULT-3WAY / R-CALLBACK-SIBLINGS (the "
    "result is exactly failure->raise, success->return, neither->NoResultError; both callbacks "
    "cancel the timeout and store into distinct fields; the timeout stores a TimeoutError and "
    "stops the reactor), R-RESULT-RESET (result fields of a previous run cannot leak into this "
    "run). Timing relative to the timeout and real reactor/signal state are runtime quantities "
    "and are not decided."
)


def assign_pairs(stmt):
    """(target, value) pairs of an Assign, splitting parallel tuple assignment."""
    if not isinstance(stmt, ast.Assign):
        return []
    out = []
    for t in stmt.targets:
        if (
            isinstance(t, (ast.Tuple, ast.List))
            and isinstance(stmt.value, (ast.Tuple, ast.List))
            and len(t.elts) == len(stmt.value.elts)
        ):
            out.extend(zip(t.elts, stmt.value.elts))
        else:
            out.append((t, stmt.value))
    return out


class _LateResultDomain(DefaultDomain):
    """Spinner callbacks over a DelayedCall typestate: self._timeout_call is pending, called or
    cancelled; cancel() on a call that is no longer pending raises (twisted.internet.base.DelayedCall:
    AlreadyCalled / AlreadyCancelled), active() is true only while pending."""

    def __init__(self, classes):
        self.classes = classes

    def load_attr(self, chain, st, fr):
        if chain == ["self", "_UNSET"]:
            return ("const", "UNSET")
        return None

    def truth(self, value):
        if value == ("const", "UNSET"):
            return "T"
        return super().truth(value)

    def compare(self, op, left, right):
        unset = ("const", "UNSET")
        if isinstance(op, (ast.Is, ast.IsNot)) and unset in (left, right):
            other = right if left == unset else left
            if isinstance(other, tuple) and other != TOP:
                same = other == unset
                return "T" if same == isinstance(op, ast.Is) else "F"
        return None

    def call(self, interp, call, st, fr):
        d = dotted(call.func)
        ch = attr_chain(call.func)
        tc = st.get("tc", "pending")
        if d == "self._timeout_call.cancel":
            if tc == "pending":
                return [val(NONE, st.set("tc", "cancelled"))]
            return [exc(("twisted", "AlreadyCalled" if tc == "called" else "AlreadyCancelled"), st)]
        if d == "self._timeout_call.active":
            return [val(TRUE if tc == "pending" else FALSE, st)]
        if d == "TimeoutError":
            return [val(("timeout-exc",), st)]
        if d == "Failure":
            out = []
            for r in interp.eval_list(list(call.args), st, fr):
                out.append(r if r.kind == "exc" else val(("timeout",) if r.value and r.value[0] == ("timeout-exc",) else ("failure", "other"), r.state))
            return out
        if ch and ch[-1] == "raiseException" and len(ch) == 3 and ch[0] == "self":
            return [exc(("failure-raised", st.get("self." + ch[1], TOP)), st)]
        if d == "NoResultError":
            return [val(("no-result",), st)]
        if ch and ch[0] == "self" and len(ch) == 2 and fr.receiver is not None:
            owner, f = self.classes.resolve_method(fr.receiver, ch[1])
            if isinstance(f, FUNC_TYPES) and owner is not None and not owner.external:
                params = [p_.arg for p_ in f.args.args][1:]
                out = []
                for r in interp.eval_list(list(call.args), st, fr):
                    if r.kind == "exc":
                        out.append(r)
                        continue
                    out.extend(interp.inline(f, {params[i]: v for i, v in enumerate(r.value) if i < len(params)}, r.state, fr, receiver=fr.receiver))
                return out
        out = []
        for r in interp.eval_list([a for a in call.args if not isinstance(a, ast.Starred)], st, fr):
            out.append(r if r.kind == "exc" else val(TOP, r.state))
        return out

    def raised_value(self, stmt, value, st, fr):
        return value if isinstance(value, tuple) else ("raised", norm(stmt.exc)[:30])


class _GuardDomain(DefaultDomain):
    """The wrapper of not_reentrant over one boolean: "the guarded function is marked as running".
    Whatever container keeps the mark (dict of booleans, set of functions, attribute), reads and
    writes keyed by the guarded function are reads and writes of that boolean."""

    def __init__(self, fn_param):
        self.fn = fn_param

    def _flag(self, st):
        return st.get("flag", FALSE)

    def load_attr(self, chain, st, fr):
        if len(chain) == 1 and chain[0] == self.fn:
            return ("the-function",)
        if len(chain) == 1 and not st.has(fr.local(chain[0])):
            # a closure / default-argument container: its only content that matters is the mark
            return ("marks", self._flag(st))
        return None

    def compare(self, op, left, right):
        if isinstance(op, (ast.In, ast.NotIn)) and left == ("the-function",) and isinstance(right, tuple) and right[:1] == ("marks",):
            present = right[1] == TRUE
            return "T" if present == isinstance(op, ast.In) else "F"
        return None

    def subscript(self, base, idx, st, fr):
        if isinstance(base, tuple) and base[:1] == ("marks",) and idx == ("the-function",):
            return base[1]
        return None

    def store_subscript(self, target, value, st, fr, interp):
        if dotted(target.slice) == self.fn:
            t = self.truth(value)
            return st.set("flag", TRUE if t == "T" else FALSE if t == "F" else ("bool",))
        return st

    def delete(self, interp, target, st, fr):
        if isinstance(target, ast.Subscript) and dotted(target.slice) == self.fn:
            return st.set("flag", FALSE)
        return st

    def call(self, interp, call, st, fr):
        d = dotted(call.func)
        if d == self.fn:
            n = min(st.get("ev.calls", 0) + 1, 2)
            s2 = st.set("ev.calls", n).set("ev.flag_at_call", self._flag(st))
            return [val(("the-result",), s2), exc(("user-exception",), s2)]
        if d == "ReentryError":
            return [val(("reentry",), st)]
        if isinstance(call.func, ast.Attribute) and call.args and dotted(call.args[0]) == self.fn:
            m = call.func.attr
            if m == "get":
                return [val(self._flag(st), st)]
            if m == "add":
                return [val(NONE, st.set("flag", TRUE))]
            if m in ("discard", "remove", "pop"):
                return [val(NONE, st.set("flag", FALSE))]
            if m == "setdefault":
                return [val(self._flag(st), st)]
        return [val(TOP, st)]

    def raised_value(self, stmt, value, st, fr):
        return value if isinstance(value, tuple) else ("raised", norm(stmt.exc)[:30])


def check_reentrancy_guard(ctx):
    nr = module_function(ctx, SPINNER, "not_reentrant")
    inner = [n for n in nr.body if isinstance(n, FUNC_TYPES)]
    if len(inner) != 1:
        raise AnalysisError("anchor vanished: not_reentrant no longer defines one inner wrapper")
    dec = inner[0]
    fn_param = nr.args.args[0].arg
    D = f"{SPINNER}:not_reentrant.decorated"
    dom = _GuardDomain(fn_param)

    def go(flag):
        it = Interp(dom, max_depth=3)
        res = it.analyze(dec, {}, State([("flag", flag), ("ev.calls", 0)]), receiver=None, name="decorated")
        ctx.stats["states"] += it.steps
        ctx.analysed(dec)
        return res

    # first entry: the function runs exactly once, marked, and the mark is gone afterwards on every exit
    res = go(FALSE)
    problems = []
    for r in res:
        s_ = r.state
        how = "returns" if r.kind == "val" else f"raises {r.value!r}"
        if r.kind == "exc" and r.value == ("reentry",):
            problems.append("a first call is refused")
            continue
        if s_.get("ev.calls", 0) != 1:
            problems.append(f"the function is called {s_.get('ev.calls', 0)} times on a path that {how}")
        elif s_.get("ev.flag_at_call") != TRUE:
            problems.append("the function runs without being marked as running (a nested call would be admitted)")
        if s_.get("flag") != FALSE:
            problems.append(f"the mark is still set after the call {how}: every later call is refused")
        if r.kind == "val" and r.value != ("the-result",):
            problems.append("the function's result is not returned")
    kinds = {r.kind for r in res}
    if kinds != {"val", "exc"}:
        problems.append("the function's exception does not propagate" if "exc" not in kinds else "no returning path")
    ctx.check("R-REENTRANCY-FLAG", "first entry: marked while the function runs, unmarked after return and after an exception; result / exception passed through", dec,
              not problems, "; ".join(sorted(set(problems))), examined=len(res), construct=f"{D}::first-entry")
    # nested entry: refused, the function is not called, the outer call's mark survives
    res = go(TRUE)
    problems = []
    for r in res:
        s_ = r.state
        if not (r.kind == "exc" and r.value == ("reentry",)):
            problems.append("a nested call is not refused with ReentryError")
        if s_.get("ev.calls", 0) != 0:
            problems.append("the function runs although it is already running")
        if s_.get("flag") != TRUE:
            problems.append("refusing the nested call clears the mark of the call that is still running: the next nested call is admitted")
    ctx.check("R-REENTRANCY-FLAG", "nested entry: ReentryError, function not called, the running call stays marked", dec,
              bool(res) and not problems, "; ".join(sorted(set(problems))) or "no path explored", examined=len(res), construct=f"{D}::nested-entry")
    ret = [r for r in nr.body if isinstance(r, ast.Return)]
    ok = len(ret) == 1 and any(isinstance(n, ast.Name) and n.id == dec.name for n in ast.walk(ret[0]))
    ctx.check("R-REENTRANCY-FLAG", "not_reentrant returns the wrapper", nr, ok, "the decorator does not return its guarding wrapper", construct=f"{SPINNER}:not_reentrant::returns-wrapper")


def check_timeout_wins(ctx):
    spinner = ctx.classes.get(SPINNER, "Spinner")
    dom = _LateResultDomain(ctx.classes)

    def go(name, argvals, st):
        owner, f = ctx.classes.resolve_method(spinner, name)
        if not isinstance(f, FUNC_TYPES):
            raise AnalysisError(f"anchor vanished: Spinner.{name}")
        it = Interp(dom, max_depth=6)
        res = it.analyze(f, argvals, st, receiver=spinner, name=name)
        ctx.stats["states"] += it.steps
        for fn in it.functions:
            ctx.analysed(fn)
        return res

    def keep(st):
        return State([(k, v) for k, v in st.items if k.startswith("self.") or k == "tc"])

    s0 = State([("tc", "called"), ("self._timeout_call", ("obj", "delayedcall")), ("self._success", ("const", "UNSET")), ("self._failure", ("const", "UNSET")), ("self._spinning", TRUE)])
    after_timeout = {keep(r.state) for r in go("_timed_out", {"function": TOP, "timeout": TOP}, s0) if r.kind == "val"}
    ok0 = bool(after_timeout) and all(s.get("self._failure") == ("timeout",) for s in after_timeout)
    to = own_method(ctx, SPINNER, "Spinner", "_timed_out")
    ctx.check("R-TIMEOUT-WINS", "_timed_out leaves a TimeoutError failure in self._failure", to, ok0,
              "after the timeout call has run, self._failure does not hold Failure(TimeoutError(...))", construct=f"{SPINNER}:Spinner._timed_out::stores-timeout")
    for cb in ("_got_success", "_got_failure"):
        f = own_method(ctx, SPINNER, "Spinner", cb)
        param = f.args.args[1].arg
        finals = []
        for s1 in after_timeout:
            for r in go(cb, {param: ("late-result",)}, s1):
                how = "returns" if r.kind == "val" else f"raises {r.value[1] if isinstance(r.value, tuple) and len(r.value) > 1 else r.value}"
                for r2 in go("_get_result", {}, keep(r.state)):
                    finals.append((how, r2))
        bad = [(how, r2) for how, r2 in finals if not (r2.kind == "exc" and r2.value == ("failure-raised", ("timeout",)))]
        msg = ""
        if bad:
            how, r2 = bad[0]
            msg = (f"the timeout fires first (the DelayedCall is no longer active), then {cb} runs with the Deferred's late result and {how}; afterwards "
                   f"_get_result {'returns ' + repr(r2.value) if r2.kind == 'val' else 'raises ' + repr(r2.value)} instead of raising the TimeoutError: "
                   "a Deferred that had not fired when the timeout elapsed decides what Spinner.run reports")
        ctx.check("R-TIMEOUT-WINS", f"timeout, then {cb}(late result): _get_result still raises the TimeoutError", f, bool(finals) and not bad, msg or "no path explored",
                  examined=len(finals), construct=f"{SPINNER}:Spinner.{cb}::late-result")
    # the ordinary order: the Deferred fires while the timeout call is still pending
    s_p = State([("tc", "pending"), ("self._timeout_call", ("obj", "delayedcall")), ("self._success", ("const", "UNSET")), ("self._failure", ("const", "UNSET")), ("self._spinning", TRUE)])
    for cb, want in (("_got_success", ("val", ("result",))), ("_got_failure", ("exc", ("failure-raised", ("result",))))):
        f = own_method(ctx, SPINNER, "Spinner", cb)
        param = f.args.args[1].arg
        outs = go(cb, {param: ("result",)}, s_p)
        finals = []
        ok = bool(outs)
        why = ""
        for r in outs:
            if r.kind != "val":
                ok, why = False, f"{cb} raises {r.value!r} although the timeout call is still pending"
                continue
            if r.state.get("tc") != "cancelled":
                ok, why = False, f"{cb} returns without cancelling the pending timeout call: the timeout would still fire (and crash a later reactor run)"
            for r2 in go("_get_result", {}, keep(r.state)):
                finals.append(r2)
                if (r2.kind, r2.value) != want:
                    ok, why = False, f"after {cb}(result), _get_result {'returns' if r2.kind == 'val' else 'raises'} {r2.value!r} instead of {'returning the result' if want[0] == 'val' else 'raising the failure'}"
        ctx.check("R-CALLBACK-SIBLINGS", f"{cb}(result) while the timeout is pending: cancels it; _get_result then {'returns the result' if want[0] == 'val' else 'raises the failure'}", f, ok and bool(finals), why or "no path explored",
                  examined=len(finals), construct=f"{SPINNER}:Spinner.{cb}::in-time")
    ctx.assume("twisted DelayedCall.cancel() raises AlreadyCalled / AlreadyCancelled unless the call is still pending; active() is true only while pending")


def run(ctx):
    ctx.rule("R-RESTORE-STOP", "reactor.stop is re-installed on every path after it was replaced")
    ctx.rule("R-RESTORE-SIGNALS", "signal handlers saved before and restored on every path out of reactor.run()")
    ctx.rule("R-CLEAN-ALWAYS", "the result is fetched under a finally that cleans the reactor; _clean records all junk")
    ctx.rule("R-STALE-JUNK-FIRST", "the stale-junk refusal dominates every mutation of process state")
    ctx.rule("R-REENTRANCY-FLAG", "not_reentrant sets its flag after the test and clears it on all paths")
    ctx.rule("R-RESULT-3WAY", "_get_result: failure -> raise, success -> return it, neither -> NoResultError")
    ctx.rule("R-CALLBACK-SIBLINGS", "result callbacks cancel the timeout and store into distinct fields; timeout stores TimeoutError and stops")
    ctx.rule("R-RESULT-RESET", "result fields read by _get_result are reset before the reactor is run")
    ctx.rule("R-TIMEOUT-WINS", "once the timeout has fired, a result arriving later cannot replace the TimeoutError")

    spinner = ctx.classes.get(SPINNER, "Spinner")
    run_f = own_method(ctx, SPINNER, "Spinner", "run")
    cfg = cfg_of(ctx, run_f)
    live = live_nodes(cfg)
    Q = f"{SPINNER}:Spinner.run"

    def chk(rule, name, ok, msg, node=None, path=None, construct=None):
        ctx.check(rule, name, node if node is not None else run_f, ok, msg, path=path,
                  construct=construct or f"{Q}::{name}")

    # -- slots ---------------------------------------------------------------------------
    reactor = "self._reactor"
    stop_attr = f"{reactor}.stop"
    saved_names = set()
    install_nodes, restore_nodes = [], []
    for n in cfg.nodes:
        if n.id not in live or n.kind != "stmt":
            continue
        pairs = assign_pairs(n.ast)
        for t, v in pairs:
            if dotted(v) == stop_attr and isinstance(t, ast.Name):
                saved_names.add(t.id)
    for n in cfg.nodes:
        if n.id not in live or n.kind != "stmt":
            continue
        for t, v in assign_pairs(n.ast):
            if dotted(t) == stop_attr:
                if isinstance(v, ast.Name) and v.id in saved_names:
                    restore_nodes.append(n.id)
                else:
                    install_nodes.append(n.id)
    run_nodes = nodes_calling(cfg, lambda c: dotted(c.func) == f"{reactor}.run", live)
    save_nodes = nodes_calling(cfg, lambda c: dotted(c.func) == "self._save_signals", live)
    restore_sig_nodes = nodes_calling(cfg, lambda c: dotted(c.func) == "self._restore_signals", live)
    getres_nodes = nodes_calling(cfg, lambda c: dotted(c.func) == "self._get_result", live)
    clean_nodes = nodes_calling(cfg, lambda c: dotted(c.func) == "self._clean", live)
    later_nodes = nodes_calling(cfg, lambda c: dotted(c.func) == f"{reactor}.callLater", live)
    when_nodes = nodes_calling(cfg, lambda c: dotted(c.func) == f"{reactor}.callWhenRunning", live)
    if len(run_nodes) != 1:
        raise AnalysisError(f"anchor vanished: expected one {reactor}.run() call in Spinner.run, found {len(run_nodes)}")

    # -- R-RESTORE-STOP --------------------------------------------------------------------
    chk("R-RESTORE-STOP", "stop replaced exactly once", len(install_nodes) == 1,
        f"expected one statement installing a replacement for {stop_attr}, found {len(install_nodes)}")
    if install_nodes:
        inst = install_nodes[0]
        esc = cfg.escape_path(cfg.after(inst), set(restore_nodes))
        chk("R-RESTORE-STOP", "restored on every path", bool(restore_nodes) and esc is None,
            f"a path from the replacement of {stop_attr} to an exit never re-installs the saved value",
            node=cfg.nodes[inst].ast, path=cfg.describe_path(esc) if esc else None)
        chk("R-RESTORE-STOP", "replacement precedes reactor.run", cfg.dominated_by(run_nodes[0], {inst}),
            "reactor.run() reachable with the real reactor.stop still installed (a signal would stop the reactor for good)")
        # the saved value is read in the same statement or before the install
        ok_saved = bool(saved_names)
        chk("R-RESTORE-STOP", "original saved", ok_saved, f"the original {stop_attr} is never saved to a local")
        # replacement is self._fake_stop, which crashes instead of stopping
        repl = [v for t, v in assign_pairs(cfg.nodes[inst].ast) if dotted(t) == stop_attr]
        fake = own_method(ctx, SPINNER, "Spinner", "_fake_stop", required=False)
        ok_fake = bool(repl) and dotted(repl[0]) == "self._fake_stop" and fake is not None and any(
            dotted(c.func) == f"{reactor}.crash" for c in walk_shallow(fake) if isinstance(c, ast.Call))
        chk("R-RESTORE-STOP", "replacement crashes instead of stopping", ok_fake,
            "the replacement for reactor.stop is not a method that calls reactor.crash()")

    # -- R-RESTORE-SIGNALS -------------------------------------------------------------------
    esc = cfg.escape_path(cfg.after(run_nodes[0], exclude=()), set(restore_sig_nodes))
    chk("R-RESTORE-SIGNALS", "restored on every path out of reactor.run()", bool(restore_sig_nodes) and esc is None,
        "a path leaves reactor.run() (normally or by exception) without _restore_signals()",
        path=cfg.describe_path(esc) if esc else None)
    chk("R-RESTORE-SIGNALS", "saved before reactor.run()", bool(save_nodes) and cfg.dominated_by(run_nodes[0], set(save_nodes)),
        "reactor.run() reachable without _save_signals()")
    if save_nodes and restore_sig_nodes:
        chk("R-RESTORE-SIGNALS", "restore only after save", all(cfg.dominated_by(r, set(save_nodes)) for r in restore_sig_nodes),
            "_restore_signals() reachable before _save_signals()")
    save_f = own_method(ctx, SPINNER, "Spinner", "_save_signals")
    rest_f = own_method(ctx, SPINNER, "Spinner", "_restore_signals")
    ctx.analysed(save_f)
    ctx.analysed(rest_f)
    preserved = spinner.attrs.get("_PRESERVED_SIGNALS")
    names = []
    if isinstance(preserved, (ast.List, ast.Tuple, ast.Set)):
        names = [e.value for e in preserved.elts if isinstance(e, ast.Constant)]
    need = {"SIGINT", "SIGTERM", "SIGCHLD"}
    ctx.check("R-RESTORE-SIGNALS", "preserved signal table covers SIGINT/SIGTERM/SIGCHLD", preserved if preserved is not None else spinner.node,
              need <= set(names), f"_PRESERVED_SIGNALS = {names} misses {sorted(need - set(names))}",
              construct=f"{SPINNER}:Spinner::_PRESERVED_SIGNALS")
    # save: iterates the table, records (sig, getsignal(sig)) for every available signal
    iter_table = any(
        isinstance(n, ast.comprehension) and dotted(n.iter) == "self._PRESERVED_SIGNALS"
        or isinstance(n, ast.For) and dotted(n.iter) == "self._PRESERVED_SIGNALS"
        for n in ast.walk(save_f))
    getsig = [c for c in ast.walk(save_f) if isinstance(c, ast.Call) and dotted(c.func) == "signal.getsignal"]
    stores = [n for n in ast.walk(save_f) if isinstance(n, ast.Assign) and any(dotted(t) == "self._saved_signals" for t in n.targets)]
    pair_ok = False
    for s in stores:
        for n in ast.walk(s.value):
            if isinstance(n, ast.Tuple) and len(n.elts) == 2 and isinstance(n.elts[1], ast.Call) and dotted(n.elts[1].func) == "signal.getsignal":
                a0 = n.elts[1].args[0] if n.elts[1].args else None
                if norm(a0) == norm(n.elts[0]):
                    pair_ok = True
    ctx.check("R-RESTORE-SIGNALS", "_save_signals records (sig, getsignal(sig)) for every preserved name", save_f,
              iter_table and bool(getsig) and pair_ok,
              "_save_signals does not iterate _PRESERVED_SIGNALS storing (sig, signal.getsignal(sig)) pairs",
              construct=f"{SPINNER}:Spinner._save_signals::pairs")
    # restore: loop over self._saved_signals calling signal.signal(sig, hdlr) with the pair in order
    rest_ok = False
    early_exit = False
    for n in ast.walk(rest_f):
        if isinstance(n, ast.For) and dotted(n.iter) == "self._saved_signals" and isinstance(n.target, ast.Tuple) and len(n.target.elts) == 2:
            a, b = (norm(e) for e in n.target.elts)
            for c in ast.walk(n):
                if isinstance(c, ast.Call) and dotted(c.func) == "signal.signal" and len(c.args) == 2:
                    if norm(c.args[0]) == a and norm(c.args[1]) == b:
                        rest_ok = True
            for c in ast.walk(n):
                if isinstance(c, (ast.Break, ast.Return, ast.Continue)):
                    early_exit = True
    ctx.check("R-RESTORE-SIGNALS", "_restore_signals re-installs every saved pair", rest_f, rest_ok and not early_exit,
              "_restore_signals does not call signal.signal(sig, handler) for every saved pair",
              construct=f"{SPINNER}:Spinner._restore_signals::loop")

    # -- R-CLEAN-ALWAYS -----------------------------------------------------------------------
    chk("R-CLEAN-ALWAYS", "result fetched once", len(getres_nodes) == 1, f"expected one self._get_result() call, found {len(getres_nodes)}")
    if getres_nodes:
        esc = cfg.escape_path(cfg.after(getres_nodes[0], exclude=()), set(clean_nodes))
        chk("R-CLEAN-ALWAYS", "cleaned on every path out of the result fetch", bool(clean_nodes) and esc is None,
            "a path leaves _get_result() (return or raise) without _clean()", path=cfg.describe_path(esc) if esc else None)
        chk("R-CLEAN-ALWAYS", "result fetched after the reactor ran", cfg.dominated_by(getres_nodes[0], set(run_nodes)),
            "_get_result() reachable without reactor.run()")
        # every return of run() returns the value of _get_result()
        rets = [n for n in cfg.nodes if n.id in live and n.kind == "return"]
        ok = bool(rets) and all(isinstance(r.ast.value, ast.Call) and dotted(r.ast.value.func) == "self._get_result" for r in rets)
        implicit = [a for a, k in cfg.pred[cfg.exit_return] if a in live and cfg.nodes[a].kind not in ("return", "with_exit") and not cfg.nodes[a].clone]
        chk("R-CLEAN-ALWAYS", "run() returns the function's own result", ok and not implicit,
            "run() has a return that is not the value of _get_result() (or can fall off the end)")
    clean_f = own_method(ctx, SPINNER, "Spinner", "_clean")
    ctx.analysed(clean_f)
    loops = {}
    for n in walk_shallow(clean_f, include_self=False):
        if isinstance(n, ast.For) and isinstance(n.iter, ast.Call):
            loops[dotted(n.iter.func)] = n
    junk_lists = set()
    for key, must_cancel in ((f"{reactor}.getDelayedCalls", True), (f"{reactor}.removeAll", False)):
        loop = loops.get(key)
        ok = False
        msg = f"_clean has no loop over {key}()"
        if loop is not None and isinstance(loop.target, ast.Name):
            var = loop.target.id
            cancels = [c for c in walk_shallow(loop) if isinstance(c, ast.Call) and dotted(c.func) == f"{var}.cancel"]
            appends = [c for c in walk_shallow(loop) if isinstance(c, ast.Call) and isinstance(c.func, ast.Attribute) and c.func.attr == "append" and c.args and dotted(c.args[0]) == var]
            jumps = [c for c in walk_shallow(loop) if isinstance(c, (ast.Break, ast.Continue, ast.Return))]
            conditional = [c for c in loop.body if isinstance(c, (ast.If, ast.Try, ast.While))]
            ok = bool(appends) and (bool(cancels) or not must_cancel) and not jumps and not conditional
            for a in appends:
                junk_lists.add(dotted(a.func.value))
            msg = f"loop over {key}() does not {'cancel and ' if must_cancel else ''}record every element unconditionally"
        ctx.check("R-CLEAN-ALWAYS", f"_clean handles every element of {key.split('.')[-1]}()", loop if loop is not None else clean_f, ok, msg,
                  construct=f"{SPINNER}:Spinner._clean::{key}")
    ext = [c for c in walk_shallow(clean_f, include_self=False) if isinstance(c, ast.Call) and dotted(c.func) == "self._junk.extend" and c.args and dotted(c.args[0]) in junk_lists]
    ccfg = cfg_of(ctx, clean_f)
    ext_nodes = nodes_calling(ccfg, lambda c: dotted(c.func) == "self._junk.extend")
    esc = ccfg.escape_path([ccfg.entry], set(ext_nodes), targets=[ccfg.exit_return])
    ctx.check("R-CLEAN-ALWAYS", "_clean remembers the junk it found", clean_f, bool(ext) and esc is None,
              "_clean can return without adding what it found to self._junk (the next run would not refuse)",
              construct=f"{SPINNER}:Spinner._clean::remember")

    # -- R-STALE-JUNK-FIRST ----------------------------------------------------------------------
    raise_nodes = [n.id for n in cfg.nodes if n.id in live and n.kind == "raise" and isinstance(n.ast, ast.Raise) and n.ast.exc is not None
                   and "StaleJunkError" in norm(n.ast.exc)]
    chk("R-STALE-JUNK-FIRST", "refusal present", len(raise_nodes) == 1, "run() no longer raises StaleJunkError")
    if raise_nodes:
        rn = cfg.nodes[raise_nodes[0]].ast
        guard = getattr(rn, "_parent", None)
        guard_ok = isinstance(guard, ast.If) and rn in guard.body
        junk_sources = set()
        for n in walk_shallow(run_f, include_self=False):
            if isinstance(n, ast.Assign) and (
                (isinstance(n.value, ast.Call) and dotted(n.value.func) == "self.get_junk") or dotted(n.value) == "self._junk"):
                for t in n.targets:
                    if isinstance(t, ast.Name):
                        junk_sources.add(t.id)
        cond_ok = guard_ok and (
            (isinstance(guard.test, ast.Name) and guard.test.id in junk_sources)
            or norm(guard.test) in ("self._junk", "self.get_junk()"))
        chk("R-STALE-JUNK-FIRST", "refusal tests the recorded junk", bool(cond_ok),
            "the StaleJunkError guard does not test the junk recorded by the previous run", node=guard if guard_ok else rn)
        if guard_ok:
            gnodes = set(cfg.nodes_for(guard.test)) | {n.id for n in cfg.nodes if n.ast is guard and n.kind == "test"}
            for label, targets in (("signal save", save_nodes), ("timeout call", later_nodes),
                                   ("stop replacement", install_nodes), ("reactor.run", run_nodes),
                                   ("callWhenRunning", when_nodes)):
                ok = bool(targets) and all(cfg.dominated_by(t, gnodes) for t in targets)
                chk("R-STALE-JUNK-FIRST", f"junk check dominates {label}", ok,
                    f"{label} is reachable without passing the stale-junk check")
    # -- R-RESULT-RESET ---------------------------------------------------------------------------
    getres = own_method(ctx, SPINNER, "Spinner", "_get_result")
    fields = sorted({ch[1] for n in ast.walk(getres) if isinstance(n, ast.Attribute) and (ch := attr_chain(n)) and ch[0] == "self" and len(ch) == 2 and ch[1] not in ("_UNSET",) and isinstance(n.ctx, ast.Load) and not isinstance(getattr(n, "_parent", None), ast.Call)})
    # keep only data fields (assigned in __init__ from the sentinel)
    init = own_method(ctx, SPINNER, "Spinner", "__init__")
    sentinel_fields = {dotted(t).split(".")[1] for n in ast.walk(init) if isinstance(n, ast.Assign) and dotted(n.value) == "self._UNSET" for t in n.targets if dotted(t)}
    for fld in sorted(sentinel_fields):
        resets = [n.id for n in cfg.nodes if n.id in live and n.kind == "stmt" and any(
            dotted(t) == f"self.{fld}" and dotted(v) == "self._UNSET" for t, v in assign_pairs(n.ast))]
        ok = bool(resets) and cfg.dominated_by(run_nodes[0], set(resets))
        ctx.check("R-RESULT-RESET", f"Spinner.run resets self.{fld} before spinning", run_f, ok,
                  f"self.{fld} still holds the previous run's value when the reactor is started: a reused Spinner returns / re-raises a stale result",
                  construct=f"{Q}::reset {fld}")
    ctx.floor("R-RESULT-RESET", 2, "result fields")

    # -- R-RESULT-3WAY -----------------------------------------------------------------------------
    gcfg = cfg_of(ctx, getres)
    glive = live_nodes(gcfg)
    rets = [n for n in gcfg.nodes if n.id in glive and n.kind == "return"]
    ok_rets = bool(rets) and all(dotted(r.ast.value) == "self._success" for r in rets)
    ctx.check("R-RESULT-3WAY", "_get_result returns only the stored success value", getres, ok_rets,
              "_get_result has a return that is not self._success", construct=f"{SPINNER}:Spinner._get_result::returns")
    implicit = [a for a, k in gcfg.pred[gcfg.exit_return] if a in glive and gcfg.nodes[a].kind != "return"]
    ctx.check("R-RESULT-3WAY", "_get_result never falls off the end", getres, not implicit,
              "a path through _get_result returns None implicitly instead of raising NoResultError",
              path=[gcfg.nodes[a].describe() for a in implicit] or None, construct=f"{SPINNER}:Spinner._get_result::no-implicit-return")
    raises = [n for n in gcfg.nodes if n.id in glive and n.kind == "raise" and isinstance(n.ast, ast.Raise) and n.ast.exc is not None and "NoResultError" in norm(n.ast.exc)]
    ctx.check("R-RESULT-3WAY", "neither -> NoResultError", getres, len(raises) == 1, "_get_result no longer raises NoResultError when there is no result",
              construct=f"{SPINNER}:Spinner._get_result::noresult")
    rex = nodes_calling(gcfg, lambda c: dotted(c.func) == "self._failure.raiseException", glive)
    guard_ok = False
    ret_guard_ok = False
    for n in gcfg.nodes:
        if n.id in glive and n.kind == "test":
            t = norm(n.ast.test)
            if t == "self._failure is not self._UNSET" and any(b in rex for b, k in gcfg.succ[n.id] if k == "true"):
                guard_ok = True
            if t == "self._success is not self._UNSET" and any(gcfg.nodes[b].kind == "return" for b, k in gcfg.succ[n.id] if k == "true"):
                ret_guard_ok = True
    ctx.check("R-RESULT-3WAY", "failure -> raise it (guarded by the sentinel test)", getres, bool(rex) and guard_ok,
              "the stored failure is not raised exactly when it differs from the sentinel", construct=f"{SPINNER}:Spinner._get_result::failure-arm")
    ctx.check("R-RESULT-3WAY", "success -> return it (guarded by the sentinel test)", getres, ret_guard_ok,
              "the stored success is not returned exactly when it differs from the sentinel", construct=f"{SPINNER}:Spinner._get_result::success-arm")
    if raises and rets:
        # the NoResultError raise is only reachable when both tests failed
        ok = not any(raises[0].id in gcfg.reach(gcfg.after(r.id)) for r in rets)
        ctx.check("R-RESULT-3WAY", "arms are exclusive", getres, ok, "NoResultError reachable after returning", construct=f"{SPINNER}:Spinner._get_result::exclusive")

    # -- R-CALLBACK-SIBLINGS ---------------------------------------------------------------------------
    stored = {}
    for name, fld in (("_got_success", "_success"), ("_got_failure", "_failure")):
        f = own_method(ctx, SPINNER, "Spinner", name)
        ctx.analysed(f)
        param = f.args.args[1].arg if len(f.args.args) > 1 else None
        cancels = [c for c in walk_shallow(f) if isinstance(c, ast.Call) and dotted(c.func) == "self._cancel_timeout"]
        st = [n for n in walk_shallow(f) if isinstance(n, ast.Assign) and any(dotted(t) == f"self.{fld}" for t in n.targets) and dotted(n.value) == param]
        others = [n for n in walk_shallow(f) if isinstance(n, ast.Assign) and any((dotted(t) or "").startswith("self._") and dotted(t) not in (f"self.{fld}",) and dotted(t) in ("self._success", "self._failure") for t in n.targets)]
        stored[name] = fld
        # (what the callbacks do is decided on their abstract run, see check_timeout_wins)
    to = own_method(ctx, SPINNER, "Spinner", "_timed_out")
    ctx.analysed(to)
    fail_store = [n for n in walk_shallow(to) if isinstance(n, ast.Assign) and any(dotted(t) == "self._failure" for t in n.targets)]
    mentions_timeout = any("TimeoutError" in norm(n) for n in walk_shallow(to))
    stops = [c for c in walk_shallow(to) if isinstance(c, ast.Call) and dotted(c.func) == "self._stop_reactor"]
    wraps_failure = any(isinstance(n.value, ast.Call) and dotted(n.value.func) == "Failure" for n in fail_store)
    ctx.check("R-CALLBACK-SIBLINGS", "_timed_out stores a TimeoutError failure and stops the reactor", to,
              len(fail_store) == 1 and wraps_failure and mentions_timeout and bool(stops),
              "_timed_out must set self._failure = Failure(TimeoutError(...)) and call _stop_reactor()",
              construct=f"{SPINNER}:Spinner._timed_out::shape")
    sr = own_method(ctx, SPINNER, "Spinner", "_stop_reactor")
    crash = [c for c in walk_shallow(sr) if isinstance(c, ast.Call) and dotted(c.func) == f"{reactor}.crash"]
    ctx.check("R-CALLBACK-SIBLINGS", "_stop_reactor crashes the reactor", sr, bool(crash), "_stop_reactor no longer calls reactor.crash()",
              construct=f"{SPINNER}:Spinner._stop_reactor::crash")
    # the timeout call uses the timeout parameter and _timed_out
    tparam = run_f.args.args[1].arg
    fparam = run_f.args.args[2].arg
    ok = False
    for nid in later_nodes:
        for c in node_calls(cfg.nodes[nid]):
            if dotted(c.func) == f"{reactor}.callLater" and len(c.args) >= 2 and dotted(c.args[0]) == tparam and dotted(c.args[1]) == "self._timed_out":
                # stored so that the callbacks can cancel it
                st = cfg.nodes[nid].ast
                if isinstance(st, ast.Assign) and any(dotted(t) == "self._timeout_call" for t in st.targets):
                    ok = True
    chk("R-CALLBACK-SIBLINGS", "timeout scheduled with the timeout parameter and kept for cancellation", ok,
        f"expected self._timeout_call = {reactor}.callLater({tparam}, self._timed_out, ...)")
    # run_function: maybeDeferred(function, *args, **kwargs); addCallbacks(success, failure); addBoth(stop)
    inner = [n for n in run_f.body if False]
    inner = [n for n in ast.walk(run_f) if isinstance(n, FUNC_TYPES) and n is not run_f]
    scheduled = set()
    for nid in when_nodes:
        for c in node_calls(cfg.nodes[nid]):
            if dotted(c.func) == f"{reactor}.callWhenRunning" and c.args:
                scheduled.add(dotted(c.args[0]))
    rf = [f for f in inner if f.name in scheduled]
    ok = False
    msg = "the function scheduled with callWhenRunning was not found"
    if len(rf) == 1:
        f = rf[0]
        ctx.analysed(f)
        md = [n for n in walk_shallow(f, include_self=False) if isinstance(n, ast.Assign) and isinstance(n.value, ast.Call) and dotted(n.value.func) == "defer.maybeDeferred"]
        ok_md = False
        dname = None
        if len(md) == 1 and isinstance(md[0].targets[0], ast.Name):
            dname = md[0].targets[0].id
            c = md[0].value
            va = run_f.args.vararg.arg if run_f.args.vararg else None
            kw = run_f.args.kwarg.arg if run_f.args.kwarg else None
            ok_md = (c.args and dotted(c.args[0]) == fparam
                     and any(isinstance(a, ast.Starred) and dotted(a.value) == va for a in c.args)
                     and any(k.arg is None and dotted(k.value) == kw for k in c.keywords))
        seq = [c for s in f.body for c in walk_shallow(s) if isinstance(c, ast.Call) and dname and (dotted(c.func) or "").startswith(dname + ".")]
        names_ = [dotted(c.func).split(".", 1)[1] for c in seq]
        ok_cb = False
        if names_[:2] == ["addCallbacks", "addBoth"]:
            cb, both = seq[0], seq[1]
            ok_cb = (len(cb.args) == 2 and dotted(cb.args[0]) == "self._got_success" and dotted(cb.args[1]) == "self._got_failure"
                     and len(both.args) == 1 and dotted(both.args[0]) == "self._stop_reactor")
        ok = ok_md and ok_cb and len(seq) == 2
        msg = ("run_function must be: d = defer.maybeDeferred(function, *args, **kwargs); "
               "d.addCallbacks(self._got_success, self._got_failure); d.addBoth(self._stop_reactor)")
    chk("R-CALLBACK-SIBLINGS", "function's Deferred gets both result callbacks and then the reactor stop", ok, msg)
    # _spinning is set before reactor.run() so that _stop_reactor acts
    spin_nodes = [n.id for n in cfg.nodes if n.id in live and n.kind == "stmt" and any(dotted(t) == "self._spinning" and isinstance(v, ast.Constant) and v.value is True for t, v in assign_pairs(n.ast))]
    chk("R-CALLBACK-SIBLINGS", "spinning flag set before reactor.run()", bool(spin_nodes) and cfg.dominated_by(run_nodes[0], set(spin_nodes)),
        "reactor.run() reachable with self._spinning unset: _stop_reactor would not stop the reactor")
    chk("R-CALLBACK-SIBLINGS", "function scheduled before reactor.run()", bool(when_nodes) and cfg.dominated_by(run_nodes[0], set(when_nodes)),
        "reactor.run() reachable without the function having been scheduled")

    # -- R-REENTRANCY-FLAG ---------------------------------------------------------------------------
    check_reentrancy_guard(ctx)
    decos = [dotted(d) for d in run_f.decorator_list]
    ctx.check("R-REENTRANCY-FLAG", "Spinner.run is decorated with not_reentrant", run_f, "not_reentrant" in decos,
              "Spinner.run lost its @not_reentrant decorator", construct=f"{Q}::decorator")
    ctx.assume("reactor.crash() stops a running reactor; signal.signal/getsignal behave as documented")
    ctx.assume("attribute stores on self._reactor do not raise")
    check_timeout_wins(ctx)
