"""C15 -- Spinner returns the function's own result and restores the process.

Spinner.run is interpreted abstractly against a modelled reactor (rules/spinnermodel.py): one run per kind of
user function (returns / raises / returns a Deferred that fired, failed or is pending) and per *script* of reactor
events (the Deferred fires or fails, the timeout call runs, a signal handler calls reactor.stop -- also two of
them in the same reactor iteration, in both orders).  Every rule is read off the ordered call log, the outcome
and the final state of those runs; not_reentrant is interpreted over the one boolean it guards.  Wall-clock
timing and what a real reactor holds are not decided.
"""

import ast

from .. import effects
from ..absint import FALSE, NONE, TOP, TRUE, Frame, Interp, State, exc, unbox_deep, val
from ..objects import ObjectDomain
from ..astutil import FUNC_TYPES, dotted, norm
from ..loader import AnalysisError
from .common import SPINNER, module_function, own_method
from . import spinnermodel as sm

EXPLANATION = (
    "Abstract runs of testtools.twistedsupport._spinner.Spinner.run against a modelled reactor (effect log + "
    "Twisted's Deferred chains as abstract values), for every kind of user function (returns, raises, returns a "
    "Deferred that has fired / failed / is pending) and every script of reactor events (Deferred fires or fails, "
    "timeout call runs, reactor.stop is called by a signal handler; pairs of them within one reactor iteration in "
    "both orders), on a spinner that was used before. R-RESULT-3WAY: run() returns the function's value / its "
    "Deferred's result, raises its exception / its Deferred's failure, raises TimeoutError(function, timeout) when "
    "only the timeout fired and NoResultError when the reactor was stopped first; the function is called once with "
    "the given arguments and the reactor never spins for ever. R-TIMEOUT-WINS / R-CALLBACK-SIBLINGS: a result "
    "arriving in the same iteration after the timeout does not replace the TimeoutError; a result arriving first "
    "cancels the timeout call. R-RESULT-RESET: results of a previous run never show. R-RESTORE-STOP: reactor.stop "
    "is the crash substitute while spinning (the real stop is never called) and the original afterwards. "
    "R-RESTORE-SIGNALS: every available preserved signal (table covers SIGINT/SIGTERM/SIGCHLD) is saved before "
    "and re-installed with its own handler after reactor.run() on every path, none when the platform lacks it. "
    "R-CLEAN-ALWAYS: after run() returned or raised, every leftover delayed call was cancelled, selectables "
    "removed, and all of them are remembered as junk. R-STALE-JUNK-FIRST: with uncleared junk run() raises "
    "StaleJunkError(junk) before touching reactor, signals or results. R-REENTRANCY-FLAG: not_reentrant marks the "
    "function while it runs, unmarks on return and on any exception, refuses nested entry without clearing the "
    "mark. Wall-clock timing and real reactor state are not decided."
)


GUARDED = ("userfn", "guarded")
THE_RESULT = ("sym", "the-result")
GUARD_EXC = ("exc", "UserError")
GA, GK = ("sym", "arg-1"), ("sym", "kw-1")


def _is_reentry(v):
    return isinstance(v, tuple) and ((v[:1] == ("new",) and v[1] == "ReentryError") or v == ("exc", "ReentryError"))


class _GuardDomain(ObjectDomain):
    """not_reentrant run as written: the decorator is applied to a user function whose behaviour per invocation is
    scripted -- "value" returns, "raise" raises, "reenter" calls the wrapper again from inside and lets whatever that
    does propagate, "reenter-twice" swallows a first ReentryError and calls the wrapper once more.  Whatever keeps the
    mark (a dict shared through a default argument, a set, a closure variable, an object) is interpreted, not assumed."""

    def __init__(self, classes, script):
        super().__init__(classes, ctors={"ReentryError"}, oracle=self._oracle, log_cap=40, track=lambda d: d.split(".")[-1] == "mergeFunctionMetadata")
        self.script = script

    @staticmethod
    def _oracle(n, pos, kw):
        if n.split(".")[-1] == "mergeFunctionMetadata" and len(pos) == 2:
            return [("val", pos[1])]   # twisted.python.util.mergeFunctionMetadata(f, g) returns g carrying f's metadata
        return None

    def apply(self, interp, fn, pos, kw, st, fr):
        if fn != GUARDED:
            return super().apply(interp, fn, pos, kw, st, fr)
        n = st.get("ev.fn_calls", 0)
        pos, kw = [unbox_deep(v, st) for v in pos], [(k, unbox_deep(v, st)) for k, v in kw]
        st = st.set("ev.fn_calls", n + 1).set("ev.fn_args", st.get("ev.fn_args", ()) + ((tuple(pos), tuple(kw)),))
        mode = self.script[min(n, len(self.script) - 1)]
        if mode == "value":
            return [val(THE_RESULT, st)]
        if mode == "raise":
            return [exc(GUARD_EXC, st)]
        wrapper = st.get("ev.wrapper")
        out = []
        for r in super().apply(interp, wrapper, [GA], [("k", GK)], st, fr):
            refused = r.kind == "exc" and _is_reentry(r.value)
            s2 = r.state.set("ev.nested", r.state.get("ev.nested", ()) + ("refused" if refused else "admitted" if r.kind == "val" else f"raised {r.value!r}",))
            if mode == "reenter" or not refused:
                out.append(exc(r.value, s2) if r.kind == "exc" else val(("sym", "nested-result"), s2))
                continue
            for r2 in super().apply(interp, wrapper, [GA], [("k", GK)], s2, fr):
                refused2 = r2.kind == "exc" and _is_reentry(r2.value)
                s3 = r2.state.set("ev.nested", r2.state.get("ev.nested", ()) + ("refused" if refused2 else "admitted" if r2.kind == "val" else f"raised {r2.value!r}",))
                out.append(exc(r2.value, s3) if r2.kind == "exc" else val(("sym", "nested-result"), s3))
        return out


def _guard_runs(ctx, nr, script, calls):
    """Decorate the scripted user function, then call the wrapper ``calls`` times in a row; -> list of (outcomes, state)
    where outcomes is one ("val"|"exc", value) per call."""
    dom = _GuardDomain(ctx.classes, script)
    dom.root_class = None
    it = Interp(dom, max_depth=8)
    it.round_cache = {}
    holder = ast.parse("def _driver():\n    pass").body[0]
    holder._module = nr._module
    holder._parent = nr._module.tree
    holder._class = None
    fr = Frame(holder, 0, None, name="<driver>", is_method=False)
    fn_param = nr.args.args[0].arg
    runs = []
    for r in it.inline(nr, {fn_param: GUARDED}, State(), fr, is_method=False):
        if r.kind != "val" or not (isinstance(r.value, tuple) and r.value[:1] == ("func",)):
            raise AnalysisError("anchor vanished: not_reentrant(function) does not evaluate to a wrapper function")
        runs.append(((), r.state.set("ev.wrapper", r.value)))
    for _ in range(calls):
        nxt = []
        for outcomes, s_ in runs:
            for r in dom.apply(it, s_.get("ev.wrapper"), [GA], [("k", GK)], s_, fr):
                nxt.append((outcomes + ((r.kind, unbox_deep(r.value, r.state)),), r.state))
        runs = nxt
    ctx.stats["states"] += it.steps
    for f_ in it.functions:
        ctx.analysed(f_)
    return runs


def check_reentrancy_guard(ctx):
    nr = module_function(ctx, SPINNER, "not_reentrant")
    D = f"{SPINNER}:not_reentrant.decorated"
    args_ok = (((GA,), (("k", GK),)))

    def describe(o):
        return "returns " + repr(o[1]) if o[0] == "val" else "raises " + repr(o[1])

    # first entry: the function runs once with the caller's arguments, its result / exception comes back, and a later call is admitted again
    for mode, want in (("value", ("val", THE_RESULT)), ("raise", ("exc", GUARD_EXC))):
        runs = _guard_runs(ctx, nr, [mode, "value"], 2)
        problems = []
        for outcomes, s_ in runs:
            if _is_reentry(outcomes[0][1]) and outcomes[0][0] == "exc":
                problems.append("a first call is refused")
                continue
            if outcomes[0] != want:
                problems.append(f"the call {describe(outcomes[0])} when the function {describe(want)}")
            if s_.get("ev.fn_args", ((),))[0] != args_ok:
                problems.append(f"the function is called with {s_.get('ev.fn_args', ((),))[0]!r} instead of the caller's arguments")
            if outcomes[1] != ("val", THE_RESULT) or s_.get("ev.fn_calls", 0) != 2:
                problems.append(f"after a call in which the function {describe(want)} the next call {describe(outcomes[1])} (the function ran {s_.get('ev.fn_calls', 0)} times in all): the mark is still set")
        ctx.check("R-REENTRANCY-FLAG", f"first entry, the function {describe(want)}: called once with the given arguments, outcome passed through, the next call is admitted", nr,
                  bool(runs) and not problems, "; ".join(sorted(set(problems))) or "no path explored", examined=len(runs), construct=f"{D}::first-entry-{mode}")
    # nested entry: refused with ReentryError, the function does not run again, the running call stays marked, and afterwards the next call is admitted
    for mode, nested in (("reenter", ("refused",)), ("reenter-twice", ("refused", "refused"))):
        runs = _guard_runs(ctx, nr, [mode, "value"], 2)
        problems = []
        for outcomes, s_ in runs:
            got = s_.get("ev.nested", ())
            if got[:1] != ("refused",):
                problems.append(f"a call from inside the running function is not refused with ReentryError ({got[:1]})")
            elif got != nested:
                problems.append("refusing a nested call clears the mark of the call that is still running: the next nested call is admitted")
            elif not (outcomes[0][0] == "exc" and _is_reentry(outcomes[0][1])):
                problems.append(f"the ReentryError of the nested call does not propagate out of the function: the outer call {describe(outcomes[0])}")
            elif outcomes[1] != ("val", THE_RESULT) or s_.get("ev.fn_calls", 0) != 2:
                problems.append(f"after the refused nested call the next ordinary call {describe(outcomes[1])}")
            rexc = [o[1] for o in outcomes if o[0] == "exc" and _is_reentry(o[1])]
            if any(isinstance(v, tuple) and v[:1] == ("new",) and v[2] != (GUARDED,) for v in rexc):
                problems.append("ReentryError does not name the guarded function")
        ctx.check("R-REENTRANCY-FLAG", "nested entry: ReentryError(function), function not run again, the running call stays marked" + (" after a refused nested call" if mode == "reenter-twice" else ""), nr,
                  bool(runs) and not problems, "; ".join(sorted(set(problems))) or "no path explored", examined=len(runs), construct=f"{D}::nested-entry" + ("-twice" if mode == "reenter-twice" else ""))


# scenario: (rule, user function kind, script of reactor iterations, expected outcome, description)
def _timeout_error(kind):
    return ("exc-value", ("new", "TimeoutError", (sm.userfn(kind), sm.TIMEOUT), ()))


SCENARIOS = [
    ("R-RESULT-3WAY", "value", [["start"]], ("val", sm.USER_VALUE), "the function returns a value"),
    ("R-RESULT-3WAY", "raise", [["start"]], ("exc", sm.USER_EXC), "the function raises"),
    ("R-RESULT-3WAY", "fired-ok", [["start"]], ("val", sm.USER_VALUE), "the function returns a Deferred that has fired"),
    ("R-RESULT-3WAY", "fired-fail", [["start"]], ("exc", sm.USER_EXC), "the function returns a Deferred that has failed"),
    ("R-RESULT-3WAY", "pending", [["start"], ["fire-ok"]], ("val", sm.USER_VALUE), "the Deferred fires before the timeout"),
    ("R-RESULT-3WAY", "pending", [["start"], ["fire-fail"]], ("exc", sm.USER_EXC), "the Deferred fails before the timeout"),
    ("R-RESULT-3WAY", "pending", [["start"], ["timeout"]], "timeout", "the Deferred has not fired when the timeout elapses"),
    ("R-RESULT-3WAY", "pending", [["start"], ["stop"]], ("exc", ("exc", "NoResultError")), "reactor.stop is requested (SIGINT) before the Deferred fires"),
    ("R-TIMEOUT-WINS", "pending", [["start"], ["timeout", "fire-ok"]], "timeout", "the timeout fires, then the Deferred fires in the same reactor iteration"),
    ("R-TIMEOUT-WINS", "pending", [["start"], ["timeout", "fire-fail"]], "timeout", "the timeout fires, then the Deferred fails in the same reactor iteration"),
    ("R-CALLBACK-SIBLINGS", "pending", [["start"], ["fire-ok", "timeout"]], ("val", sm.USER_VALUE), "the Deferred fires, then the timeout is due in the same reactor iteration"),
    ("R-CALLBACK-SIBLINGS", "pending", [["start"], ["fire-fail", "timeout"]], ("exc", sm.USER_EXC), "the Deferred fails, then the timeout is due in the same reactor iteration"),
    ("R-RESTORE-STOP", "pending", [["start"], ["raise"]], ("exc", ("exc", "ReactorError")), "reactor.run() itself raises"),
    ("R-RESULT-3WAY", "pending", [["start"], ["stop", "fire-ok"]], ("val", sm.USER_VALUE), "a stop request and the Deferred's result arrive in the same reactor iteration"),
]


def _show(outcome):
    kind, v = outcome
    if kind == "val":
        return f"returns {v!r}"
    if isinstance(v, tuple) and v[:2] == ("new", "TimeoutError"):
        return f"raises TimeoutError{v[2]!r}"
    return f"raises {v!r}"


def check_spinner_scenarios(ctx):
    Q = f"{SPINNER}:Spinner.run"
    restore_stop, restore_sig, clean, reset = set(), set(), set(), set()
    n_total = 0
    run_f = None
    for rule, kind, script, want, what in SCENARIOS:
        for debug in (False, True):
            run_f, res = sm.run_spinner(ctx, kind, script, debug=debug)
            n_total += len(res)
            problems = set()
            label = f"{what} [{kind}; {' | '.join(','.join(it) for it in script)}]"
            if not res:
                problems.add("no path of run() could be followed")
            for r in res:
                log = r.state.get("ev.calls", ())
                if r.state.get("ev.calls.overflow", 0):
                    raise AnalysisError("Spinner.run: the call log of the abstract run overflowed")
                names = [e[0] for e in log]
                got = (r.kind, r.value)
                expected = ("exc", ("new", "TimeoutError", (sm.userfn(kind), sm.TIMEOUT), ())) if want == "timeout" else want
                if r.kind == "exc" and r.value == ("exc", "ReactorSpinsForEver"):
                    problems.add("nothing stops the reactor: run() never returns")
                    continue
                if got != expected:
                    stale = got in (("val", ("sym", "stale-success")), ("exc", ("exc", "StaleError")))
                    (reset if stale else problems).add(f"when {what}, run() {_show(got)}" + (" -- the outcome of the spinner's previous run" if stale else f"; expected: {_show(expected)}"))
                calls_ = [e for e in log if e[0] == "user-function"]
                if len(calls_) != 1 or calls_[0][1] != (sm.A1,) or dict(calls_[0][2]) != {"k": sm.K1}:
                    problems.add(f"the function is called {len(calls_)} time(s)" + ("" if len(calls_) != 1 else " but not with the given arguments"))
                if "reactor.run" in names and calls_ and names.index("user-function") < names.index("reactor.run"):
                    problems.add("the function is called before the reactor runs")
                later = [e for e in log if e[0] == "reactor.callLater"]
                if len(later) != 1 or later[0][1][:1] != (sm.TIMEOUT,):
                    problems.add("the timeout call is not scheduled once with the given timeout")
                # -- what run() leaves behind, whatever happened
                if r.state.get("obj.reactor.stop", sm.REAL_STOP) != sm.REAL_STOP:
                    restore_stop.add(f"[{label}] reactor.stop is still {r.state.get('obj.reactor.stop')!r} after run()")
                if r.state.get("ev.stopped_for_good", False):
                    restore_stop.add(f"[{label}] the real reactor.stop ran while spinning: this reactor can never be started again")
                if "reactor.run" in names:
                    ri = names.index("reactor.run")
                    saved = [e[1][0] for e in log[:ri] if e[0] == "signal.getsignal"]
                    restored = [e[1] for e in log[ri:] if e[0] == "signal.signal"]
                    nums = [("const", n_) for n_ in sm.SIGNUMS.values()]
                    if sorted(map(repr, saved)) != sorted(map(repr, nums)):
                        restore_sig.add(f"[{label}] the handlers saved before reactor.run() are those of {saved}; expected SIGINT, SIGTERM, SIGCHLD")
                    if sorted(map(repr, restored)) != sorted(repr((n_, ("handler-of", n_))) for n_ in nums):
                        restore_sig.add(f"[{label}] after reactor.run() the handlers re-installed are {restored}; expected each preserved signal with its own saved handler")
                    if any(e[0] == "signal.signal" for e in log[:ri]):
                        restore_sig.add(f"[{label}] signal handlers are changed before the reactor runs")
                    if r.state.get("self._saved_signals", None) != ("tuple",):
                        restore_sig.add(f"[{label}] the saved handlers are kept after being restored (a later restore would install stale handlers)")
                    if r.kind == "exc" and r.value == ("exc", "ReactorError"):
                        continue   # run() does not promise a clean reactor when the reactor itself broke
                    cancels = {e[0] for e in log[ri:] if e[0].endswith(".cancel") and e[0].startswith("leftover-")}
                    if cancels != {"leftover-call-1.cancel", "leftover-call-2.cancel"}:
                        clean.add(f"[{label}] leftover delayed calls are not all cancelled after the run ({sorted(cancels)})")
                    if "reactor.removeAll" not in names[ri:]:
                        clean.add(f"[{label}] selectables are not removed from the reactor after the run")
                    junk = r.state.get("self._junk", None)
                    if not (isinstance(junk, tuple) and sorted(map(repr, junk[1:])) == sorted(map(repr, [sm.DC1, sm.DC2, sm.SEL1]))):
                        clean.add(f"[{label}] the junk remembered after the run is {junk!r}; expected the two delayed calls and the selectable found")
                if r.state.get("ev.running", False):
                    clean.add(f"[{label}] run() ends while the reactor is still running")
            if debug and not problems:
                continue
            ctx.check(rule, f"Spinner.run: {what}" + (" (debug)" if debug else ""), run_f, not problems, "; ".join(sorted(problems)), examined=len(res),
                      construct=f"{Q}::{kind} {'|'.join(','.join(it) for it in script)}")
    ctx.check("R-RESULT-RESET", "results of a previous run of the same spinner never show", run_f, not reset, "; ".join(sorted(reset)[:3]), examined=n_total, construct=f"{Q}::reset")
    ctx.check("R-RESTORE-STOP", "reactor.stop is the crash substitute while spinning and the original afterwards, on every path", run_f, not restore_stop,
              "; ".join(sorted(restore_stop)[:3]), examined=n_total, construct=f"{Q}::restore-stop")
    ctx.check("R-RESTORE-SIGNALS", "every preserved signal's handler is saved before and re-installed after reactor.run(), on every path", run_f, not restore_sig,
              "; ".join(sorted(restore_sig)[:3]), examined=n_total, construct=f"{Q}::restore-signals")
    ctx.check("R-CLEAN-ALWAYS", "after run() returned or raised: leftovers cancelled / removed and remembered as junk, reactor not running", run_f, not clean,
              "; ".join(sorted(clean)[:3]), examined=n_total, construct=f"{Q}::clean")

    # a platform without SIGCHLD: the signals that exist are still saved and restored, nothing else is touched
    _, res = sm.run_spinner(ctx, "value", [["start"]], missing_signals=("SIGCHLD",))
    problems = set()
    for r in res:
        log = r.state.get("ev.calls", ())
        restored = sorted(repr(e[1]) for e in log if e[0] == "signal.signal")
        want = sorted(repr((("const", n_), ("handler-of", ("const", n_)))) for k_, n_ in sm.SIGNUMS.items() if k_ != "SIGCHLD")
        if restored != want or (r.kind, r.value) != ("val", sm.USER_VALUE):
            problems.add(f"without SIGCHLD run() {_show((r.kind, r.value))} and re-installs {restored}")
    ctx.check("R-RESTORE-SIGNALS", "a signal the platform lacks is skipped, the others are still saved and restored", run_f, bool(res) and not problems, "; ".join(sorted(problems)),
              examined=len(res), construct=f"{Q}::missing-signal")
    # a signal whose handler is SIG_DFL (the integer 0, falsy) is restored like any other
    _, res = sm.run_spinner(ctx, "value", [["start"]], default_handlers=("SIGTERM",))
    problems = set()
    for r in res:
        restored = sorted(repr(e[1]) for e in r.state.get("ev.calls", ()) if e[0] == "signal.signal")
        want = sorted(repr((("const", n_), ("const", 0) if k_ == "SIGTERM" else ("handler-of", ("const", n_)))) for k_, n_ in sm.SIGNUMS.items())
        if restored != want or (r.kind, r.value) != ("val", sm.USER_VALUE):
            problems.add(f"with SIGTERM at SIG_DFL before the call run() {_show((r.kind, r.value))} and re-installs {restored}; expected every preserved signal with the handler it had, SIG_DFL included")
    ctx.check("R-RESTORE-SIGNALS", "a handler that is SIG_DFL (falsy) is saved and restored like any other", run_f, bool(res) and not problems, "; ".join(sorted(problems)),
              examined=len(res), construct=f"{Q}::default-handler")
    # a clean reactor leaves no junk
    _, res = sm.run_spinner(ctx, "value", [["start"]], leftovers=False)
    ok = bool(res) and all(r.state.get("self._junk") == ("tuple",) and (r.kind, r.value) == ("val", sm.USER_VALUE) for r in res)
    ctx.check("R-CLEAN-ALWAYS", "a reactor left clean yields no junk", run_f, ok, "run() reports junk (or fails) although nothing was left in the reactor", examined=len(res), construct=f"{Q}::no-junk")
    # uncleared junk: refused before anything is touched
    OLD = ("sym", "old-junk")
    _, res = sm.run_spinner(ctx, "value", [["start"]], junk=(OLD,))
    problems = set()
    for r in res:
        log = r.state.get("ev.calls", ())
        if not (r.kind == "exc" and isinstance(r.value, tuple) and r.value[:2] == ("new", "StaleJunkError") and r.value[2] == (("tuple", OLD),)):
            problems.add(f"with uncleared junk run() {_show((r.kind, r.value))} instead of raising StaleJunkError(junk)")
        touched = sorted({e[0] for e in log if e[0].startswith(("reactor.", "signal.", "user-function"))})
        if touched:
            problems.add(f"before refusing, run() already used {touched}")
        if r.state.get("self._success") != ("sym", "stale-success") or r.state.get("self._junk") != ("tuple", OLD) or r.state.get("obj.reactor.stop", sm.REAL_STOP) != sm.REAL_STOP:
            problems.add("before refusing, run() already changed the spinner's state")
    ctx.check("R-STALE-JUNK-FIRST", "with uncleared junk run() raises StaleJunkError(junk) before touching reactor, signals or results", run_f, bool(res) and not problems,
              "; ".join(sorted(problems)), examined=len(res), construct=f"{Q}::stale-junk")
    # clear_junk hands the junk over and forgets it
    cls = sm.spinner_class(ctx)
    cj = own_method(ctx, SPINNER, "Spinner", "clear_junk")
    dom = effects.EffectDomain(ctx.classes, attrs={"self": ("self",)})
    res = effects.run(ctx, dom, cj, cls, {}, state=State([("self._junk", ("tuple", OLD))]), depth=2)
    ok = bool(res) and all(r.kind == "val" and r.value == ("tuple", OLD) and r.state.get("self._junk") == ("tuple",) for r in res)
    ctx.check("R-STALE-JUNK-FIRST", "clear_junk returns the junk and forgets it", cj, ok, "clear_junk does not return the recorded junk and reset it to empty (the next run would be refused for ever, or junk reported twice)",
              examined=len(res), construct=f"{SPINNER}:Spinner.clear_junk::clears")


def run(ctx):
    ctx.rule("R-RESTORE-STOP", "reactor.stop is re-installed on every path after it was replaced")
    ctx.rule("R-RESTORE-SIGNALS", "signal handlers saved before and restored on every path out of reactor.run()")
    ctx.rule("R-CLEAN-ALWAYS", "after run() the reactor is cleaned and all junk recorded")
    ctx.rule("R-STALE-JUNK-FIRST", "the stale-junk refusal precedes every mutation of process state")
    ctx.rule("R-REENTRANCY-FLAG", "not_reentrant sets its flag after the test and clears it on all paths")
    ctx.rule("R-RESULT-3WAY", "run() reports the function's own result, its failure, TimeoutError or NoResultError")
    ctx.rule("R-CALLBACK-SIBLINGS", "a result arriving first cancels the timeout")
    ctx.rule("R-RESULT-RESET", "results of a previous run cannot leak into this run")
    ctx.rule("R-TIMEOUT-WINS", "once the timeout has fired, a result arriving later cannot replace the TimeoutError")
    spinner = ctx.classes.get(SPINNER, "Spinner")
    run_f = own_method(ctx, SPINNER, "Spinner", "run")
    preserved = spinner.attrs.get("_PRESERVED_SIGNALS")
    names = [e.value for e in preserved.elts if isinstance(e, ast.Constant)] if isinstance(preserved, (ast.List, ast.Tuple, ast.Set)) else []
    need = {"SIGINT", "SIGTERM", "SIGCHLD"}
    ctx.check("R-RESTORE-SIGNALS", "preserved signal table covers SIGINT/SIGTERM/SIGCHLD", preserved if preserved is not None else spinner.node,
              need <= set(names), f"_PRESERVED_SIGNALS = {names} misses {sorted(need - set(names))}", construct=f"{SPINNER}:Spinner::_PRESERVED_SIGNALS")
    check_spinner_scenarios(ctx)
    check_reentrancy_guard(ctx)
    decos = [dotted(d) for d in run_f.decorator_list]
    ctx.check("R-REENTRANCY-FLAG", "Spinner.run is decorated with not_reentrant", run_f, "not_reentrant" in decos,
              "Spinner.run lost its @not_reentrant decorator", construct=f"{SPINNER}:Spinner.run::decorator")
    ctx.floor("R-RESULT-3WAY", 9)
    ctx.floor("R-TIMEOUT-WINS", 2)
    ctx.floor("R-CALLBACK-SIBLINGS", 2)
    ctx.assume("reactor.crash() ends the reactor loop after the current iteration; signal.signal/getsignal behave as documented; the reactor catches exceptions of the calls it makes")
    ctx.assume("attribute stores on self._reactor do not raise")
