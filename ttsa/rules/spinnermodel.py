"""Abstract runs of Spinner.run against a modelled reactor (C15).

The reactor is a wrapped object whose calls are logged; `reactor.run()` replays a *script*: a list of reactor
iterations, each a list of events -- "start" (the callWhenRunning callbacks), "fire-ok" / "fire-fail" (the user
function's pending Deferred fires), "timeout" (the callLater'd call runs unless it was cancelled), "stop"
(something -- a signal handler -- calls whatever `reactor.stop` currently is).  The loop ends after the iteration
in which `reactor.crash()` was called; a script that ends without a crash is a reactor that spins for ever.
The user function returns a value, raises, or returns a Deferred that has fired / failed / is pending.
Deferred chains are Twisted's (rules/deferredmodel.py).
"""

import ast

from .. import effects
from ..absint import FALSE, NONE, TOP, TRUE, State, exc, val
from ..astutil import FUNC_TYPES, dotted
from ..loader import AnalysisError
from .common import SPINNER
from .deferredmodel import DeferredDomain, is_dfr, is_failure

REACTOR, DC, SIGNAL = ("wobj", "reactor"), ("wobj", "dc"), ("wobj", "signal")
TIMEOUT = ("sym", "timeout")
from .deferredmodel import USER_EXC, USER_VALUE, userfn  # noqa: E402,F401
A1, K1 = ("sym", "arg-1"), ("sym", "kw-1")
DC1, DC2, SEL1 = ("wobj", "leftover-call-1"), ("wobj", "leftover-call-2"), ("wobj", "leftover-selectable")
REAL_STOP = ("bound", "reactor", "stop")
SIGNUMS = {"SIGINT": 2, "SIGTERM": 15, "SIGCHLD": 17}


class SpinnerDomain(DeferredDomain):
    def __init__(self, classes, script, leftovers=True, missing_signals=(), default_handlers=(), **kw):
        lacks = {("signal", n) for n in missing_signals}
        attrs = {"self": ("self",), "self._reactor": REACTOR, "signal": SIGNAL}
        for n, num in SIGNUMS.items():
            attrs["signal." + n] = ("const", num)
        attrs.update(kw.pop("attrs", {}))
        super().__init__(classes, attrs=attrs, lacks=lacks, ctors={"TimeoutError", "StaleJunkError", "DebugTwisted", "Fixture"}, oracle=self._oracle, log_cap=60, **kw)
        self.script = script
        self.leftovers = leftovers
        self.default_handlers = {("const", SIGNUMS[n_]) for n_ in default_handlers}   # signals whose current handler is SIG_DFL (== 0, falsy)
        self.oracle_state = True

    def _oracle(self, n, pos, kw, st):
        if n == "dc.cancel":
            # a DelayedCall can be cancelled only while it is pending (twisted.internet.base.DelayedCall.cancel)
            if st.get("ev.timeout_ran", False):
                return [("exc", ("exc", "AlreadyCalled"))]
            if any(e[0] == "dc.cancel" and e[3] == "ok" for e in st.get("ev.calls", ())):
                return [("exc", ("exc", "AlreadyCancelled"))]
            return [("val", NONE)]
        if n == "dc.active":
            done = st.get("ev.timeout_ran", False) or any(e[0] == "dc.cancel" and e[3] == "ok" for e in st.get("ev.calls", ()))
            return [("val", FALSE if done else TRUE)]
        if n == "signal.getsignal":
            if pos and pos[0] in self.default_handlers:
                return [("val", ("const", 0))]   # signal.SIG_DFL
            return [("val", ("handler-of", pos[0] if pos else None))]
        if n == "signal.signal":
            return [("val", NONE)]
        if n == "reactor.getDelayedCalls":
            return [("val", ("tuple", DC1, DC2) if self.leftovers else ("tuple",))]
        if n == "reactor.removeAll":
            return [("val", ("tuple", SEL1) if self.leftovers else ("tuple",))]
        if n.startswith(("reactor.", "dc.", "leftover-")):
            return [("val", NONE)]
        return None

    def truth(self, value):
        if isinstance(value, tuple) and value[:1] in (("handler-of",),):
            return "T"
        return super().truth(value)

    def is_none(self, value):
        if isinstance(value, tuple) and value[:1] in (("handler-of",),):
            return "F"
        return super().is_none(value)

    def call(self, interp, call, st, fr):
        d = dotted(call.func) or ""
        if d.endswith(".providedBy"):
            out = []
            for r in interp.eval_list(list(call.args), st, fr):
                out.extend([r] if r.kind == "exc" else [val(TRUE, r.state), val(FALSE, r.state)])
            return out
        return super().call(interp, call, st, fr)

    # -- the reactor ------------------------------------------------------------------------
    def _call_bound(self, interp, bound, call, st, fr):
        if bound[1] == "reactor" and bound[2] in ("callLater", "callWhenRunning", "run", "crash", "stop"):
            out = []
            exprs = [a.value if isinstance(a, ast.Starred) else a for a in call.args] + [k.value for k in call.keywords]
            for r in interp.eval_list(exprs, st, fr):
                if r.kind == "exc":
                    out.append(r)
                    continue
                pos = []
                for a, v in zip(call.args, r.value[: len(call.args)]):
                    if isinstance(a, ast.Starred):
                        els = interp._exact_elements(v)
                        pos.extend(els if els is not None else [("*", v)])
                    else:
                        pos.append(v)
                out.extend(self.reactor_call(interp, bound[2], pos, r.state, fr))
            return out
        return super()._call_bound(interp, bound, call, st, fr)

    def call_bound_values(self, bound, pos, kw, st):
        if bound[1] == "reactor" and bound[2] in ("crash", "stop"):
            return self.reactor_call(None, bound[2], pos, st, None)
        return super().call_bound_values(bound, pos, kw, st)

    def reactor_call(self, interp, name, pos, st, fr):
        log = st.get("ev.calls", ())
        s = st.set("ev.calls", log + (("reactor." + name, tuple(pos), (), "ok"),))
        if name == "callLater":
            return [val(DC, s.set("ev.later", (pos[1] if len(pos) > 1 else None, tuple(pos[2:]))))]
        if name == "callWhenRunning":
            return [val(NONE, s.set("ev.when", s.get("ev.when", ()) + ((pos[0] if pos else None, tuple(pos[1:])),)))]
        if name == "crash":
            return [val(NONE, s.set("ev.crashed", True))]
        if name == "stop":
            # the real reactor.stop: the loop ends, and this reactor can never be started again
            return [val(NONE, s.set("ev.crashed", True).set("ev.stopped_for_good", True))]
        return self._spin(interp, s, fr)

    def _spin(self, interp, st, fr):
        states = [st.set("ev.crashed", False).set("ev.running", True)]
        finished = []
        raising = []
        for iteration in self.script:
            for ev in iteration:
                nxt = []
                for s in states:
                    nxt.extend(self._event(interp, ev, s, fr))
                states = list(dict.fromkeys(nxt))
            still = []
            for s in states:
                if s.get("ev.reactor_raises", False):
                    raising.append(s)
                    continue
                (finished if s.get("ev.crashed", False) else still).append(s)
            states = still
            if not states:
                break
        out = [val(NONE, s.set("ev.running", False)) for s in finished]
        out.extend(exc(("exc", "ReactorSpinsForEver"), s) for s in states)
        out.extend(exc(("exc", "ReactorError"), s.set("ev.running", False)) for s in raising)   # reactor.run() itself raises
        return out

    def _event(self, interp, ev, s, fr):
        def swallow(results):
            # the reactor logs exceptions of the calls it makes and carries on
            return [r.state if r.kind == "val" else r.state.set("ev.reactor_caught", r.value) for r in results]

        if ev == "start":
            cur = [s]
            for fn, args in s.get("ev.when", ()):
                nxt = []
                for c in cur:
                    nxt.extend(swallow(self.apply(interp, fn, list(args), [], c, fr)))
                cur = nxt
            return cur
        if ev in ("fire-ok", "fire-fail"):
            dv = s.get("ev.user_dfr", None)
            if dv is None or self.result_of(s, dv)[0] != "pending":
                return [s]
            s2 = s.set(f"dfr.{dv[1]}", ("ok", USER_VALUE) if ev == "fire-ok" else ("fail", ("failure", USER_EXC)))
            return self.fire(interp, dv, s2, fr)
        if ev == "timeout":
            later = s.get("ev.later", None)
            cancelled = any(e[0] == "dc.cancel" and e[3] == "ok" for e in s.get("ev.calls", ()))
            if later is None or cancelled or s.get("ev.timeout_ran", False):
                return [s]
            return swallow(self.apply(interp, later[0], list(later[1]), [], s.set("ev.timeout_ran", True), fr))
        if ev == "stop":
            cur_stop = s.get("obj.reactor.stop", REAL_STOP)
            return swallow(self.apply(interp, cur_stop, [], [], s, fr))
        if ev == "raise":
            return [s.set("ev.reactor_raises", True)]
        raise AnalysisError(f"unknown reactor event {ev}")


def spinner_class(ctx):
    return ctx.classes.get(SPINNER, "Spinner")


def class_const(cls, name):
    """Abstract value of a literal class attribute (a list of strings, an int)."""
    node = cls.attrs.get(name)
    if isinstance(node, ast.Constant):
        return effects.EffectDomain._abs(node.value)
    if isinstance(node, (ast.List, ast.Tuple)) and all(isinstance(e, ast.Constant) for e in node.elts):
        return ("tuple",) + tuple(("const", e.value) for e in node.elts)
    return None


def initial_state(stale=True, junk=()):
    """A spinner that has been used before: stale results, no junk (unless given)."""
    items = [("self._success", ("sym", "stale-success") if stale else ("sym", "UNSET")), ("self._failure", ("failure", ("exc", "StaleError")) if stale else ("sym", "UNSET")),
             ("self._junk", ("tuple",) + tuple(junk)), ("self._saved_signals", ("tuple",)), ("self._spinning", FALSE), ("self._timeout_call", NONE)]
    return State(items)


def run_spinner(ctx, kind, script, debug=False, stale=True, junk=(), leftovers=True, missing_signals=(), default_handlers=()):
    cls = spinner_class(ctx)
    owner, f = ctx.classes.resolve_method(cls, "run")
    if not isinstance(f, FUNC_TYPES):
        raise AnalysisError("anchor vanished: Spinner.run")
    attrs = {"self._UNSET": ("sym", "UNSET"), "self._debug": TRUE if debug else FALSE}
    for name in ("_PRESERVED_SIGNALS", "_OBLIGATORY_REACTOR_ITERATIONS"):
        v = class_const(cls, name)
        if v is None:
            raise AnalysisError(f"anchor vanished: Spinner.{name} is not a literal")
        attrs["self." + name] = v
    dom = SpinnerDomain(ctx.classes, script, leftovers=leftovers, missing_signals=missing_signals, default_handlers=default_handlers, attrs=attrs)
    params = [a.arg for a in f.args.args[1:]]
    argv = {params[0]: TIMEOUT, params[1]: userfn(kind)}
    if f.args.vararg is not None:
        argv[f.args.vararg.arg] = ("tuple", A1)
    if f.args.kwarg is not None:
        argv[f.args.kwarg.arg] = ("kwdict", (("k", K1),))
    res = effects.run(ctx, dom, f, cls, argv, state=initial_state(stale, junk), depth=7)
    return f, res
