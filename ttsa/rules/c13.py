"""C13 -- concurrent suites run every test once, deliver every event, terminate.

The worker wrapper and the coordinating run() of ConcurrentTestSuite and ConcurrentStreamTestSuite are
interpreted abstractly (EffectDomain) against a model of their environment: sub-suites that return, crash
or are interrupted; threads, queues and per-worker results as numbered symbolic objects; the completion /
event queue as an oracle that replays a *schedule* of worker events.  Every rule is read off the ordered
call log and the final outcome of those runs, for each schedule and for an interrupt delivered at each
external call -- whatever helpers, loop forms or guard styles the code is organised into.  Real
interleavings are not explored: the rules establish the discipline that makes them irrelevant.
"""

from .. import effects
from ..absint import NONE, State
from ..astutil import FUNC_TYPES
from ..objects import ObjectDomain
from ..loader import AnalysisError
from .common import TESTSUITE

EXPLANATION = (
    "Join/signal/abort discipline of testtools.testsuite.ConcurrentTestSuite and ConcurrentStreamTestSuite, "
    "decided on abstract runs (effect logs) of the worker wrapper and of the coordinating run(). Worker: for a "
    "sub-suite that returns, raises an Exception, or is interrupted, and a holder whose run() may itself raise: "
    "R-RUN-ONCE (run() called exactly once with the per-worker result), R-WORKER-SIGNAL (exactly one completion "
    "signal on every path, normal or exceptional, after run(), and nothing sent to the result after it), "
    "R-BROKEN-RUNNER (an Exception is contained and reported through ErrorHolder('broken-runner...', "
    "error=sys.exc_info()).run(<the same result>); an interrupt still propagates). Coordinator: make_tests yields "
    "two sub-suites; threads / queue / semaphore / per-worker results are numbered symbolic objects; queue.get() "
    "replays every schedule of a table of worker-event schedules and raises Deadlock when the coordinator waits "
    "for more events than the workers send: R-RUN-ONCE (one Thread per sub-suite, target = the worker wrapper, "
    "args carry that sub-suite, each started once), R-JOIN-BEFORE-FORGET (run() returns only after every started "
    "thread was joined and never waits for an event that cannot come), R-REGISTER-BEFORE-START and "
    "R-ABORT-STOPS-ALL (an interrupt delivered at each external call of each schedule -- including start() -- "
    "propagates, after stop() was called on the per-worker result of every thread started and not yet joined), "
    "R-PIPELINE (one shared Semaphore(1) and queue; per-worker ThreadsafeForwardingResult(result, semaphore) "
    "through _wrap_result(., index) / ExtendedToStream(Timestamping(StreamToQueue(queue, route))); status events "
    "forwarded unchanged in dequeue order, startTestRun filtered, a worker forgotten only on its own stopTestRun, "
    "unknown events rejected). Schedules of real threads and liveness of user code are not decided."
)

SUB, PR, Q, ROUTE = ("wobj", "sub"), ("wobj", "pr"), ("wobj", "q"), ("sym", "route")
EXCINFO = ("sym", "exc-info")
CRASH, INTERRUPT = ("exc", "RunnerCrash"), ("exc", "KeyboardInterrupt")
A, B = ("sym", "suite-A"), ("sym", "suite-B")
RC_A, RC_B = ("sym", "route-A"), ("sym", "route-B")
RESULT = ("wobj", "res")
WORKER = ("sym", "worker-wrapper")
CTORS = {"Queue", "queue.Queue", "threading.Semaphore", "Semaphore", "threading.Thread", "Thread", "testtools.ThreadsafeForwardingResult",
         "ThreadsafeForwardingResult", "self._wrap_result", "testtools.StreamToQueue", "StreamToQueue", "testtools.ExtendedToStreamDecorator",
         "ExtendedToStreamDecorator", "testtools.TimestampingStreamResult", "TimestampingStreamResult"}


def _method(ctx, clsname, name):
    cls = ctx.classes.get(TESTSUITE, clsname)
    owner, f = ctx.classes.resolve_method(cls, name)
    if not isinstance(f, FUNC_TYPES) or owner is None or owner.external:
        raise AnalysisError(f"anchor vanished: {clsname}.{name}")
    return cls, f


def _is_new(v, name=None):
    return isinstance(v, tuple) and v[:1] == ("new",) and (name is None or v[1] == name)


# ------------------------------------------------------------------------------------------------ worker wrapper
def check_worker(ctx, clsname, stream):
    cls, worker = _method(ctx, clsname, "_run_test")
    params = [a.arg for a in worker.args.args[1:]]
    if len(params) != 3:
        raise AnalysisError(f"anchor vanished: {clsname}._run_test no longer takes (test, result, queue / route code)")
    argv = {params[0]: SUB, params[1]: PR, params[2]: ROUTE if stream else Q}

    def oracle(n, pos, kw):
        if n == "sub.run":
            return [("val", NONE), ("exc", CRASH), ("exc", INTERRUPT)]
        if n == "<ErrorHolder>.run":
            return [("val", NONE), ("exc", ("exc", "HolderCrash"))]
        if n.startswith(("pr.", "q.")):
            return [("val", NONE)]
        return None

    dom = ObjectDomain(ctx.classes, attrs={"self": ("self",)}, oracle=oracle,
                               ctors={"testtools.ErrorHolder", "ErrorHolder"}, log_cap=16)
    res = effects.run(ctx, dom, worker, cls, argv, state=State(), depth=4)
    Qn = f"{TESTSUITE}:{clsname}._run_test"
    sig_name, sig_pos, sig_txt = ("pr.stopTestRun", (), "stopTestRun() on the per-worker result") if stream else ("q.put", (SUB,), "queue.put(<the sub-suite>)")
    once, signal, late, contained, reported, same_result, interrupts = set(), set(), set(), set(), set(), set(), set()
    seen = set()
    for r in res:
        log = r.state.get("ev.calls", ())
        names = [e[0] for e in log]
        runs = [i for i, e in enumerate(log) if e[0] == "sub.run"]
        if len(runs) != 1:
            once.add(f"the sub-suite's run() is called {len(runs)} times on one path")
            continue
        ri = runs[0]
        fate = log[ri][3]   # ok / RunnerCrash / KeyboardInterrupt
        seen.add(fate)
        if log[ri][1] != (PR,):
            once.add("the sub-suite does not run against the per-worker result it was given")
        sigs = [i for i, e in enumerate(log) if e[0] == sig_name and e[1] == sig_pos]
        how = {"ok": "returns", "RunnerCrash": "raises an Exception", "KeyboardInterrupt": "is interrupted"}[fate] + (" and the broken-runner holder raises too" if "HolderCrash" in [e[3] for e in log] else "")
        if len(sigs) != 1 or sigs[0] < ri:
            signal.add(f"when the sub-suite's run() {how}, {sig_txt} is sent {len(sigs)} times after it: the coordinating thread would wait for ever (or forget the worker twice)")
        elif any(n.startswith(("pr.", "<ErrorHolder>.")) for n in names[sigs[0] + 1:]):
            late.add(f"when run() {how} the worker still talks to its result after signalling completion (the event may be dropped)")
        holders = [e for e in log if e[0] == "<ErrorHolder>.run"]
        if fate == "RunnerCrash":
            if not holders:
                reported.add("a sub-suite whose run() raises is not reported through an ErrorHolder: its tests are lost silently")
            for h in holders:
                obj = h[1][0]
                first = obj[2][0] if obj[2] else dict(obj[3]).get("test_id")
                text = first[1] if isinstance(first, tuple) and first[:1] == ("const",) else (first[1][1] if isinstance(first, tuple) and first[:1] == ("concat",) and first[1][:1] == ("const",) else "")
                err = dict(obj[3]).get("error", obj[2][1] if len(obj[2]) > 1 else None)
                if not (isinstance(text, str) and text.startswith("broken-runner")) or err != effects.exc_info_of(CRASH):
                    reported.add(f"the crash is reported as ErrorHolder({first!r}, error={err!r}) instead of ErrorHolder('broken-runner...', error=sys.exc_info())")
                if h[1][1:] != (PR,):
                    same_result.add("the broken-runner holder is not run against the worker's own result")
            if r.kind == "exc" and r.value == CRASH:
                contained.add("an Exception raised by the sub-suite's run() escapes the worker: the thread dies with a traceback and the tests are lost")
        elif holders:
            reported.add(f"a broken-runner error is reported although run() {how}")
        if fate == "KeyboardInterrupt" and not (r.kind == "exc" and r.value == INTERRUPT):
            interrupts.add("an interrupt of the sub-suite is swallowed by the worker")
    if seen != {"ok", "RunnerCrash", "KeyboardInterrupt"}:
        once.add(f"the model could not follow the sub-suite's run() through return / crash / interrupt (saw {sorted(seen)})")

    def chk(rule, name, problems):
        ctx.check(rule, f"{clsname}._run_test: {name}", worker, not problems, "; ".join(sorted(problems)), examined=len(res), construct=f"{Qn}::{name}")

    chk("R-RUN-ONCE", "sub-suite run() called exactly once against the per-worker result", once)
    chk("R-WORKER-SIGNAL", "completion signal exactly once on every path out of run()", signal)
    chk("R-WORKER-SIGNAL", "no event emitted after the completion signal", late)
    chk("R-BROKEN-RUNNER", "an Exception from run() is contained", contained)
    chk("R-BROKEN-RUNNER", "crash reported as broken-runner ErrorHolder with sys.exc_info()", reported)
    chk("R-BROKEN-RUNNER", "holder run against the same per-worker result", same_result)
    chk("R-BROKEN-RUNNER", "an interrupt is not swallowed", interrupts)


# ------------------------------------------------------------------------------------------------ coordinator
def _thread_parts(obj):
    """(target, args tuple) of a symbolic Thread(...) object."""
    pos, kw = obj[2], dict(obj[3])
    target = kw.get("target", pos[1] if len(pos) > 1 else None)
    args = kw.get("args", pos[3] if len(pos) > 3 else None)
    return target, (tuple(args[1:]) if isinstance(args, tuple) and args[:1] == ("tuple",) else None)


def _find_new(v, name):
    """First nested symbolic object of the given constructor inside ``v``."""
    if _is_new(v, name):
        return v
    if isinstance(v, tuple):
        for x in v:
            got = _find_new(x, name)
            if got is not None:
                return got
    return None


def _status_event(i, n):
    return ("kwdict", (("event", ("const", "status")), ("test_id", ("sym", f"id-{i}-{n}")), ("test_status", ("const", "success")), ("route_code", ("sym", f"rc-{i}"))))


# schedules of the event queue: (kind, worker index [, serial])
PLAIN_SCHEDULES = [[("done", 0), ("done", 1)], [("done", 1), ("done", 0)]]
STREAM_SCHEDULES = [
    [("start", 0), ("start", 1), ("status", 0, 1), ("status", 1, 1), ("stop", 1), ("status", 0, 2), ("stop", 0)],
    [("start", 0), ("status", 0, 1), ("stop", 0), ("start", 1), ("status", 1, 1), ("stop", 1)],
    [("start", 1), ("stop", 1), ("start", 0), ("stop", 0)],
]


def run_coordinator(ctx, clsname, stream, schedule, interrupt_at=None):
    cls, run_f = _method(ctx, clsname, "run")
    param = run_f.args.args[1].arg

    def started(st):
        return [e[1][0] for e in st.get("ev.calls", ()) if e[0] == "<Thread>.start"]

    def oracle(n, pos, kw, st):
        log = st.get("ev.calls", ())
        if interrupt_at is not None and len(log) == interrupt_at and n.startswith("<"):
            return [("exc", INTERRUPT, "interrupt")]
        if n == "<Queue>.get":
            k = sum(1 for e in log if e[0] == "<Queue>.get")
            if k >= len(schedule):
                return [("exc", ("exc", "Deadlock"), "deadlock")]
            ev = schedule[k]
            th = started(st)
            if ev[1] >= len(th):
                return [("exc", ("exc", "ModelError"), "model")]
            _, args = _thread_parts(th[ev[1]])
            if not stream:
                return [("val", args[0] if args else ("sym", "?"))]
            stq = _find_new(th[ev[1]], "StreamToQueue")
            if ev[0] == "status":
                return [("val", _status_event(ev[1], ev[2]))]
            if ev[0] == "unknown":
                return [("val", ("kwdict", (("event", ("const", "progress")),)))]
            return [("val", ("kwdict", (("event", ("const", "startTestRun" if ev[0] == "start" else "stopTestRun")), ("result", stq if stq is not None else ("sym", "?")))))]
        if n.startswith(("<", "res.")):
            return [("val", NONE)]
        return None

    tests = ("tuple", ("tuple", A, RC_A), ("tuple", B, RC_B)) if stream else ("tuple", A, B)
    dom = ObjectDomain(ctx.classes, attrs={"self": ("self",), "self._run_test": WORKER}, results={"self.make_tests": [tests]}, oracle=oracle,
                               ctors=CTORS, log_cap=40)
    dom.oracle_state = True
    dom.unique_ctors = True
    res = effects.run(ctx, dom, run_f, cls, {param: RESULT}, state=State(), depth=5)
    return run_f, res


def check_coordinator(ctx, clsname, stream):
    Qn = f"{TESTSUITE}:{clsname}.run"
    schedules = STREAM_SCHEDULES if stream else PLAIN_SCHEDULES
    elements = [A, B]
    run_once, join, pipeline, forward = set(), set(), set(), set()
    examined = 0
    run_f = None
    n_ext = 0
    for sched in schedules:
        run_f, res = run_coordinator(ctx, clsname, stream, sched)
        examined += len(res)
        if not res:
            join.add("no path of run() could be followed")
        for r in res:
            log = r.state.get("ev.calls", ())
            n_ext = max(n_ext, len(log))
            if r.state.get("ev.calls.overflow", 0):
                raise AnalysisError(f"{clsname}.run: the call log of the abstract run overflowed")
            tags = [e[3] for e in log]
            if "model" in tags:
                pipeline.add("the model could not identify the worker threads (Thread objects are not started through start())")
                continue
            if r.kind == "exc":
                if "deadlock" in tags:
                    join.add(f"with worker events {sched} run() waits for a further event after every worker has signalled completion: it blocks for ever")
                else:
                    join.add(f"with worker events {sched} run() raises {r.value!r}")
                continue
            th = [e[1][0] for e in log if e[0] == "<Thread>.start"]
            # one thread per sub-suite, running the worker wrapper on it
            parts = [_thread_parts(t) for t in th]
            got = [p[1][0] if p[1] else None for p in parts]
            if got != elements:
                run_once.add(f"threads are started for {got}; expected one per sub-suite of make_tests, {elements}")
            if len(set(th)) != len(th):
                run_once.add("a thread object is started twice")
            for t, (target, args) in zip(th, parts):
                if target != WORKER:
                    run_once.add(f"a thread's target is {target!r}, not the worker wrapper self._run_test")
                if args is None or len(args) != 3:
                    run_once.add("a thread is not given (sub-suite, per-worker result, queue / route code)")
            # every started thread is joined before run() returns
            joined = [e[1][0] for e in log if e[0] == "<Thread>.join"]
            for t in th:
                if t not in joined:
                    join.add(f"with worker events {sched} run() returns although a started thread was never joined: its last results may still be in flight")
            for t in joined:
                if t not in th:
                    join.add("join() is called on something that is not a started worker thread")
            gets = [e for e in log if e[0] == "<Queue>.get"]
            if len(gets) != len(sched):
                join.add(f"with worker events {sched} run() returns after {len(gets)} of {len(sched)} events: events still queued are never delivered")
            # pipeline
            queues = {e[1][0] for e in gets}
            if len(queues) != 1:
                pipeline.add("run() does not wait on exactly one queue")
            for i, (t, (target, args)) in enumerate(zip(th, parts)):
                if args is None or len(args) != 3:
                    continue
                pres = args[1]
                if not stream:
                    want_inner = lambda v: _is_new(v, "ThreadsafeForwardingResult") and v[2][:1] == (RESULT,) and len(v[2]) == 2 and _is_new(v[2][1], "Semaphore") and v[2][1][2] == (("const", 1),)
                    if not (_is_new(pres, "_wrap_result") and len(pres[2]) == 2 and want_inner(pres[2][0]) and pres[2][1] == ("const", i)):
                        pipeline.add(f"worker {i} reports through {_short(pres)}; expected self._wrap_result(ThreadsafeForwardingResult(result, Semaphore(1)), {i})")
                    if args[2] not in queues:
                        pipeline.add("a worker is given a queue that run() does not wait on")
                else:
                    stq = pres[2][0][2][0] if (_is_new(pres, "ExtendedToStreamDecorator") and len(pres[2]) == 1 and _is_new(pres[2][0], "TimestampingStreamResult") and len(pres[2][0][2]) == 1) else None
                    rc = (RC_A, RC_B)[i] if i < 2 else None
                    if not (_is_new(stq, "StreamToQueue") and len(stq[2]) == 2 and stq[2][0] in queues and stq[2][1] == rc):
                        pipeline.add(f"worker {i} reports through {_short(pres)}; expected ExtendedToStreamDecorator(TimestampingStreamResult(StreamToQueue(<the queue run() reads>, <its route code>)))")
                    if args[2] != rc:
                        pipeline.add("a worker thread does not receive its own route code")
            if not stream:
                sems = {_find_new(t, "Semaphore") for t in th}
                if len(sems) != 1:
                    pipeline.add("the workers do not share one semaphore: their results would interleave in the target")
            else:
                want = [tuple((k, v) for k, v in _status_event(ev[1], ev[2])[1] if k != "event") for ev in sched if ev[0] == "status"]
                sent = [e for e in log if e[0] == "res.status"]
                if [tuple(e[2]) for e in sent] != want or any(e[1] for e in sent):
                    forward.add(f"with worker events {sched} the caller's result receives {len(sent)} status events {[dict(e[2]).get('test_id') for e in sent]}; expected the {len(want)} dequeued ones, unchanged, in dequeue order")
                other = [e[0] for e in log if e[0].startswith("res.") and e[0] != "res.status"]
                if other:
                    forward.add(f"run() calls {sorted(set(other))} on the caller's result (workers' startTestRun / stopTestRun must not be forwarded: the caller owns them)")

    def chk(rule, name, problems, n=examined):
        ctx.check(rule, f"{clsname}.run: {name}", run_f, not problems, "; ".join(sorted(problems)), examined=n, construct=f"{Qn}::{name}")

    chk("R-RUN-ONCE", "one started Thread per sub-suite, running the worker wrapper on it", run_once)
    chk("R-JOIN-BEFORE-FORGET", "run() returns only after every started thread was joined and every event consumed; it never waits for an event that cannot come", join)
    chk("R-PIPELINE", "per-worker reporting pipeline over one shared queue" + ("" if stream else " and one shared Semaphore(1)"), pipeline)
    if stream:
        chk("R-PIPELINE", "status events forwarded unchanged in dequeue order; startTestRun / stopTestRun events are not forwarded", forward)
        # a worker is forgotten only on its own stopTestRun: worker 0 stops first, worker 1's later events still arrive
        sched = [("start", 0), ("start", 1), ("stop", 0), ("status", 1, 1), ("status", 1, 2), ("stop", 1)]
        _, res = run_coordinator(ctx, clsname, stream, sched)
        problems = set()
        for r in res:
            log = r.state.get("ev.calls", ())
            sent = [dict(e[2]).get("test_id") for e in log if e[0] == "res.status"]
            joins = [i for i, e in enumerate(log) if e[0] == "<Thread>.join"]
            th = [e[1][0] for e in log if e[0] == "<Thread>.start"]
            if r.kind != "val" or sent != [("sym", "id-1-1"), ("sym", "id-1-2")]:
                problems.add(f"after worker 0 stopped, worker 1's events are delivered as {sent} (outcome {r.kind})")
            elif len(joins) != 2 or [log[i][1][0] for i in joins] != [th[0], th[1]]:
                problems.add("the thread joined on a stopTestRun event is not the one of the worker that sent it")
            else:
                gets = [i for i, e in enumerate(log) if e[0] == "<Queue>.get"]
                if not (gets[2] < joins[0] < gets[3]):
                    problems.add("a worker is not joined when its own stopTestRun event arrives")
        chk("R-PIPELINE", "a worker is forgotten (and joined) only on its own stopTestRun event", problems, len(res))
        # unknown events are rejected -- and rejecting them aborts the run like any other error
        _, res = run_coordinator(ctx, clsname, stream, [("start", 0), ("unknown", 0), ("stop", 0), ("stop", 1)])
        problems = set()
        for r in res:
            if not (r.kind == "exc" and r.value[:2] == ("exc", "ValueError")):
                problems.add(f"an event of unknown kind is not rejected with ValueError (outcome {r.kind} {r.value if r.kind == 'exc' else ''})")
        chk("R-PIPELINE", "unknown events rejected", problems, len(res))

    # an interrupt at each external call of each schedule
    abort, register, swallowed = set(), set(), set()
    n_runs = 0
    for sched in schedules[:2]:
        for k in range(n_ext + 1):
            _, res = run_coordinator(ctx, clsname, stream, sched, interrupt_at=k)
            for r in res:
                log = r.state.get("ev.calls", ())
                hit = [i for i, e in enumerate(log) if e[3] == "interrupt"]
                if not hit:
                    continue
                n_runs += 1
                at = log[hit[0]]
                where = f"an interrupt during {at[0].strip('<>').replace('>', '')} (external call #{k}, worker events {sched})"
                if not (r.kind == "exc" and r.value == INTERRUPT):
                    swallowed.add(f"{where} does not propagate out of run() (outcome: {r.kind} {r.value if r.kind == 'exc' else ''})")
                before, after = log[: hit[0] + 1], log[hit[0] + 1:]
                th = [e[1][0] for e in before if e[0] == "<Thread>.start"]
                done = [e[1][0] for e in before if e[0] == "<Thread>.join" and e[3] == "ok"]
                stopped = [e[1][0] for e in after if e[0].endswith(".stop")]
                consumed = sched[: sum(1 for e in before if e[0] == "<Queue>.get" and e[3] == "ok")]
                finished = {ev[1] for ev in consumed if ev[0] in ("done", "stop")}   # these workers have signalled completion: nothing left to stop
                for wi, t in enumerate(th):
                    _, args = _thread_parts(t)
                    pres = args[1] if args and len(args) > 1 else None
                    if t in done or wi in finished:
                        continue
                    if pres not in stopped:
                        if at[0] == "<Thread>.start" and at[1][0] == t:
                            register.add(f"{where}: the thread being started is not yet registered, so the abort handler cannot tell its worker to stop")
                        else:
                            abort.add(f"{where}: a worker that was started and has not finished is not told to stop")
    if n_runs < 4:
        raise AnalysisError(f"{clsname}.run: the interrupt scenarios did not reach the external calls (model broken?)")
    chk("R-REGISTER-BEFORE-START", "a worker is registered before its thread is started", register, n_runs)
    chk("R-ABORT-STOPS-ALL", "on an interrupt every worker that was started and has not signalled completion is told to stop", abort, n_runs)
    chk("R-ABORT-STOPS-ALL", "the interrupt propagates out of run()", swallowed, n_runs)


def _short(v, depth=0):
    if _is_new(v):
        return f"{v[1]}({', '.join(_short(x, depth + 1) for x in v[2])})" if depth < 4 else v[1] + "(...)"
    if isinstance(v, tuple) and v[:1] == ("const",):
        return repr(v[1])
    if isinstance(v, tuple) and v[:1] in (("wobj",), ("sym",)):
        return f"<{v[1]}>"
    return "?"


def run(ctx):
    ctx.rule("R-WORKER-SIGNAL", "worker signals completion on every path out of the sub-suite's run()")
    ctx.rule("R-BROKEN-RUNNER", "a crashing sub-suite is reported as an errored broken-runner test")
    ctx.rule("R-RUN-ONCE", "each sub-suite of make_tests is run exactly once in its own thread")
    ctx.rule("R-REGISTER-BEFORE-START", "bookkeeping entry stored before the thread is started")
    ctx.rule("R-JOIN-BEFORE-FORGET", "run() ends only when every started worker was joined; it never waits for more completions than there are workers")
    ctx.rule("R-ABORT-STOPS-ALL", "an abort stops every started worker and re-raises")
    ctx.rule("R-PIPELINE", "per-worker reporting pipeline and event forwarding are as documented")
    for clsname, stream in (("ConcurrentTestSuite", False), ("ConcurrentStreamTestSuite", True)):
        check_worker(ctx, clsname, stream)
        check_coordinator(ctx, clsname, stream)
    ctx.floor("R-WORKER-SIGNAL", 4)
    ctx.floor("R-BROKEN-RUNNER", 8)
    ctx.floor("R-JOIN-BEFORE-FORGET", 2)
    ctx.floor("R-ABORT-STOPS-ALL", 4)
    ctx.floor("R-PIPELINE", 5)
    ctx.note("frozen exception: process_result.startTestRun() precedes the try in ConcurrentStreamTestSuite._run_test "
             "(it only reaches Queue.put on an unbounded queue; the property speaks of the sub-suite's run() raising)")
    ctx.assume("Thread.join() returns only when the worker function has returned; Queue is unbounded and thread-safe; "
               "make_tests yields its sub-suites without raising (an iterator that raises mid-way is the abort path with fewer workers)")
