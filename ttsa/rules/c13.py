"""C13 -- concurrent suites run every test once, deliver every event, terminate.

Join / signal / abort discipline of ConcurrentTestSuite and
ConcurrentStreamTestSuite, decided on the exceptional CFG.  Interleavings are
not explored: the rules establish the discipline that makes them irrelevant.
"""

import ast

from ..astutil import attr_chain, dotted, norm, walk_shallow
from ..cfg import handler_is_catch_all, handler_names, live_nodes, node_calls
from ..loader import AnalysisError
from .common import TESTSUITE, cfg_of, has_kw, kw_value, nodes_calling, own_method

EXPLANATION = (
    "Join/signal/abort discipline of testtools.testsuite.ConcurrentTestSuite and "
    "ConcurrentStreamTestSuite on the exceptional CFG: R-WORKER-SIGNAL (every path out of the "
    "sub-suite's run() in the worker, normal or exceptional, passes the completion signal), "
    "R-BROKEN-RUNNER (run() sits under a handler for Exception that reports an ErrorHolder named "
    "broken-runner with sys.exc_info() to the same per-worker result), R-RUN-ONCE (one Thread per "
    "element of make_tests' iteration, target = the worker wrapper, which calls run() once), "
    "R-REGISTER-BEFORE-START and R-JOIN-BEFORE-FORGET (bookkeeping stored before start(); the wait "
    "loop runs while bookkeeping is non-empty and forgets an entry only together with join()), "
    "R-ABORT-STOPS-ALL (thread creation and the wait loop lie in a try whose catch-all handler "
    "stops every remaining per-worker result and re-raises), R-PIPELINE (one shared Semaphore(1) / "
    "the ExtendedToStream(Timestamping(StreamToQueue)) pipeline per worker; the dequeue loop forwards "
    "every status event in dequeue order, forgets a worker only on its stopTestRun event and rejects "
    "unknown events). Schedules themselves and liveness of user code are not decided."
)


def _loop_over(func, name):
    for n in walk_shallow(func, include_self=False):
        if isinstance(n, ast.For) and dotted(n.iter) == name:
            return n
        if isinstance(n, ast.For) and isinstance(n.iter, ast.Call) and dotted(n.iter.func) == "enumerate" and n.iter.args and dotted(n.iter.args[0]) == name:
            return n
    return None


def _contains(outer, inner):
    return any(x is inner for x in ast.walk(outer))


def check_suite(ctx, clsname, stream):
    cls = ctx.classes.get(TESTSUITE, clsname)
    run_f = own_method(ctx, TESTSUITE, clsname, "run")
    worker = own_method(ctx, TESTSUITE, clsname, "_run_test")
    Q = f"{TESTSUITE}:{clsname}"

    def chk(rule, name, ok, msg, node=None, path=None, fn="run"):
        ctx.check(rule, f"{clsname}.{fn}: {name}", node if node is not None else (run_f if fn == "run" else worker),
                  bool(ok), msg, path=path, construct=f"{Q}.{fn}::{name}")

    # ---------------------------------------------------------------- worker wrapper
    wcfg = cfg_of(ctx, worker)
    wlive = live_nodes(wcfg)
    wparams = [a.arg for a in worker.args.args[1:]]
    test_p, res_p = wparams[0], wparams[1]
    run_nodes = nodes_calling(wcfg, lambda c: dotted(c.func) == f"{test_p}.run", wlive)
    chk("R-RUN-ONCE", "sub-suite run() called exactly once", len(run_nodes) == 1,
        f"expected exactly one {test_p}.run(...) call, found {len(run_nodes)}", fn="_run_test")
    if len(run_nodes) != 1:
        raise AnalysisError(f"anchor vanished: {clsname}._run_test no longer calls {test_p}.run once")
    rn = run_nodes[0]
    rcall = [c for c in node_calls(wcfg.nodes[rn]) if dotted(c.func) == f"{test_p}.run"][0]
    chk("R-RUN-ONCE", "sub-suite runs against the per-worker result", rcall.args and dotted(rcall.args[0]) == res_p,
        f"{norm(rcall)} does not receive the per-worker result {res_p}", node=rcall, fn="_run_test")
    in_loop = any(isinstance(p, (ast.For, ast.While)) for p in _ancestors(rcall, worker))
    chk("R-RUN-ONCE", "run() not inside a loop", not in_loop, "the sub-suite's run() is inside a loop", fn="_run_test")
    if stream:
        signal = lambda c: dotted(c.func) == f"{res_p}.stopTestRun"
        sig_txt = f"{res_p}.stopTestRun()"
    else:
        q_p = wparams[2]
        signal = lambda c: dotted(c.func) == f"{q_p}.put" and c.args and dotted(c.args[0]) == test_p
        sig_txt = f"{q_p}.put({test_p})"
    sig_nodes = nodes_calling(wcfg, signal, wlive)
    esc = wcfg.escape_path(wcfg.after(rn, exclude=()), set(sig_nodes))
    chk("R-WORKER-SIGNAL", "completion signal on every path out of run()", bool(sig_nodes) and esc is None,
        f"a path leaves {test_p}.run() without {sig_txt}: the coordinating thread would wait for ever",
        path=wcfg.describe_path(esc) if esc else None, fn="_run_test")
    # signal is the last thing: nothing is sent to the result after it
    after_sig = set()
    for s in sig_nodes:
        after_sig |= set(wcfg.reach(wcfg.after(s)))
    late = [n for n in after_sig if any(dotted(c.func) and dotted(c.func).startswith(res_p + ".") for c in node_calls(wcfg.nodes[n])) and n not in sig_nodes]
    chk("R-WORKER-SIGNAL", "no event emitted after the completion signal", not late,
        "the worker talks to its result after signalling completion (the event may be dropped)", fn="_run_test")
    # broken runner
    tries = [p for p in _ancestors(rcall, worker) if isinstance(p, ast.Try) and _contains_in_body(p, rcall)]
    handler = None
    for t in tries:
        for h in t.handlers:
            names = handler_names(h)
            if any(n.split(".")[-1] in ("Exception", "BaseException", "<bare>") for n in names):
                handler = h
                break
        if handler:
            break
    chk("R-BROKEN-RUNNER", "run() guarded by a handler for Exception", handler is not None,
        "a sub-suite whose run() raises is no longer caught: the worker dies and its tests are lost", fn="_run_test")
    if handler is not None:
        holder = None
        for c in walk_shallow(handler):
            if isinstance(c, ast.Call) and (dotted(c.func) or "").split(".")[-1] == "ErrorHolder":
                holder = c
        ok_id = ok_err = ok_run = False
        if holder is not None:
            idarg = holder.args[0] if holder.args else kw_value(holder, "test_id")
            text = ""
            if isinstance(idarg, ast.Constant) and isinstance(idarg.value, str):
                text = idarg.value
            elif isinstance(idarg, ast.JoinedStr) and idarg.values and isinstance(idarg.values[0], ast.Constant):
                text = idarg.values[0].value
            ok_id = text.startswith("broken-runner")
            err = kw_value(holder, "error") or (holder.args[1] if len(holder.args) > 1 else None)
            ok_err = isinstance(err, ast.Call) and dotted(err.func) == "sys.exc_info"
            # the holder is run against the same per-worker result
            var = None
            p = getattr(holder, "_parent", None)
            if isinstance(p, ast.Assign) and isinstance(p.targets[0], ast.Name):
                var = p.targets[0].id
            for c in walk_shallow(handler):
                if isinstance(c, ast.Call) and isinstance(c.func, ast.Attribute) and c.func.attr == "run" and c.args and dotted(c.args[0]) == res_p:
                    if (var and dotted(c.func.value) == var) or c.func.value is holder:
                        ok_run = True
        chk("R-BROKEN-RUNNER", "crash reported as broken-runner ErrorHolder with sys.exc_info()", ok_id and ok_err,
            "the handler must build ErrorHolder('broken-runner...', error=sys.exc_info())", node=handler, fn="_run_test")
        chk("R-BROKEN-RUNNER", "holder run against the same per-worker result", ok_run,
            f"the broken-runner holder is not run against {res_p}", node=handler, fn="_run_test")

    # ---------------------------------------------------------------- coordinating run()
    cfg = cfg_of(ctx, run_f)
    live = live_nodes(cfg)
    res_param = run_f.args.args[1].arg
    # make_tests called once, its result iterated
    mk = [n for n in walk_shallow(run_f, include_self=False) if isinstance(n, ast.Call) and dotted(n.func) == "self.make_tests"]
    tests_var = None
    if len(mk) == 1 and isinstance(getattr(mk[0], "_parent", None), ast.Assign):
        t = mk[0]._parent.targets[0]
        if isinstance(t, ast.Name):
            tests_var = t.id
    chk("R-RUN-ONCE", "make_tests called once", tests_var is not None, "make_tests is not called exactly once with its result kept")
    loop = _loop_over(run_f, tests_var) if tests_var else None
    if loop is None:
        raise AnalysisError(f"anchor vanished: {clsname}.run has no loop over the result of make_tests")
    # Thread construction
    threads_new = [c for c in walk_shallow(loop) if isinstance(c, ast.Call) and dotted(c.func) in ("threading.Thread", "Thread")]
    chk("R-RUN-ONCE", "one Thread per sub-suite", len(threads_new) == 1 and not _conditional_in(loop, threads_new[0] if threads_new else None),
        "the loop over make_tests' result does not create exactly one Thread per element unconditionally", node=loop)
    if len(threads_new) != 1:
        raise AnalysisError(f"anchor vanished: {clsname}.run thread construction")
    tcall = threads_new[0]
    tvar = tcall._parent.targets[0].id if isinstance(getattr(tcall, "_parent", None), ast.Assign) and isinstance(tcall._parent.targets[0], ast.Name) else None
    target = kw_value(tcall, "target")
    targs = kw_value(tcall, "args")
    loop_vars = [n.id for n in ast.walk(loop.target) if isinstance(n, ast.Name)]
    ok_target = dotted(target) == "self._run_test"
    argnames = [dotted(e) for e in targs.elts] if isinstance(targs, ast.Tuple) else []
    chk("R-RUN-ONCE", "thread target is the worker wrapper with this sub-suite", ok_target and argnames and argnames[0] in loop_vars and len(argnames) == len(wparams),
        f"Thread(target={norm(target)}, args={norm(targs)}) does not run self._run_test on the loop's sub-suite", node=tcall)
    presult_var = argnames[1] if len(argnames) > 1 else None
    # bookkeeping
    book = None
    book_store = None
    for n in walk_shallow(loop):
        if isinstance(n, ast.Assign) and isinstance(n.targets[0], ast.Subscript) and isinstance(n.value, ast.Tuple):
            names = [dotted(e) for e in n.value.elts]
            if tvar in names and presult_var in names:
                book = dotted(n.targets[0].value)
                book_store = n
                idx_thread, idx_result = names.index(tvar), names.index(presult_var)
    chk("R-REGISTER-BEFORE-START", "bookkeeping entry (thread, result) stored", book is not None,
        "the loop no longer records (thread, per-worker result) for each started worker", node=loop)
    if book is None:
        raise AnalysisError(f"anchor vanished: {clsname}.run bookkeeping")
    start_nodes = nodes_calling(cfg, lambda c: dotted(c.func) == f"{tvar}.start", live)
    store_nodes = [i for i in cfg.nodes_for(book_store) if i in live]
    chk("R-REGISTER-BEFORE-START", "start() called once per thread", len(start_nodes) == 1, f"expected one {tvar}.start() call")
    if start_nodes:
        chk("R-REGISTER-BEFORE-START", "entry stored before start()", cfg.dominated_by(start_nodes[0], set(store_nodes)),
            "a worker can be started before it is registered: an abort between would leave it running un-stopped")
        esc = cfg.escape_path(cfg.after(store_nodes[0]), set(start_nodes), targets=[n.id for n in cfg.nodes if n.kind == "for" and n.ast is loop])
        chk("R-REGISTER-BEFORE-START", "every registered thread is started", esc is None,
            "a registered worker may never be started: the wait loop would block for ever",
            path=cfg.describe_path(esc) if esc else None)
    # wait loop
    waits = [n for n in walk_shallow(run_f, include_self=False) if isinstance(n, ast.While) and dotted(n.test) == book]
    chk("R-JOIN-BEFORE-FORGET", "wait loop runs while bookkeeping is non-empty", len(waits) == 1,
        f"expected one `while {book}:` wait loop")
    if len(waits) != 1:
        raise AnalysisError(f"anchor vanished: {clsname}.run wait loop")
    wait = waits[0]
    wtest = [n.id for n in cfg.nodes if n.kind == "test" and n.ast is wait and n.id in live]
    removals = []
    for n in walk_shallow(wait):
        if isinstance(n, ast.Delete):
            for t in n.targets:
                if isinstance(t, ast.Subscript) and dotted(t.value) == book:
                    removals.append(n)
        if isinstance(n, ast.Call) and dotted(n.func) in (f"{book}.pop", f"{book}.popitem", f"{book}.clear"):
            removals.append(n)
    chk("R-JOIN-BEFORE-FORGET", "entries are forgotten inside the wait loop", len(removals) >= 1, "the wait loop never removes an entry", node=wait)
    join_nodes = nodes_calling(cfg, lambda c: isinstance(c.func, ast.Attribute) and c.func.attr == "join", live)
    for r in removals:
        rnodes = [i for i in cfg.nodes_for(r) if i in live]
        ok = False
        if not ok:
            # join after removal: every normal path from the removal back to the loop test passes a join
            ok = all(cfg.escape_path(cfg.after(rn_), set(join_nodes), targets=wtest + [cfg.exit_return]) is None for rn_ in rnodes) and bool(join_nodes)
        if not ok:
            # join before removal within the same iteration: removal not reachable from the loop test without a join
            seen = cfg.reach([b for w in wtest for b, k in cfg.succ[w] if k == "true"], avoid=set(join_nodes))
            ok = bool(join_nodes) and not any(rn_ in seen for rn_ in rnodes)
        chk("R-JOIN-BEFORE-FORGET", f"removal `{norm(r)[:50]}` paired with join()", ok,
            "a worker can be forgotten without its thread having been joined: run() may return while it still runs", node=r)
    # joined thread is the one of the forgotten entry
    for jn in join_nodes:
        for c in node_calls(cfg.nodes[jn]):
            if isinstance(c.func, ast.Attribute) and c.func.attr == "join":
                recv = c.func.value
                ok = False
                if isinstance(recv, ast.Subscript) and isinstance(recv.slice, ast.Constant) and recv.slice.value == idx_thread:
                    ok = True
                elif isinstance(recv, ast.Name):
                    # local bound from entry[idx_thread]
                    for a in walk_shallow(wait):
                        if isinstance(a, ast.Assign) and any(dotted(t) == recv.id for t in a.targets) and isinstance(a.value, ast.Subscript) and isinstance(a.value.slice, ast.Constant) and a.value.slice.value == idx_thread:
                            ok = True
                chk("R-JOIN-BEFORE-FORGET", "join() is called on the thread component of the entry", ok,
                    f"{norm(c)} is not the thread stored at position {idx_thread} of the bookkeeping entry", node=c)

    # abort handling
    enclosing = [p for p in _ancestors(wait, run_f) if isinstance(p, ast.Try) and _contains_in_body(p, wait)]
    t = enclosing[0] if enclosing else None
    ok_scope = t is not None and _contains_in_body(t, loop)
    chk("R-ABORT-STOPS-ALL", "thread creation and wait loop inside one try", ok_scope,
        "the loop that starts workers (which also advances make_tests' iterator) and the wait loop are not under one try")
    if t is not None:
        ca = [h for h in t.handlers if handler_is_catch_all(h)]
        chk("R-ABORT-STOPS-ALL", "handler is catch-all (bare / BaseException)", len(ca) == 1 and t.handlers[0] is ca[0],
            f"abort handler catches {[handler_names(h) for h in t.handlers]}: KeyboardInterrupt would leave workers running", node=t)
        if ca:
            h = ca[0]
            stops = False
            for lp in walk_shallow(h):
                if isinstance(lp, ast.For) and isinstance(lp.iter, ast.Call) and dotted(lp.iter.func) in (f"{book}.values", f"{book}.items"):
                    tgt = lp.target
                    if dotted(lp.iter.func).endswith(".items") and isinstance(tgt, ast.Tuple) and len(tgt.elts) == 2:
                        tgt = tgt.elts[1]
                    name = None
                    if isinstance(tgt, ast.Tuple) and len(tgt.elts) > idx_result:
                        name = dotted(tgt.elts[idx_result])
                    for c in walk_shallow(lp):
                        if isinstance(c, ast.Call) and isinstance(c.func, ast.Attribute) and c.func.attr == "stop":
                            recv = c.func.value
                            if name and dotted(recv) == name:
                                stops = True
                            if isinstance(recv, ast.Subscript) and isinstance(recv.slice, ast.Constant) and recv.slice.value == idx_result:
                                stops = True
                    if any(isinstance(x, (ast.Break, ast.Return)) for x in walk_shallow(lp)):
                        stops = False
            chk("R-ABORT-STOPS-ALL", "handler stops every remaining per-worker result", stops,
                f"the abort handler does not call stop() on the result component of every entry of {book}", node=h)
            hn = [n.id for n in cfg.nodes if n.kind == "handler" and n.ast is h and n.id in live]
            bare = [n for n in walk_shallow(h) if isinstance(n, ast.Raise) and n.exc is None]
            esc = cfg.escape_path(hn, set(), targets=[cfg.exit_return]) if hn else [0]
            chk("R-ABORT-STOPS-ALL", "handler re-raises", bool(bare) and esc is None,
                "the abort handler can complete without re-raising: the interrupt / error would be swallowed",
                node=h, path=cfg.describe_path(esc) if esc and hn else None)
    # pipeline
    if not stream:
        sems = [n for n in walk_shallow(run_f, include_self=False) if isinstance(n, ast.Call) and dotted(n.func) in ("threading.Semaphore", "Semaphore")]
        ok = len(sems) == 1 and not _contains(loop, sems[0]) and len(sems[0].args) == 1 and isinstance(sems[0].args[0], ast.Constant) and sems[0].args[0].value == 1
        chk("R-PIPELINE", "one Semaphore(1) shared by all workers", ok, "expected exactly one threading.Semaphore(1) created outside the loop")
        svar = sems[0]._parent.targets[0].id if sems and isinstance(getattr(sems[0], "_parent", None), ast.Assign) else None
        tfr = [c for c in walk_shallow(loop) if isinstance(c, ast.Call) and (dotted(c.func) or "").split(".")[-1] == "ThreadsafeForwardingResult"]
        ok = len(tfr) == 1 and len(tfr[0].args) == 2 and dotted(tfr[0].args[0]) == res_param and dotted(tfr[0].args[1]) == svar
        chk("R-PIPELINE", "each worker reports through ThreadsafeForwardingResult(result, shared semaphore)", ok,
            "per-worker result is not ThreadsafeForwardingResult(<run's result>, <the shared semaphore>)", node=tfr[0] if tfr else loop)
        # the process_result handed to the thread derives from that TFR
        ok = False
        for a in walk_shallow(loop):
            if isinstance(a, ast.Assign) and dotted(a.targets[0]) == presult_var and tfr and _contains(a.value, tfr[0]):
                ok = True
        chk("R-PIPELINE", "thread receives the thread-safe result", ok, f"{presult_var} is not built from the ThreadsafeForwardingResult")
        # completion event comes from the queue the workers signal on
        qs = [n for n in walk_shallow(run_f, include_self=False) if isinstance(n, ast.Call) and dotted(n.func) in ("Queue", "queue.Queue")]
        qvar = qs[0]._parent.targets[0].id if len(qs) == 1 and isinstance(getattr(qs[0], "_parent", None), ast.Assign) else None
        ok = qvar is not None and not _contains(loop, qs[0]) and qvar in argnames
        chk("R-PIPELINE", "one completion queue shared with every worker", ok, "completion queue not shared with the workers")
        gets = [c for c in walk_shallow(wait) if isinstance(c, ast.Call) and dotted(c.func) == f"{qvar}.get"]
        chk("R-PIPELINE", "wait loop blocks on the completion queue", len(gets) == 1, "the wait loop does not block on the completion queue", node=wait)
    else:
        qs = [n for n in walk_shallow(run_f, include_self=False) if isinstance(n, ast.Call) and dotted(n.func) in ("Queue", "queue.Queue")]
        qvar = qs[0]._parent.targets[0].id if len(qs) == 1 and isinstance(getattr(qs[0], "_parent", None), ast.Assign) else None
        chk("R-PIPELINE", "one event queue shared by all workers", qvar is not None and not _contains(loop, qs[0]), "expected one Queue() created outside the loop")
        stq = [c for c in walk_shallow(loop) if isinstance(c, ast.Call) and (dotted(c.func) or "").split(".")[-1] == "StreamToQueue"]
        ok = len(stq) == 1 and len(stq[0].args) == 2 and dotted(stq[0].args[0]) == qvar and dotted(stq[0].args[1]) in loop_vars
        chk("R-PIPELINE", "per-worker StreamToQueue(queue, that worker's route code)", ok, "StreamToQueue is not built from the shared queue and the loop's route code", node=stq[0] if stq else loop)
        stq_var = stq[0]._parent.targets[0].id if stq and isinstance(getattr(stq[0], "_parent", None), ast.Assign) else None
        ok = False
        for a in walk_shallow(loop):
            if isinstance(a, ast.Assign) and dotted(a.targets[0]) == presult_var:
                v = a.value
                if isinstance(v, ast.Call) and (dotted(v.func) or "").split(".")[-1] == "ExtendedToStreamDecorator" and len(v.args) == 1:
                    inner = v.args[0]
                    if isinstance(inner, ast.Call) and (dotted(inner.func) or "").split(".")[-1] == "TimestampingStreamResult" and len(inner.args) == 1:
                        if dotted(inner.args[0]) == stq_var or inner.args[0] is (stq[0] if stq else None):
                            ok = True
        chk("R-PIPELINE", "per-worker pipeline ExtendedToStream(Timestamping(StreamToQueue))", ok,
            "per-worker result is not ExtendedToStreamDecorator(TimestampingStreamResult(<that worker's StreamToQueue>))")
        # bookkeeping key is the StreamToQueue (what stopTestRun events carry as 'result')
        key_ok = isinstance(book_store.targets[0], ast.Subscript) and dotted(book_store.targets[0].slice) == stq_var
        chk("R-PIPELINE", "bookkeeping keyed by the worker's StreamToQueue", key_ok, "bookkeeping key is not the object that stopTestRun events carry")
        gets = [c for c in walk_shallow(wait) if isinstance(c, ast.Call) and dotted(c.func) == f"{qvar}.get"]
        evar = gets[0]._parent.targets[0].id if len(gets) == 1 and isinstance(getattr(gets[0], "_parent", None), ast.Assign) else None
        chk("R-PIPELINE", "wait loop dequeues one event per iteration", evar is not None, "the wait loop does not dequeue events from the shared queue", node=wait)
        # dispatch
        kind_var = None
        for a in walk_shallow(wait):
            if isinstance(a, ast.Assign) and isinstance(a.value, ast.Call) and dotted(a.value.func) == f"{evar}.pop" and a.value.args and isinstance(a.value.args[0], ast.Constant) and a.value.args[0].value == "event":
                kind_var = a.targets[0].id if isinstance(a.targets[0], ast.Name) else None
        chk("R-PIPELINE", "event kind popped from the event dict", kind_var is not None, "the event kind is not removed from the dict before it is forwarded (status() would get an unexpected 'event' keyword)")
        arms = {}
        else_raises = False
        node = None
        for n in wait.body:
            if isinstance(n, ast.If):
                node = n
        cur = node
        while isinstance(cur, ast.If):
            tst = cur.test
            if isinstance(tst, ast.Compare) and dotted(tst.left) == kind_var and len(tst.ops) == 1 and isinstance(tst.ops[0], ast.Eq) and isinstance(tst.comparators[0], ast.Constant):
                arms[tst.comparators[0].value] = cur.body
            if len(cur.orelse) == 1 and isinstance(cur.orelse[0], ast.If):
                cur = cur.orelse[0]
            else:
                else_raises = any(isinstance(x, ast.Raise) for s in cur.orelse for x in walk_shallow(s))
                cur = None
        fwd = False
        for s in arms.get("status", []):
            for c in walk_shallow(s):
                if isinstance(c, ast.Call) and dotted(c.func) == f"{res_param}.status" and not c.args and len(c.keywords) == 1 and c.keywords[0].arg is None and dotted(c.keywords[0].value) == evar:
                    fwd = True
        chk("R-PIPELINE", "status events forwarded unchanged to the caller's result", fwd,
            f"the 'status' arm does not call {res_param}.status(**{evar})")
        stop_arm = arms.get("stopTestRun", [])
        rem_in_stop = all(any(_contains(s, r) for s in stop_arm) for r in removals) and bool(removals)
        chk("R-PIPELINE", "a worker is forgotten only on its own stopTestRun event", rem_in_stop,
            "bookkeeping entries are removed outside the 'stopTestRun' arm: later events of that worker could be dropped")
        key_from_event = any(isinstance(x, ast.Subscript) and dotted(x.value) == evar and isinstance(x.slice, ast.Constant) and x.slice.value == "result" for s in stop_arm for x in ast.walk(s))
        chk("R-PIPELINE", "forgotten worker identified by the event's 'result'", key_from_event, "the stopTestRun arm does not use the event's 'result' key")
        chk("R-PIPELINE", "unknown events rejected", else_raises, "unknown event kinds are silently ignored")
        chk("R-PIPELINE", "startTestRun events are filtered", "startTestRun" in arms and not any(isinstance(x, ast.Call) for s in arms.get("startTestRun", []) for x in walk_shallow(s)),
            "startTestRun events from workers must not be forwarded (the caller owns startTestRun)")
    return cls


def _ancestors(node, stop):
    out = []
    n = getattr(node, "_parent", None)
    while n is not None and n is not stop:
        out.append(n)
        n = getattr(n, "_parent", None)
    return out


def _contains_in_body(trynode, node):
    return any(_contains(s, node) for s in trynode.body)


def _conditional_in(loop, node):
    if node is None:
        return True
    return any(isinstance(p, (ast.If, ast.Try, ast.While)) for p in _ancestors(node, loop))


def run(ctx):
    ctx.rule("R-WORKER-SIGNAL", "worker signals completion on every path out of the sub-suite's run()")
    ctx.rule("R-BROKEN-RUNNER", "a crashing sub-suite is reported as an errored broken-runner test")
    ctx.rule("R-RUN-ONCE", "each sub-suite of make_tests is run exactly once in its own thread")
    ctx.rule("R-REGISTER-BEFORE-START", "bookkeeping entry stored before the thread is started")
    ctx.rule("R-JOIN-BEFORE-FORGET", "wait loop runs until bookkeeping is empty; an entry is forgotten only with join()")
    ctx.rule("R-ABORT-STOPS-ALL", "catch-all abort handler stops every started worker and re-raises")
    ctx.rule("R-PIPELINE", "per-worker reporting pipeline and event forwarding are as documented")
    check_suite(ctx, "ConcurrentTestSuite", stream=False)
    check_suite(ctx, "ConcurrentStreamTestSuite", stream=True)
    ctx.floor("R-WORKER-SIGNAL", 4)
    ctx.floor("R-BROKEN-RUNNER", 6)
    ctx.floor("R-JOIN-BEFORE-FORGET", 8)
    ctx.floor("R-ABORT-STOPS-ALL", 8)
    ctx.note("frozen exception: process_result.startTestRun() precedes the try in ConcurrentStreamTestSuite._run_test "
             "(it only reaches Queue.put on an unbounded queue; the property speaks of the sub-suite's run() raising)")
    ctx.assume("Thread.join() returns only when the worker function has returned; Queue is unbounded and thread-safe")
