"""C20 -- Deferred matchers classify fired / failed / unfired without firing anything.

on_deferred_result, extract_result, the three matchers and SynchronousDeferredRunTest._run_user are interpreted
abstractly with Twisted's Deferred chains as abstract values (rules/deferredmodel.py), once per state the
matchee can be in (not fired, fired with a value, failed) and per answer of the inner matcher.  The rules read
which callback was invoked with what, what is returned, and what the matchee's state and callback queue are
afterwards -- including what a callback added *after* matching would see.
"""

import ast

from .. import effects
from ..absint import NONE, State
from ..astutil import FUNC_TYPES, dotted, norm
from ..loader import AnalysisError, _annotate
from .common import TWRUNTEST, module_function
from .deferredmodel import USER_EXC, USER_VALUE, DeferredDomain, is_dfr, is_failure, userfn

EXPLANATION = (
    "Abstract runs with Deferred chains as values. R-THREEWAY: on_deferred_result(d, on_success, on_failure, "
    "on_no_result) for d not fired / fired with V / failed with F calls exactly one of the three -- "
    "on_no_result(d), on_success(d, V), on_failure(d, F) -- and returns its answer. R-PASSIVE-CALLBACKS: "
    "afterwards d is in the state it was in: still unfired (and a value it is fired with later reaches later "
    "callbacks unchanged through the capture callbacks), still holding V, still holding F; nothing fired it. "
    "R-NOBODY-FIRES: no call of callback / errback / cancel / chainDeferred on a Deferred in _matchers.py and "
    "_deferred.py (expected count 0, with an embedded positive example). R-MATCHER-TABLES: has_no_result / "
    "succeeded(m) / failed(m) per state and per answer of m: None only for the matching state (and m's own answer, "
    "m being asked with V resp. F exactly once), a Mismatch otherwise -- so with Always() exactly one of the three "
    "matches; a successful result and an unfired Deferred are left intact. R-HANDLED-SIBLINGS: a failure inspected "
    "by succeeded() or failed() is consumed (the Deferred no longer holds a failure that would be logged as "
    "unhandled). R-SYNC-RUNNER: extract_result returns V / raises F's exception / raises DeferredNotFired; "
    "SynchronousDeferredRunTest._run_user gives V for a function returning V or a fired Deferred, records the "
    "failure and gives the sentinel for one that raises or returns a failed Deferred; _got_user_failure hands "
    "(type, value, traceback) of the Failure and the label to the recorder and returns its answer."
)

DEF = "testtools.twistedsupport._deferred"
MAT = "testtools.twistedsupport._matchers"
V, F_EXC = ("sym", "the-value"), ("exc", "TheError")
F = ("failure", F_EXC)
V2 = ("sym", "a-later-value")
INNER_DEFERRED = ("sym", "the-nested-deferred")
STATES = {"not fired": ("pending",), "fired with a value": ("ok", V), "failed": ("fail", F), "fired but waiting on a nested Deferred": ("paused", INNER_DEFERRED)}
UNFIRED = ("not fired", "fired but waiting on a nested Deferred")
INNER_MISMATCH = ("sym", "inner-mismatch")

_FIRE_EXAMPLE = """
def match(self, deferred):
    deferred.callback(None)
    return on_deferred_result(deferred, a, b, c)
"""


def firing_calls(tree, names):
    out = []
    for c in ast.walk(tree):
        if isinstance(c, ast.Call) and isinstance(c.func, ast.Attribute) and c.func.attr in ("callback", "errback", "cancel", "chainDeferred"):
            recv = dotted(c.func.value)
            if recv in names or recv is None:
                out.append(c)
        if isinstance(c, ast.Call) and dotted(c.func) in ("defer.succeed", "defer.fail", "succeed", "fail"):
            out.append(c)
    return out


def _with_deferred(outcome):
    """A State holding one Deferred in the given state -> (value, state)."""
    return DeferredDomain.new_dfr(State(), outcome)


def _later_callbacks_see(dom, interp_run, st, dv):
    """Fire the (still unfired) Deferred with V2 afterwards: what does a callback added later see?"""
    return None


def _fire_later(ctx, dom, f, cls, st, dv):
    """States after `dv` -- left unfired by the code under analysis -- is fired with V2 (the queued callbacks run)."""
    from ..absint import Frame, Interp
    it = Interp(dom, max_depth=6)
    outside = ast.parse("def _fired_later():\n    pass").body[0]
    fr = Frame(outside, 0, cls, name="<later>", is_method=False)
    return dom.fire(it, dv, st.set(f"dfr.{dv[1]}", ("ok", V2)), fr)


def check_on_deferred_result(ctx):
    odr = module_function(ctx, DEF, "on_deferred_result")
    params = [a.arg for a in odr.args.args]
    if len(params) != 4:
        raise AnalysisError("anchor vanished: on_deferred_result no longer takes (deferred, on_success, on_failure, on_no_result)")
    CB = {params[1]: ("wobj", "on_success"), params[2]: ("wobj", "on_failure"), params[3]: ("wobj", "on_no_result")}
    for state, outcome in STATES.items():
        dv, st = _with_deferred(outcome)
        dom = DeferredDomain(ctx.classes, attrs={}, log_cap=20)
        res = effects.run(ctx, dom, odr, None, dict(CB, **{params[0]: dv}), state=st, depth=5)
        threeway, passive = set(), set()
        want = {"fired with a value": ("on_success.__call__", (dv, V)), "failed": ("on_failure.__call__", (dv, F))}.get(state, ("on_no_result.__call__", (dv,)))
        for r in res:
            log = r.state.get("ev.calls", ())
            calls_ = [(e[0], e[1]) for e in log if e[0].endswith(".__call__")]
            if calls_ != [want]:
                threeway.add(f"the callbacks invoked are {[(n.split('.')[0], a) for n, a in calls_]}; expected exactly {want[0].split('.')[0]}{want[1]!r}")
            elif r.kind != "val" or r.value != ("ret", want[0].split(".")[0], "__call__"):
                threeway.add(f"the answer of {want[0].split('.')[0]} is not what on_deferred_result returns ({r.kind} {r.value!r})")
            after = dom.result_of(r.state, dv)
            if after != outcome:
                passive.add(f"afterwards the Deferred holds {after!r} instead of {outcome!r}: later callbacks see something else" + (" (it was fired by the matcher)" if outcome == ("pending",) else ""))
            elif state in UNFIRED:
                for s2 in _fire_later(ctx, dom, odr, None, r.state, dv):
                    if dom.result_of(s2, dv) != ("ok", V2):
                        passive.add(f"when the Deferred fires later with a value, later callbacks see {dom.result_of(s2, dv)!r} instead of that value")
        if not res:
            threeway.add("no path explored")
        ctx.check("R-THREEWAY", f"on_deferred_result, Deferred {state}: exactly the matching callback, with the Deferred and its result", odr, not threeway, "; ".join(sorted(threeway)),
                  examined=len(res), construct=f"{DEF}:on_deferred_result::{state}")
        ctx.check("R-PASSIVE-CALLBACKS", f"on_deferred_result, Deferred {state}: the Deferred is left as it was", odr, not passive, "; ".join(sorted(passive)),
                  examined=len(res), construct=f"{DEF}:on_deferred_result::passive {state}")


def check_matchers(ctx):
    expect = {
        # matcher: state -> "none" | "mismatch" | "inner"
        "_NoResult": {"not fired": "none", "fired with a value": "mismatch", "failed": "mismatch", UNFIRED[1]: "none"},
        "_Succeeded": {"not fired": "mismatch", "fired with a value": "inner", "failed": "mismatch", UNFIRED[1]: "mismatch"},
        "_Failed": {"not fired": "mismatch", "fired with a value": "mismatch", "failed": "inner", UNFIRED[1]: "mismatch"},
    }
    for cname, table in expect.items():
        cls = ctx.classes.get(MAT, cname)
        owner, mf = ctx.classes.resolve_method(cls, "match")
        if not isinstance(mf, FUNC_TYPES):
            raise AnalysisError(f"anchor vanished: {cname}.match")
        dparam = mf.args.args[1].arg
        for state, outcome in STATES.items():
            dv, st = _with_deferred(outcome)

            def oracle(n, pos, kw):
                if n == "inner.match":
                    return [("val", NONE, "matches"), ("val", INNER_MISMATCH, "mismatch")]
                return None

            dom = DeferredDomain(ctx.classes, attrs={"self": ("self",), "self._matcher": ("wobj", "inner")}, oracle=oracle, ctors={"Mismatch"}, log_cap=20)
            res = effects.run(ctx, dom, mf, cls, {dparam: dv}, state=st, depth=7)
            table_p, intact, handled = set(), set(), set()
            kind = table[state]
            if not res:
                table_p.add("no path explored")
            for r in res:
                log = r.state.get("ev.calls", ())
                asked = [e for e in log if e[0] == "inner.match"]
                if r.kind != "val":
                    table_p.add(f"match raises {r.value!r}")
                    continue
                if kind == "inner":
                    arg = V if state == "fired with a value" else F
                    if len(asked) != 1 or asked[0][1] != (arg,):
                        table_p.add(f"the inner matcher is asked {len(asked)} time(s) with {[e[1] for e in asked]}; expected once with the Deferred's {'value' if arg == V else 'Failure'}")
                    elif r.value != (NONE if asked[0][3] == "matches" else INNER_MISMATCH):
                        table_p.add(f"the inner matcher answers {asked[0][3]} but match returns {r.value!r}")
                else:
                    if asked:
                        table_p.add("the inner matcher is consulted although the Deferred is not in the state it speaks about")
                    is_mismatch = isinstance(r.value, tuple) and r.value[:2] == ("new", "Mismatch")
                    if kind == "none" and r.value != NONE:
                        table_p.add(f"match returns {r.value!r} instead of None (a match)")
                    if kind == "mismatch" and not is_mismatch:
                        table_p.add(f"match returns {r.value!r} instead of a Mismatch")
                after = dom.result_of(r.state, dv)
                if outcome == ("fail", F):
                    inspected = cname in ("_Succeeded", "_Failed")
                    if inspected and after[0] == "fail":
                        handled.add("the failure inspected by the matcher is still held by the Deferred: it would be logged as unhandled when the Deferred is garbage-collected")
                    if not inspected and after != outcome:
                        intact.add(f"the matcher leaves the failed Deferred as {after!r}")
                elif after != outcome:
                    intact.add(f"afterwards the Deferred holds {after!r} instead of {outcome!r}")
                elif state in UNFIRED:
                    for s2 in _fire_later(ctx, dom, mf, cls, r.state, dv):
                        if dom.result_of(s2, dv) != ("ok", V2):
                            intact.add(f"when the Deferred fires later, later callbacks see {dom.result_of(s2, dv)!r} instead of its value")
            ctx.check("R-MATCHER-TABLES", f"{cname}, Deferred {state}: " + {"none": "matches", "mismatch": "a Mismatch", "inner": "the inner matcher's answer about the result"}[kind], mf,
                      not table_p, "; ".join(sorted(table_p)), examined=len(res), construct=f"{MAT}:{cname}.match::{state}")
            ctx.check("R-PASSIVE-CALLBACKS", f"{cname}, Deferred {state}: the Deferred is left intact for later callbacks", mf, not intact, "; ".join(sorted(intact)), examined=len(res),
                      construct=f"{MAT}:{cname}.match::intact {state}")
            if outcome == ("fail", F) and cname in ("_Succeeded", "_Failed"):
                ctx.check("R-HANDLED-SIBLINGS", f"{cname}: an inspected failure is marked handled", mf, not handled, "; ".join(sorted(handled)), examined=len(res),
                          construct=f"{MAT}:{cname}.match::handled")
    # the public constructors hand out these matchers
    for fname, cname in (("has_no_result", "_NoResult"), ("succeeded", "_Succeeded"), ("failed", "_Failed")):
        f = module_function(ctx, MAT, fname)
        dom = effects.EffectDomain(ctx.classes, attrs={"_NO_RESULT": ("new", "_NoResult", (), ())}, ctors={"_NoResult", "_Succeeded", "_Failed"})
        M = ("sym", "inner-matcher")
        res = effects.run(ctx, dom, f, None, {a.arg: M for a in f.args.args}, state=State(), depth=2)
        want = ("new", cname, (M,) if f.args.args else (), ())
        ok = bool(res) and all(r.kind == "val" and r.value == want for r in res)
        ctx.check("R-MATCHER-TABLES", f"{fname}() builds {cname}" + ("(matcher)" if f.args.args else ""), f, ok, f"{fname} returns {[r.value for r in res]!r}", examined=len(res),
                  construct=f"{MAT}:{fname}::builds")


def check_extract_result(ctx):
    er = module_function(ctx, DEF, "extract_result")
    param = er.args.args[0].arg
    for state, outcome in STATES.items():
        dv, st = _with_deferred(outcome)
        dom = DeferredDomain(ctx.classes, attrs={}, log_cap=10)
        res = effects.run(ctx, dom, er, None, {param: dv}, state=st, depth=4)
        want = {"fired with a value": ("val", V), "failed": ("exc", F_EXC)}.get(state, ("exc", ("exc", "DeferredNotFired")))
        got = sorted({(r.kind, r.value) for r in res}, key=repr)
        problems = set()
        if got != [want]:
            problems.add(f"extract_result {['returns ' + repr(v) if k == 'val' else 'raises ' + repr(v) for k, v in got]}; expected: {'returns the value' if want[0] == 'val' else 'raises ' + repr(want[1])}")
        for r in res:
            if state in UNFIRED and dom.result_of(r.state, dv) != outcome:
                problems.add("extract_result fires a Deferred that had not fired")
        ctx.check("R-SYNC-RUNNER", f"extract_result, Deferred {state}", er, not problems, "; ".join(sorted(problems)), examined=len(res), construct=f"{DEF}:extract_result::{state}")


def check_sync_runner(ctx):
    cls = ctx.classes.get(TWRUNTEST, "SynchronousDeferredRunTest")
    owner, f = ctx.classes.resolve_method(cls, "_run_user")
    if not isinstance(f, FUNC_TYPES):
        raise AnalysisError("anchor vanished: SynchronousDeferredRunTest._run_user")
    SENTINEL = ("sym", "exception_caught")
    for kind, want in (("value", ("val", USER_VALUE, 0)), ("fired-ok", ("val", USER_VALUE, 0)), ("raise", ("val", SENTINEL, 1)), ("fired-fail", ("val", SENTINEL, 1)),
                       ("pending", ("exc", ("exc", "DeferredNotFired"), 0))):
        dom = DeferredDomain(ctx.classes, attrs={"self": ("self",)}, results={"self._got_user_failure": [SENTINEL]}, track=lambda d: d == "self._got_user_failure", log_cap=20)
        res = effects.run(ctx, dom, f, cls, {"function": userfn(kind), "args": ("tuple", ("sym", "arg-1")), "kwargs": ("kwdict", (("k", ("sym", "kw-1")),))}, state=State(), depth=6)
        problems = set()
        if not res:
            problems.add("no path explored")
        for r in res:
            log = r.state.get("ev.calls", ())
            rec = [e for e in log if e[0] == "self._got_user_failure"]
            calls_ = [e for e in log if e[0] == "user-function"]
            if len(calls_) != 1 or calls_[0][1] != (("sym", "arg-1"),) or dict(calls_[0][2]) != {"k": ("sym", "kw-1")}:
                problems.add("the user function is not called once with the given arguments")
            if (r.kind, r.value) != want[:2]:
                problems.add(f"_run_user {'returns' if r.kind == 'val' else 'raises'} {r.value!r}; expected {'the value' if want[1] == USER_VALUE else 'the sentinel of _got_user_failure' if want[0] == 'val' else 'DeferredNotFired'}")
            if len(rec) != want[2] or any(not (e[1] and is_failure(e[1][0]) and e[1][0][1] == USER_EXC) for e in rec):
                problems.add(f"_got_user_failure receives {[e[1] for e in rec]!r}; expected {'the Failure of the function, once' if want[2] else 'nothing'}")
        label = {"value": "returns a value", "fired-ok": "returns a Deferred that has fired", "raise": "raises", "fired-fail": "returns a Deferred that has failed",
                 "pending": "returns a Deferred that has not fired"}[kind]
        ctx.check("R-SYNC-RUNNER", f"SynchronousDeferredRunTest._run_user: the test {label}", f, not problems, "; ".join(sorted(problems)), examined=len(res),
                  construct=f"{TWRUNTEST}:SynchronousDeferredRunTest._run_user::{kind}")
    base = ctx.classes.get(TWRUNTEST, "_DeferredRunTest")
    owner, guf = ctx.classes.resolve_method(base, "_got_user_failure")
    if not isinstance(guf, FUNC_TYPES):
        raise AnalysisError("anchor vanished: _DeferredRunTest._got_user_failure")
    FAIL = ("wobj", "fail")
    ANSWER = ("sym", "recorder-answer")
    dom = effects.EffectDomain(ctx.classes, attrs={"self": ("self",)}, results={"self._got_user_exception": [ANSWER]}, track=lambda d: d == "self._got_user_exception")
    params = [a.arg for a in guf.args.args[1:]]
    res = effects.run(ctx, dom, guf, base, {params[0]: FAIL, params[1]: ("const", "a-label")} if len(params) > 1 else {params[0]: FAIL}, state=State(), depth=2)
    problems = set()
    for r in res:
        rec = [e for e in r.state.get("ev.calls", ()) if e[0] == "self._got_user_exception"]
        want = ("tuple", ("bound", "fail", "type"), ("bound", "fail", "value"), ("ret", "fail", "getTracebackObject"))
        if len(rec) != 1 or rec[0][1][:1] != (want,):
            problems.add(f"the recorder receives {[e[1] for e in rec]!r}; expected once (failure.type, failure.value, failure.getTracebackObject())")
        elif len(params) > 1 and ("const", "a-label") not in list(rec[0][1][1:]) + [v for _, v in rec[0][2]]:
            problems.add("the traceback label is not passed on to the recorder")
        if r.kind != "val" or r.value != ANSWER:
            problems.add("the recorder's answer (the sentinel) is not returned")
    ctx.check("R-SYNC-RUNNER", "_got_user_failure hands the Failure to the exception recorder as an exc_info triple and returns its result", guf, bool(res) and not problems,
              "; ".join(sorted(problems)) or "no path explored", examined=len(res), construct=f"{TWRUNTEST}:_DeferredRunTest._got_user_failure::records")


def run(ctx):
    ctx.rule("R-PASSIVE-CALLBACKS", "matching leaves the Deferred's state and result intact for later callbacks")
    ctx.rule("R-NOBODY-FIRES", "nothing in the matcher modules fires, fails or cancels a Deferred")
    ctx.rule("R-THREEWAY", "on_deferred_result invokes exactly the callback for the Deferred's state")
    ctx.rule("R-MATCHER-TABLES", "the three matchers answer per state as documented")
    ctx.rule("R-HANDLED-SIBLINGS", "an inspected failure is marked handled")
    ctx.rule("R-SYNC-RUNNER", "extract_result / SynchronousDeferredRunTest turn a fired Deferred into a plain result")
    dm, mm = ctx.repo.module(DEF), ctx.repo.module(MAT)
    for modname, m in ((DEF, dm), (MAT, mm)):
        hits = firing_calls(m.tree, {"deferred", "d", "self.deferred", "self._deferred"})
        ctx.check("R-NOBODY-FIRES", f"{modname.split('.')[-1]}: no callback()/errback()/cancel() on a Deferred", m.tree, not hits,
                  f"{[norm(h) for h in hits]}: matching would fire / fail / cancel the Deferred under inspection", construct=f"{modname}::fires")
    tree = ast.parse(_FIRE_EXAMPLE)
    _annotate(tree, None)
    ctx.check("R-NOBODY-FIRES", "embedded positive example (deferred.callback(None)) is recognised", None, len(firing_calls(tree, {"deferred"})) == 1,
              "the rule no longer recognises its positive example", construct="R-NOBODY-FIRES::self-check")
    check_on_deferred_result(ctx)
    check_matchers(ctx)
    check_extract_result(ctx)
    check_sync_runner(ctx)
    ctx.floor("R-THREEWAY", 3)
    ctx.floor("R-MATCHER-TABLES", 10)
    ctx.floor("R-PASSIVE-CALLBACKS", 10)
    ctx.floor("R-SYNC-RUNNER", 8)
    ctx.assume("Deferred chains are interpreted with Twisted's documented semantics; a Deferred whose chain is paused on a nested Deferred behaves as one that has not fired")
