"""C20 -- Deferred matchers classify fired / failed / unfired without firing anything."""

import ast

from ..absint import EMPTY, FALSE, TRUE, NONE, NONEMPTY, NOTNONE, TOP, DefaultDomain, Interp, Result, State, exc, val
from ..astutil import FUNC_TYPES, attr_chain, dotted, norm, walk_shallow
from ..loader import AnalysisError, _annotate
from .common import TWRUNTEST, kw_value, module_function, own_method
from .matchmodel import expr_kind, function_return_kinds

EXPLANATION = (
    "R-PASSIVE-CALLBACKS: every callback/errback that the matchers attach to the matchee returns its first "
    "parameter on all paths (so the Deferred's result is unchanged for later callbacks); the documented "
    "exceptions are extract_result (consuming by contract) and the swallowing errbacks that mark an inspected "
    "failure handled. R-NOBODY-FIRES: no call of callback/errback/cancel on the matchee in _matchers.py or "
    "_deferred.py (expected count 0, with an embedded positive example). R-THREEWAY: nullness/emptiness "
    "abstract interpretation of on_deferred_result over the four (successes, failures) emptiness combinations: "
    "exactly one of on_success / on_failure / on_no_result is invoked on every non-raising path, chosen by the "
    "capture lists; both non-empty raises. R-MATCHER-TABLES: return-kind inference on the per-state callbacks "
    "of _NoResult / _Succeeded / _Failed gives the documented table (with Always() inside exactly one of the "
    "three matches in each state). R-HANDLED-SIBLINGS: both failure arms add a swallowing errback before "
    "returning. R-SYNC-RUNNER: SynchronousDeferredRunTest._run_user is maybeDeferred -> errback "
    "_got_user_failure -> extract_result, and extract_result is the three-way raise / return / DeferredNotFired."
)

DEF = "testtools.twistedsupport._deferred"
MAT = "testtools.twistedsupport._matchers"

_FIRE_EXAMPLE = """
def match(self, deferred):
    deferred.callback(None)
    return on_deferred_result(deferred, a, b, c)
"""


def firing_calls(tree, names):
    out = []
    for c in ast.walk(tree):
        if isinstance(c, ast.Call) and isinstance(c.func, ast.Attribute) and c.func.attr in ("callback", "errback", "cancel", "chainDeferred"):
            recv = dotted(c.func.value)
            if recv in names or recv is None:
                out.append(c)
        if isinstance(c, ast.Call) and dotted(c.func) in ("defer.succeed", "defer.fail", "succeed", "fail"):
            out.append(c)
    return out


ENVS = {
    # env: (Deferred.called, Deferred.result, capture lists after addCallbacks, expected callback)
    "not fired": (FALSE, ("no-result-attr",), (EMPTY, EMPTY), "on_no_result"),
    "fired, chain paused or waiting on a nested Deferred": (TRUE, ("intermediate",), (EMPTY, EMPTY), "on_no_result"),
    "result available": (TRUE, ("the-result",), (NONEMPTY, EMPTY), "on_success"),
    "failure available": (TRUE, ("the-failure",), (EMPTY, NONEMPTY), "on_failure"),
    "both callbacks ran (impossible)": (TRUE, TOP, (NONEMPTY, NONEMPTY), None),
}


class ThreeWayDomain(DefaultDomain):
    """on_deferred_result under each state the Deferred can be in.  Attaching callbacks runs the
    success / failure capture exactly when a result / failure is available *now*; Deferred.called and
    Deferred.result are what Twisted documents: `called` is already true, and `result` an intermediate
    value, while the chain is paused or waiting on a nested Deferred."""

    def __init__(self, succ_var, fail_var, callbacks, env):
        self.succ_var = succ_var
        self.fail_var = fail_var
        self.callbacks = callbacks
        self.env = env

    def load_attr(self, chain, st, fr):
        if len(chain) == 2 and chain[0] == "deferred":
            if chain[1] == "called":
                return ENVS[self.env][0]
            if chain[1] == "result":
                return ENVS[self.env][1]
            if chain[1] == "paused":
                return ("bool",)
        return None

    def call(self, interp, call, st, fr):
        d = dotted(call.func)
        if d and d.split(".")[-1] in ("addCallbacks", "addCallback", "addErrback", "addBoth") and d.split(".")[0] == "deferred":
            sv, fv = ENVS[self.env][2]
            if self.succ_var:
                st = st.set(fr.local(self.succ_var), sv)
            if self.fail_var:
                st = st.set(fr.local(self.fail_var), fv)
            return [val(TOP, st)]
        if isinstance(call.func, ast.Name) and call.func.id in self.callbacks:
            n = st.get("ev.calls", ())
            return [val(("verdict", call.func.id), st.set("ev.calls", n + (call.func.id,)))]
        if d == "isinstance" and len(call.args) == 2 and norm(call.args[1]).split(".")[-1] == "Failure":
            out = []
            for r in interp.eval(call.args[0], st, fr):
                if r.kind == "exc":
                    out.append(r)
                elif r.value == ("the-failure",):
                    out.append(val(TRUE, r.state))
                elif r.value == ("the-result",):
                    out.append(val(FALSE, r.state))
                else:
                    out.append(val(("bool",), r.state))
            return out
        return [val(TOP, st)]

    def raised_value(self, stmt, value, st, fr):
        return ("raised", norm(stmt.exc)[:40])


class ExtractDomain(ThreeWayDomain):
    """extract_result under each Deferred state; capture lists hold zero or one captured value."""

    def __init__(self, env):
        super().__init__(None, None, (), env)

    def call(self, interp, call, st, fr):
        d = dotted(call.func) or ""
        if d.split(".")[-1] in ("addCallbacks", "addCallback", "addErrback", "addBoth") and d.split(".")[0] == "deferred":
            sv, fv = ENVS[self.env][2]
            names = [dotted(a.value) if isinstance(a, ast.Attribute) and a.attr == "append" else None for a in call.args]
            m = d.split(".")[-1]
            succ_name = names[0] if m in ("addCallbacks", "addCallback", "addBoth") and names else None
            fail_name = names[1] if m == "addCallbacks" and len(names) > 1 else (names[0] if m in ("addErrback", "addBoth") and names else None)
            if succ_name and sv == NONEMPTY:
                st = st.set(fr.local(succ_name), ("list1", ("the-result",)))
            if fail_name and fv == NONEMPTY:
                st = st.set(fr.local(fail_name), ("list1", ("the-failure",)))
            return [val(("deferred",), st)]
        if d == "len" and len(call.args) == 1:
            out = []
            for r in interp.eval(call.args[0], st, fr):
                if r.kind == "exc":
                    out.append(r)
                elif r.value == EMPTY:
                    out.append(val(("const", 0), r.state))
                elif isinstance(r.value, tuple) and r.value[:1] == ("list1",):
                    out.append(val(("const", 1), r.state))
                else:
                    out.append(val(TOP, r.state))
            return out
        if isinstance(call.func, ast.Attribute) and call.func.attr == "raiseException":
            out = []
            for r in interp.eval(call.func.value, st, fr):
                out.append(r if r.kind == "exc" else exc(("failure-raised", r.value), r.state))
            return out
        if d == "DeferredNotFired":
            return [val(("not-fired",), st)]
        return super().call(interp, call, st, fr)

    def truth(self, value):
        if isinstance(value, tuple) and value[:1] == ("list1",):
            return "T"
        return super().truth(value)

    def subscript(self, base, idx, st, fr):
        if isinstance(base, tuple) and base[:1] == ("list1",) and idx == ("const", 0):
            return base[1]
        return None

    def raised_value(self, stmt, value, st, fr):
        return value if isinstance(value, tuple) else ("raised", norm(stmt.exc)[:40])


def first_param_returned(func):
    """Does func return its first parameter on every path?"""
    if isinstance(func, ast.Lambda):
        p = func.args.args[0].arg if func.args.args else None
        return dotted(func.body) == p, norm(func.body)
    from ..cfg import build_cfg, live_nodes
    g = build_cfg(func)
    lv = live_nodes(g)
    p = func.args.args[0].arg if func.args.args else None
    rets = [n for n in g.nodes if n.id in lv and n.kind == "return"]
    implicit = [a for a, k in g.pred[g.exit_return] if a in lv and g.nodes[a].kind != "return"]
    ok = bool(rets) and not implicit and all(dotted(r.ast.value) == p for r in rets)
    rebinds = [n for n in walk_shallow(func, include_self=False) if isinstance(n, (ast.Assign, ast.AugAssign)) and any(dotted(t) == p for t in (n.targets if isinstance(n, ast.Assign) else [n.target]))]
    return ok and not rebinds, "; ".join(norm(r.ast) for r in rets) or "falls off the end"


def run(ctx):
    ctx.rule("R-PASSIVE-CALLBACKS", "callbacks attached to the matchee hand its result through unchanged")
    ctx.rule("R-NOBODY-FIRES", "nothing in the matchers fires, fails or cancels the matchee")
    ctx.rule("R-THREEWAY", "on_deferred_result invokes exactly one of its three callbacks, chosen by the capture lists")
    ctx.rule("R-MATCHER-TABLES", "per-state verdict tables of has_no_result / succeeded / failed")
    ctx.rule("R-HANDLED-SIBLINGS", "both failure arms mark the inspected failure handled")
    ctx.rule("R-SYNC-RUNNER", "SynchronousDeferredRunTest._run_user and extract_result have the documented shape")
    classes = ctx.classes
    dm = ctx.repo.module(DEF)
    mm = ctx.repo.module(MAT)

    # ------------------------------------------------------------------ passive callbacks
    odr = module_function(ctx, DEF, "on_deferred_result")
    ctx.analysed(odr)
    local_defs = {f.name: f for f in odr.body if isinstance(f, FUNC_TYPES)}
    attached = []
    exempt = []
    for modname, m in ((DEF, dm), (MAT, mm)):
        for c in ast.walk(m.tree):
            if isinstance(c, ast.Call) and isinstance(c.func, ast.Attribute) and c.func.attr in ("addCallbacks", "addCallback", "addErrback", "addBoth"):
                encl = getattr(c, "_func", None)
                for a in c.args:
                    attached.append((modname, encl, c, a))
    n_passive = 0
    for modname, encl, c, a in attached:
        name = getattr(encl, "name", "<module>")
        target = None
        if isinstance(a, ast.Call) and dotted(a.func) in ("partial", "functools.partial") and a.args:
            target = a.args[0]
        else:
            target = a
        f = None
        if isinstance(target, ast.Lambda):
            f = target
        elif isinstance(target, ast.Name) and encl is not None:
            for s in ast.walk(encl):
                if isinstance(s, FUNC_TYPES) and s.name == target.id:
                    f = s
        if name == "extract_result":
            ctx.note("R-PASSIVE-CALLBACKS frozen exception: extract_result is documented as consuming the result")
            continue
        if isinstance(target, ast.Lambda) and isinstance(target.body, ast.Constant) and target.body.value is None and c.func.attr == "addErrback" and name == "_got_failure":
            ctx.note(f"R-PASSIVE-CALLBACKS frozen exception: swallowing errback in {name} marks the inspected failure handled (see R-HANDLED-SIBLINGS)")
            continue
        n_passive += 1
        if f is None:
            ctx.check("R-PASSIVE-CALLBACKS", f"{name}: callback {norm(a)[:40]} resolves", c, False, f"cannot resolve the callback {norm(a)} attached in {name}",
                      construct=f"{modname}:{name}::callback {norm(a)[:40]}")
            continue
        ok, what = first_param_returned(f)
        ctx.check("R-PASSIVE-CALLBACKS", f"{name}: {norm(a)[:50]} returns its first parameter", f, ok,
                  f"the callback attached to the matchee in {name} returns `{what}` instead of the value it was given: callbacks added after matching would see a different result",
                  construct=f"{modname}:{name}::callback {norm(a)[:40]}")
    ctx.floor("R-PASSIVE-CALLBACKS", 2, "attached callbacks")

    # ------------------------------------------------------------------ nobody fires
    total = 0
    for modname, m in ((DEF, dm), (MAT, mm)):
        hits = firing_calls(m.tree, {"deferred", "d", "self.deferred", "self._deferred"})
        total += len(hits)
        ctx.check("R-NOBODY-FIRES", f"{modname.split('.')[-1]}: no callback()/errback()/cancel() on a Deferred", m.tree, not hits,
                  f"{[norm(h) for h in hits]}: matching would fire / fail / cancel the Deferred under inspection", construct=f"{modname}::fires")
    tree = ast.parse(_FIRE_EXAMPLE)
    _annotate(tree, None)
    ctx.check("R-NOBODY-FIRES", "embedded positive example (deferred.callback(None)) is recognised", None, len(firing_calls(tree, {"deferred"})) == 1,
              "the rule no longer recognises its positive example", construct="R-NOBODY-FIRES::self-check")

    # ------------------------------------------------------------------ three way
    cap = [c for c in walk_shallow(odr, include_self=False) if isinstance(c, ast.Call) and dotted(c.func) == "deferred.addCallbacks"]

    def capture_list(a):
        if isinstance(a, ast.Call) and dotted(a.func) in ("partial", "functools.partial"):
            v = kw_value(a, "values") or (a.args[1] if len(a.args) > 1 else None)
            return dotted(v)
        return None

    sv = fv = None
    if len(cap) == 1 and len(cap[0].args) == 2:
        sv, fv = capture_list(cap[0].args[0]), capture_list(cap[0].args[1])
        if not sv or not fv:
            raise AnalysisError("cannot identify the success / failure capture lists of on_deferred_result")
    elif cap:
        raise AnalysisError("on_deferred_result attaches callbacks in a way the model does not know")
    cbs = [a.arg for a in odr.args.args[1:]]
    for env, (called, result, lists, want_cb) in ENVS.items():
        if want_cb is None and not cap:
            continue  # nothing can observe the impossible state without the capture lists
        dom = ThreeWayDomain(sv, fv, cbs, env)
        it = Interp(dom, max_depth=2)
        res = it.analyze(odr, {}, State([("ev.calls", ())]), receiver=None, name="on_deferred_result")
        ctx.stats["states"] += it.steps
        outs = {(r.kind, r.state.get("ev.calls", ()), r.value if r.kind == "val" else None) for r in res}
        if want_cb is None:
            ok = bool(outs) and all(o[0] == "exc" and o[1] == () for o in outs)
            expect = "raise"
        else:
            ok = outs == {("val", (want_cb,), ("verdict", want_cb))}
            expect = f"{want_cb} (its value returned)"
        ctx.check("R-THREEWAY", f"on_deferred_result, Deferred {env} -> {expect}", odr, ok,
                  f"with a Deferred that has {env} on_deferred_result does {sorted((o[0], o[1]) for o in outs)} (expected {expect}): "
                  "the classification does not follow whether a result is available now",
                  construct=f"{DEF}:on_deferred_result::{env}")
    for cb in cbs:
        calls = [c for c in walk_shallow(odr, include_self=False) if isinstance(c, ast.Call) and dotted(c.func) == cb]
        ok = bool(calls) and all(c.args and dotted(c.args[0]) == "deferred" and len(c.args) == (1 if cb == "on_no_result" else 2) for c in calls)
        ctx.check("R-THREEWAY", f"{cb} receives the Deferred{' and the captured result' if cb != 'on_no_result' else ''}", odr, ok,
                  f"{cb} is called with the wrong arguments", construct=f"{DEF}:on_deferred_result::{cb}-args")
    capf = local_defs.get("capture")
    ok = not cap or capf is not None and any(isinstance(c, ast.Call) and dotted(c.func) == f"{capf.args.args[1].arg}.append" and dotted(c.args[0]) == capf.args.args[0].arg for c in ast.walk(capf))
    ctx.check("R-THREEWAY", "the capture callback records the value it saw", capf if capf is not None else odr, ok, "capture no longer appends the value to its list", construct=f"{DEF}:on_deferred_result::capture-appends")

    # ------------------------------------------------------------------ matcher tables
    table = {
        "_NoResult": {"on_success": {"Mismatch"}, "on_failure": {"Mismatch"}, "on_no_result": {"None"}},
        "_Succeeded": {"on_success": {"Delegate"}, "on_failure": {"Mismatch"}, "on_no_result": {"Mismatch"}},
        "_Failed": {"on_success": {"Mismatch"}, "on_failure": {"Delegate"}, "on_no_result": {"Mismatch"}},
    }
    for cname, spec in table.items():
        c = classes.get(MAT, cname)
        mf = c.own_method("match")
        if mf is None:
            raise AnalysisError(f"anchor vanished: {cname}.match")
        ctx.analysed(mf)
        calls = [x for x in walk_shallow(mf, include_self=False) if isinstance(x, ast.Call) and dotted(x.func) == "on_deferred_result"]
        rets = [r for r in walk_shallow(mf, include_self=False) if isinstance(r, ast.Return)]
        ok = len(calls) == 1 and len(rets) == 1 and rets[0].value is calls[0] and calls[0].args and dotted(calls[0].args[0]) == mf.args.args[1].arg
        ctx.check("R-MATCHER-TABLES", f"{cname}.match returns on_deferred_result(<matchee>, ...)", mf, ok, f"{cname}.match no longer delegates to on_deferred_result on the matchee", construct=f"{MAT}:{cname}.match::delegates")
        if not calls:
            continue
        for slot, want_k in spec.items():
            v = kw_value(calls[0], slot)
            f = None
            if isinstance(v, ast.Lambda):
                f = v
            elif v is not None and dotted(v) and dotted(v).startswith("self."):
                f = c.own_method(dotted(v).split(".")[1])
            kinds = function_return_kinds(ctx, c.module, f) if f is not None else {"unresolved"}
            ok = kinds == want_k
            detail = ""
            if ok and want_k == {"Delegate"} and f is not None:
                # delegate on the right object: the value (success) / the Failure (failure)
                body = f.body if isinstance(f, ast.Lambda) else None
                call = body if isinstance(body, ast.Call) else next((r.value for r in ast.walk(f) if isinstance(r, ast.Return) and isinstance(r.value, ast.Call)), None)
                params = [a.arg for a in f.args.args if a.arg != "self"]
                ok = call is not None and norm(call.func) == "self._matcher.match" and len(call.args) == 1 and dotted(call.args[0]) == params[-1]
                detail = " (must be self._matcher.match(<the captured value>))"
            ctx.check("R-MATCHER-TABLES", f"{cname}: {slot} -> {sorted(want_k)}", v if v is not None else mf, ok,
                      f"{cname} answers {slot} with {sorted(kinds)}; documented: {sorted(want_k)}{detail}", construct=f"{MAT}:{cname}.match::{slot}")
    ctx.floor("R-MATCHER-TABLES", 12)

    # ------------------------------------------------------------------ handled siblings
    for cname in ("_Succeeded", "_Failed"):
        c = classes.get(MAT, cname)
        f = c.own_method("_got_failure")
        if f is None:
            raise AnalysisError(f"anchor vanished: {cname}._got_failure")
        from ..cfg import build_cfg, live_nodes
        g = build_cfg(f)
        lv = live_nodes(g)
        dparam = [a.arg for a in f.args.args if a.arg != "self"][0]
        marks = [n.id for n in g.nodes if n.id in lv and any(isinstance(x, ast.Call) and dotted(x.func) == f"{dparam}.addErrback" and x.args and isinstance(x.args[0], ast.Lambda)
                                                               and isinstance(x.args[0].body, ast.Constant) and x.args[0].body.value is None for x in (ast.walk(n.ast) if n.ast is not None and n.kind == "stmt" else []))]
        esc = g.escape_path([g.entry], set(marks), targets=[g.exit_return]) if marks else [0]
        ctx.check("R-HANDLED-SIBLINGS", f"{cname}._got_failure marks the failure handled on every path", f, bool(marks) and esc is None,
                  f"{cname}._got_failure can return without adding a swallowing errback: the inspected failure would be logged as unhandled at garbage collection",
                  construct=f"{MAT}:{cname}._got_failure::handled")

    # ------------------------------------------------------------------ sync runner
    ru = own_method(ctx, TWRUNTEST, "SynchronousDeferredRunTest", "_run_user")
    stmts = [norm(s) for s in ru.body if not (isinstance(s, ast.Expr) and isinstance(s.value, ast.Constant))]
    fn = ru.args.args[1].arg
    va = ru.args.vararg.arg if ru.args.vararg else None
    kw = ru.args.kwarg.arg if ru.args.kwarg else None
    ok = (len(stmts) >= 3 and stmts[0].startswith("d = defer.maybeDeferred(%s, *%s" % (fn, va)) and (kw is None or f"**{kw}" in stmts[0])
          and stmts[1] == "d.addErrback(self._got_user_failure)" and "extract_result(d)" in " ".join(stmts[2:]))
    ctx.check("R-SYNC-RUNNER", "_run_user: maybeDeferred(function, *args[, **kwargs]) -> addErrback(_got_user_failure) -> extract_result", ru, ok,
              f"SynchronousDeferredRunTest._run_user is {stmts}", construct=f"{TWRUNTEST}:SynchronousDeferredRunTest._run_user::shape")
    er = module_function(ctx, DEF, "extract_result")
    ctx.analysed(er)
    want_er = {"not fired": ("exc", ("not-fired",)), "fired, chain paused or waiting on a nested Deferred": ("exc", ("not-fired",)),
               "result available": ("val", ("the-result",)), "failure available": ("exc", ("failure-raised", ("the-failure",)))}
    for env, want_o in want_er.items():
        dom = ExtractDomain(env)
        it = Interp(dom, max_depth=2)
        res = it.analyze(er, {}, State(), receiver=None, name="extract_result")
        ctx.stats["states"] += it.steps
        outs = {(r.kind, r.value) for r in res}
        human = {"not-fired": "raise DeferredNotFired", "the-result": "return the result", "failure-raised": "raise the failure"}
        expect = human[want_o[1][0]]
        ctx.check("R-SYNC-RUNNER", f"extract_result, Deferred {env} -> {expect}", er, outs == {want_o},
                  f"with a Deferred that has {env}, extract_result does {sorted(map(repr, outs))} (expected: {expect}): a test returning such a Deferred is "
                  "reported from a value that is not its result",
                  construct=f"{DEF}:extract_result::{env}")
    guf = own_method(ctx, TWRUNTEST, "_DeferredRunTest", "_got_user_failure")
    ok = any(isinstance(c, ast.Call) and dotted(c.func) == "self._got_user_exception" and "failure.type" in norm(c) and "failure.value" in norm(c) and "getTracebackObject()" in norm(c)
             and dotted(kw_value(c, "tb_label")) == "tb_label" for c in ast.walk(guf)) and any(isinstance(r, ast.Return) for r in ast.walk(guf))
    ctx.check("R-SYNC-RUNNER", "_got_user_failure hands the Failure to the exception recorder as an exc_info triple and returns its result", guf, ok,
              "_got_user_failure changed", construct=f"{TWRUNTEST}:_DeferredRunTest._got_user_failure::shape")
    ctx.assume("Twisted runs callbacks added to an already-fired Deferred synchronously (the matchers are documented for synchronous Deferreds)")
