"""C01 -- every test run is bracketed and yields exactly one outcome."""

import ast

from ..absint import EMPTY, NONE, NONEMPTY, NOTNONE, State
from ..astutil import FUNC_TYPES, attr_chain, dotted, norm, walk_shallow
from ..cfg import handler_is_catch_all, handler_names, live_nodes, node_calls
from ..loader import AnalysisError
from . import runmodel
from .common import RUNTEST, TESTCASE, TWRUNTEST, cfg_of, nodes_calling, own_method
from .runmodel import RERAISE, SENT, USER_EXC

EXPLANATION = (
    "Typestate analysis of testtools.runtest.RunTest by abstract interpretation (ttsa.absint): the "
    "runner's own code (_run_prepared_result, _run_core, _run_cleanups, _run_user, _got_user_exception, "
    "_raise_force_fail_error, inlined through the receiver's MRO with method values bound at the call "
    "site, recursion closed by summaries) is executed over a finite domain -- sentinel / user value, "
    "emptiness of the recorded-exception list, event counters {0,1,2+} for startTest, stopTest and "
    "outcomes -- while every piece of user code is symbolic: it returns a non-sentinel value or raises. "
    "R-ONE-OUTCOME / R-BRACKET: every abstract exit state that is not a framework-exception path has "
    "exactly one startTest, one outcome and one stopTest, in that order; on framework-exception paths "
    "the bracket still holds and no second outcome is possible; no user exception escapes. "
    "R-SENTINEL-IFF-RECORDED: _got_user_exception returns the sentinel only after recording. "
    "R-CATCH-ALL: user code is invoked under a handler for BaseException that reaches the recorder. "
    "R-INTERRUPT-PROPAGATES: on a run in which stages raise exception kinds, a recorded non-Exception is re-raised whatever later stages raise. R-RERAISE: the "
    "no-handler arm reports through last_resort and re-raises the same exception inside the bracket. "
    "R-RUN-BRACKET: RunTest.run pairs startTestRun/stopTestRun exactly when it created the result; "
    "results are wrapped in ExtendedToOriginalDecorator; TestCase.run resets before building a fresh runner."
)


def rpr_node(ctx):
    return own_method(ctx, RUNTEST, "RunTest", "_run_prepared_result")


def run(ctx):
    ctx.rule("R-ONE-OUTCOME", "every non-framework exit of a run has exactly one outcome between startTest and stopTest")
    ctx.rule("R-BRACKET", "startTest is followed by exactly one stopTest on every path; outcomes only inside the bracket")
    ctx.rule("R-SENTINEL-IFF-RECORDED", "the runner's sentinel is returned iff an exception was recorded")
    ctx.rule("R-CATCH-ALL", "user code runs under a BaseException handler that records the exception")
    ctx.rule("R-RERAISE", "unhandled exception kinds go to last_resort and are re-raised inside the bracket")
    ctx.rule("R-RUN-BRACKET", "run() pairs startTestRun/stopTestRun for a result it created; results are adapted; TestCase.run resets first")
    classes = ctx.classes
    rt = classes.get(RUNTEST, "RunTest")
    Q = f"{RUNTEST}:RunTest"

    # ------------------------------------------------------------------ typestate over the whole run
    res, interp = runmodel.analyse_run(ctx, rt)
    groups = {}
    for r in res:
        d = r.state.as_dict()
        key = (r.kind, r.value if r.kind == "exc" else "return", d.get("ev.started", 0), d.get("ev.stopped", 0), d.get("ev.outcomes", 0),
               d.get("ev.phantom", 0), d.get("ev.outcome_outside_bracket", 0), d.get("ev.stop_before_start", 0))
        groups.setdefault(key, r)
    n_exit = 0
    for key, r in sorted(groups.items(), key=lambda kv: repr(kv[0])):
        kind, value, started, stopped, outcomes, phantom, outside, sbs = key
        n_exit += 1
        framework = kind == "exc" and isinstance(value, tuple) and value and value[0] == "framework"
        label = f"exit {'return' if kind == 'val' else 'raise ' + repr(value)[:40]} [started={started} stopped={stopped} outcomes={outcomes}{' unrecorded-sentinel' if phantom else ''}]"
        # bracket
        ok_b = (stopped == started) and stopped <= 1 and not outside and not sbs
        ctx.check("R-BRACKET", label, own_method(ctx, RUNTEST, "RunTest", "_run_prepared_result"), ok_b,
                  f"abstract exit with startTest x{started}, stopTest x{stopped}{', outcome outside the bracket' if outside else ''}",
                  examined=1, path=runmodel.fmt_log(r.state),
                  construct=f"{Q}._run_prepared_result::bracket started={started} stopped={stopped} outside={outside}")
        if kind == "exc" and value == USER_EXC:
            ctx.check("R-CATCH-ALL", label, rt.node, False, "an exception raised by user code escapes the runner without being recorded",
                      path=runmodel.fmt_log(r.state), construct=f"{Q}::user-exception-escapes")
            continue
        if framework:
            ctx.check("R-ONE-OUTCOME", label, rt.node, outcomes <= 1, f"{outcomes} outcomes on a framework-exception path",
                      path=runmodel.fmt_log(r.state), construct=f"{Q}._run_prepared_result::framework outcomes={outcomes}")
            continue
        if phantom:
            # consequence of R-SENTINEL-IFF-RECORDED being violated (reported there, once)
            ctx.note(f"exit state {label} is a consequence of the sentinel being returned without a recorded exception (see R-SENTINEL-IFF-RECORDED)")
            continue
        ctx.check("R-ONE-OUTCOME", label, rt.node, outcomes == 1 and started == 1,
                  f"a run can end with {outcomes} outcome(s) reported",
                  path=runmodel.fmt_log(r.state), construct=f"{Q}._run_prepared_result::{'return' if kind == 'val' else 'reraise'} outcomes={outcomes}")
    ctx.check("R-ONE-OUTCOME", f"abstract exit states explored: {len(res)} ({n_exit} distinct event signatures)", rt.node, len(res) >= 20,
              "the abstract run has implausibly few exit states (model broken?)", examined=len(res), construct=f"{Q}::exit-states")
    reraise_seen = any(r.kind == "exc" and r.value == RERAISE for r in res)
    ctx.check("R-RERAISE", "an unhandled exception kind propagates out of the run", rt.node, reraise_seen,
              "no abstract path re-raises the recorded exception: KeyboardInterrupt/SystemExit would be swallowed", construct=f"{Q}::reraise-exists")

    # ------------------------------------------------------------------ non-Exception exceptions propagate
    ctx.rule("R-INTERRUPT-PROPAGATES", "a non-Exception exception raised by any stage is re-raised out of the run, whatever later stages raise")
    kres, kint = runmodel.analyse_kinds(ctx, rt, kinds=("base", "bad") if ctx.tier == "quick" else runmodel.KINDS)
    pairs = {}
    n_base_exits = 0
    for r in kres:
        st_ = r.state
        framework = r.kind == "exc" and isinstance(r.value, tuple) and r.value and r.value[0] == "framework"
        if framework or st_.get("ev.phantom", 0):
            continue
        base = st_.get("exc.base", None)
        if base is None:
            continue
        n_base_exits += 1
        propagated = r.kind == "exc" and isinstance(r.value, tuple) and r.value[:2] == ("reraise", "base")
        last = st_.get("exc.last", ("?", "?"))
        pairs.setdefault((base, last[1], propagated), r)
    for (base, last_stage, propagated), r in sorted(pairs.items(), key=repr):
        ctx.check("R-INTERRUPT-PROPAGATES", f"non-Exception raised in {base}, last recorded exception from {last_stage}: {'propagates' if propagated else 'SWALLOWED'}", rpr_node(ctx), propagated,
                  f"a KeyboardInterrupt / SystemExit raised in {base} does not propagate out of run() when the exception recorded last comes from {last_stage}: "
                  "the outcome is selected from that last exception alone, it matches a handler, and the run returns normally",
                  path=runmodel.fmt_log(r.state), construct=f"{Q}._run_prepared_result::non-Exception from {base} masked by {last_stage}")
    ctx.check("R-INTERRUPT-PROPAGATES", f"{n_base_exits} abstract exits with a non-Exception recorded examined ({len(kres)} exit states)", rt.node, n_base_exits >= 10,
              "implausibly few exits (model broken?)", examined=len(kres), construct=f"{Q}::kind-exits")

    # ------------------------------------------------------------------ sentinel iff recorded
    gue = own_method(ctx, RUNTEST, "RunTest", "_got_user_exception")
    res2, interp2 = runmodel.analyse_run(ctx, rt, method="_got_user_exception", argvals={}, state=runmodel.initial_state(), track_return_sites=True)
    ret_stmts = {n.lineno: n for n in ast.walk(gue) if isinstance(n, ast.Return)}

    def site_text(lineno):
        n = ret_stmts.get(lineno)
        if n is None:
            return "implicit return"
        p = getattr(n, "_parent", None)
        guards = []
        while p is not None and p is not gue:
            if isinstance(p, ast.If):
                guards.append(norm(p.test))
            p = getattr(p, "_parent", None)
        return (" / ".join(reversed(guards)) + ": " if guards else "") + norm(n)

    seen = set()
    for r in res2:
        rec = r.state.get("self._exceptions")
        if r.kind != "val":
            continue
        if r.value == SENT:
            ok = rec == NONEMPTY
            what = "returns the sentinel"
        else:
            ok = rec == EMPTY
            what = f"returns {r.value}"
        site = site_text(r.state.get("ev.retsite", 0))
        onexc = bool(r.state.get("ev.onexc", 0))
        sig = (r.value == SENT, rec, onexc)
        if sig in seen:
            continue
        seen.add(sig)
        # keyed by what happened on the path, not by where the return statement sits
        construct = (f"{Q}._got_user_exception::{'sentinel' if r.value == SENT else 'no sentinel'} returned, recorded={rec}, "
                     f"onException {'called' if onexc else 'not called'}")
        ctx.check("R-SENTINEL-IFF-RECORDED", f"_got_user_exception: `{site}` {what} with recorded list {rec}", ret_stmts.get(r.state.get("ev.retsite", 0), gue), ok,
                  "the sentinel is returned although no exception was recorded (e.g. an empty MultipleExceptions): the stage counts as failed "
                  "but nothing selects an outcome, so startTest/stopTest are delivered with no outcome in between"
                  if r.value == SENT else "a non-sentinel value is returned although an exception was recorded",
                  path=runmodel.fmt_log(r.state), construct=construct)
    ctx.floor("R-SENTINEL-IFF-RECORDED", 1)
    # _run_user returns the callee's value or the recorder's result
    ru = own_method(ctx, RUNTEST, "RunTest", "_run_user")

    # ------------------------------------------------------------------ catch-all (CFG + handler typing)
    def check_catch_all(cls_mod, cls_name, meth):
        f = own_method(ctx, cls_mod, cls_name, meth)
        fn_param = f.args.args[1].arg
        sites = [c for c in walk_shallow(f, include_self=False) if isinstance(c, ast.Call) and isinstance(c.func, ast.Name) and c.func.id == fn_param]
        for c in sites:
            tries = []
            p = c
            while p is not None and p is not f:
                par = getattr(p, "_parent", None)
                if isinstance(par, ast.Try) and any(p is s or any(p is w for w in ast.walk(s)) for s in par.body):
                    tries.append(par)
                p = par
            ok = False
            msg = f"{norm(c)} is not inside a try"
            for t in tries:
                for h in t.handlers:
                    if handler_is_catch_all(h):
                        reaches = any(isinstance(x, ast.Call) and dotted(x.func) == "self._got_user_exception" for x in walk_shallow(h))
                        ok = reaches
                        msg = "the catch-all handler does not hand the exception to _got_user_exception"
                        break
                    else:
                        msg = f"user code is called under `except {', '.join(handler_names(h))}`: KeyboardInterrupt/SystemExit would abort the run before tearDown and cleanups"
                if ok:
                    break
            ctx.check("R-CATCH-ALL", f"{cls_name}.{meth}: {norm(c)[:40]}", c, ok, msg, construct=f"{cls_mod}:{cls_name}.{meth}::user-call")

    check_catch_all(RUNTEST, "RunTest", "_run_user")
    ctx.floor("R-CATCH-ALL", 1)

    rpr = own_method(ctx, RUNTEST, "RunTest", "_run_prepared_result")
    # ------------------------------------------------------------------ re-raise arm / one report per exception
    # decided on the abstract run with a symbolic three-entry handler table (see runmodel.DispatchDomain):
    # whatever shape the dispatch has, every relation between the exception and the table ends with exactly
    # one report, and with no matching entry the report goes to last_resort and the exception is re-raised
    for m, x, first, exits in runmodel.dispatch_semantics(ctx, rt):
        rel = "".join("1" if b_ else "0" for b_ in m)
        got = [(a_, w_, k_) for a_, w_, k_, _ in exits]
        bad = next((r_ for a_, w_, k_, r_ in exits if len(a_) != 1), None)
        if first is None:
            ok = got == [(("last_resort",), (True,), "reraise")]
            ctx.check("R-RERAISE", "no entry of the handler table matches: last_resort(case, result, e), then e is re-raised", rpr, ok,
                      "an exception no handler claims must be reported through last_resort and re-raised (inside the bracket); the dispatch does: " +
                      "; ".join(f"invokes {list(a_)} then {k_}" for a_, w_, k_ in got),
                      path=runmodel.fmt_log(exits[0][3].state) if exits else None, construct=f"{Q}._run_prepared_result::no-match-arm")
        else:
            ok = bool(got) and all(len(a_) == 1 and k_ == "return" for a_, w_, k_ in got)
            ctx.check("R-RERAISE", f"isinstance(e, C0..C2)={rel}" + (f", type(e) is C{x}" if x is not None else "") + ": exactly one handler reports and the run returns", rpr, ok,
                      "a matching exception is not reported by exactly one handler: " + "; ".join(f"invokes {list(a_)} then {k_}" for a_, w_, k_ in got),
                      path=runmodel.fmt_log(bad.state) if bad is not None else None, construct=f"{Q}._run_prepared_result::one-report m={rel} exact={x}")
    ctx.floor("R-RERAISE", 20, "table relations")

    # ------------------------------------------------------------------ run-level bracket / adaptation / reset
    run_f = own_method(ctx, RUNTEST, "RunTest", "run")
    bad = []
    n_states = 0
    for rv in (NONE, NOTNONE):
        st = State([("ev.startRun", 0), ("ev.stopRun", 0)])
        dom = runmodel.RunDomain(classes, rt)
        # _run_one is opaque here: it returns or raises
        orig_call = dom.call

        def call(interp_, c, s, fr, orig_call=orig_call):
            if dotted(c.func) == "self._run_one":
                from ..absint import exc, val
                return [val(NOTNONE, s), exc(("framework", "run aborted"), s), exc(RERAISE, s)]
            return orig_call(interp_, c, s, fr)

        dom.call = call
        from ..absint import Interp
        it = Interp(dom, max_depth=4)
        out = it.analyze(run_f, {"result": rv}, st, receiver=rt, name="run")
        ctx.stats["states"] += it.steps
        for r in out:
            n_states += 1
            a, b = r.state.get("ev.startRun", 0), r.state.get("ev.stopRun", 0)
            want = 1 if rv == NONE else 0
            started_ok = a == want or (r.kind == "exc" and a <= want)
            if not started_ok or b != a and not (r.kind == "exc" and "startTestRun" in repr(r.value)):
                if not (r.kind == "exc" and isinstance(r.value, tuple) and "TestRun raised" in repr(r.value) and b <= a):
                    bad.append((rv, r))
    ctx.check("R-RUN-BRACKET", "run(): startTestRun/stopTestRun paired iff the result was created here", run_f, not bad,
              f"with result {'None' if bad and bad[0][0] == NONE else 'supplied'}: startTestRun x{bad[0][1].state.get('ev.startRun', 0) if bad else 0}, stopTestRun x{bad[0][1].state.get('ev.stopRun', 0) if bad else 0}" if bad else "",
              examined=n_states, path=runmodel.fmt_log(bad[0][1].state) if bad else None, construct=f"{Q}.run::run-bracket")
    r1 = own_method(ctx, RUNTEST, "RunTest", "_run_one")
    ok = any(isinstance(s, ast.Return) and isinstance(s.value, ast.Call) and dotted(s.value.func) == "self._run_prepared_result"
             and s.value.args and isinstance(s.value.args[0], ast.Call) and dotted(s.value.args[0].func) == "ExtendedToOriginalDecorator"
             and dotted(s.value.args[0].args[0]) == r1.args.args[1].arg for s in walk_shallow(r1, include_self=False))
    ctx.check("R-RUN-BRACKET", "_run_one adapts the result with ExtendedToOriginalDecorator", r1, ok,
              "results are no longer wrapped in ExtendedToOriginalDecorator before the run (old-style results would reject details=)", construct=f"{Q}._run_one::adapt")
    ok = any(isinstance(s, ast.Return) and isinstance(s.value, ast.Call) and dotted(s.value.func) == "self._run_one" for s in ast.walk(run_f))
    ctx.check("R-RUN-BRACKET", "run() goes through _run_one", run_f, ok, "run() bypasses _run_one", construct=f"{Q}.run::via-run-one")
    # the Twisted runners inherit the bracket code unchanged
    for cname in ("SynchronousDeferredRunTest", "AsynchronousDeferredRunTest", "AsynchronousDeferredRunTestForBrokenTwisted"):
        try:
            c = classes.get(TWRUNTEST, cname)
        except AnalysisError:
            continue
        for m in ("run", "_run_one", "_run_prepared_result"):
            owner, f = classes.resolve_method(c, m)
            ctx.check("R-BRACKET", f"{cname}.{m} resolves to RunTest.{m}", c.node, owner is rt,
                      f"{cname} overrides {m} (defined in {owner.name if owner else None}); the bracket analysis does not cover it",
                      construct=f"{TWRUNTEST}:{cname}::inherits {m}")
    tc_run = own_method(ctx, TESTCASE, "TestCase", "run")
    tcfg = cfg_of(ctx, tc_run)
    tlive = live_nodes(tcfg)
    resets = nodes_calling(tcfg, lambda c: dotted(c.func) == "self._reset", tlive)
    builds = nodes_calling(tcfg, lambda c: (dotted(c.func) or "").endswith("__RunTest"), tlive)
    ok = bool(resets) and bool(builds) and all(tcfg.dominated_by(b, set(resets)) for b in builds)
    ctx.check("R-RUN-BRACKET", "TestCase.run resets before building a fresh runner", tc_run, ok,
              "the RunTest can be built before _reset(): state of a previous run leaks into this one", construct=f"{TESTCASE}:TestCase.run::reset-first")
    hands = [c for b in builds for c in node_calls(tcfg.nodes[b]) if (dotted(c.func) or "").endswith("__RunTest")]
    ok = bool(hands) and all(len(c.args) >= 2 and dotted(c.args[0]) == "self" and dotted(c.args[1]) == "self.exception_handlers" for c in hands) and any(
        any(k.arg == "last_resort" and dotted(k.value) == "self._report_error" for k in c.keywords) for c in hands)
    ctx.check("R-RUN-BRACKET", "runner gets the handler table and last_resort=_report_error", tc_run, ok,
              "the runner is not built with (self, self.exception_handlers, last_resort=self._report_error)", construct=f"{TESTCASE}:TestCase.run::handlers")
    rets = [n for n in tcfg.nodes if n.id in tlive and n.kind == "return"]
    ok = bool(rets) and all(isinstance(r.ast.value, ast.Call) and isinstance(r.ast.value.func, ast.Attribute) and r.ast.value.func.attr == "run" for r in rets)
    ctx.check("R-RUN-BRACKET", "TestCase.run returns the runner's result", tc_run, ok, "TestCase.run does not return run_test.run(result)", construct=f"{TESTCASE}:TestCase.run::returns")
    ctx.assume("user code cannot return the runner's private sentinel object (it is created per RunTest and never handed out)")
    ctx.assume("result methods and addOnException handlers that raise abort the run (documented); only the bracket is required on those paths")
