"""C01 -- every test run is bracketed and yields exactly one outcome."""

import ast

from ..absint import TRUE
from . import casemodel as cm
from .common import RUNTEST, TESTCASE

EXPLANATION = (
    'TestCase.run is followed as written (ttsa.rules.casemodel): the TestCase is built by its real constructor; run, '
    "RunTest, the handler table, the result adapter and everything they create are interpreted by ttsa.objects; the user's "
    'setUp / test / tearDown / cleanup are scripts that return or raise exceptions of every kind, the result logs every '
    'call. Over 43 combinations of stage outcomes (also an interrupted cleanup): R-BRACKET startTest first, stopTest last, '
    'once each; R-ONE-OUTCOME exactly one outcome, a success only if nothing raised; R-CATCH-ALL no exception of user code '
    'leaves run() except a non-Exception one; R-INTERRUPT-PROPAGATES a KeyboardInterrupt / SystemExit raised by any stage '
    'is reported as an error, the later stages still run, and it is re-raised after stopTest whatever they raise. Further '
    'scenarios: unittest.skip markers, a 2.6-style result, MultipleExceptions of two and of none (R-SENTINEL-IFF-RECORDED, '
    'known finding), a result whose outcome method raises (R-RERAISE: stopTest still delivered, the error not swallowed, no '
    'second outcome), run() without a result (R-RUN-BRACKET: the default result is started and stopped around the test, '
    'also when it is interrupted), the same case run twice.'
)


def _combos():
    """(setUp, test, tearDown, cleanup) outcomes: None = returns, else a kind of exception ('-' = the stage does not run)."""
    out = []
    for su in (None, "fail", "interrupt"):
        if su is not None:
            for cl in (None, "error"):
                out.append((su, "-", "-", cl))
            continue
        for te in (None, "fail", "error", "skip", "interrupt"):
            for td in (None, "error", "interrupt"):
                for cl in (None, "fail"):
                    out.append((su, te, td, cl))
    # a cleanup that is interrupted: still one outcome (an error), and the interrupt propagates
    out += [(None, None, None, "interrupt"), (None, "fail", None, "interrupt"), ("error", "-", "-", "interrupt")]
    return out


def _script(su, te, td, cl, extra_test=()):
    script = {"setUp": [("call", "addCleanup", [cm.user("cleanup")], [])], "test": list(extra_test), "tearDown": [], "cleanup": []}
    for name, kind in (("setUp", su), ("test", te), ("tearDown", td), ("cleanup", cl)):
        if kind not in (None, "-"):
            script[name].append(("raise", cm.raised(kind, name)))
    return script


def _label(su, te, td, cl):
    def w(k):
        return "ok" if k is None else k
    return f"setUp {w(su)}, test {w(te)}, tearDown {w(td)}, cleanup {w(cl)}"


def run(ctx):
    ctx.rule("R-ONE-OUTCOME", "every non-framework exit of a run has exactly one outcome between startTest and stopTest")
    ctx.rule("R-BRACKET", "startTest is followed by exactly one stopTest on every path; outcomes only inside the bracket")
    ctx.rule("R-SENTINEL-IFF-RECORDED", "the runner's sentinel is returned iff an exception was recorded")
    ctx.rule("R-CATCH-ALL", "user code runs under a BaseException handler that records the exception")
    ctx.rule("R-RERAISE", "unhandled exception kinds go to last_resort and are re-raised inside the bracket")
    ctx.rule("R-RUN-BRACKET", "run() pairs startTestRun/stopTestRun for a result it created; results are adapted; TestCase.run resets first")
    ctx.rule("R-INTERRUPT-PROPAGATES", "a non-Exception exception raised by any stage is re-raised out of the run, whatever later stages raise")
    case = cm.case_class(ctx)
    Q = f"{TESTCASE}:TestCase.run"
    combos = _combos() if ctx.tier == "thorough" else [c for i, c in enumerate(_combos()) if i % 2 == 0 or "interrupt" in c]
    for su, te, td, cl in combos:
        label = _label(su, te, td, cl)
        d, runs = cm.run_case(ctx, _script(su, te, td, cl))
        one, bracket, catch, interrupt = set(), set(), set(), set()
        kinds = [k for k in (su, te, td, cl) if k not in (None, "-")]
        want_interrupt = "interrupt" in kinds
        for r in runs:
            res = [n.split(".", 1)[1] for n in cm.names(r, ("result.",))]
            ocs = cm.outcomes(r)
            if res.count("startTest") != 1 or res.count("stopTest") != 1 or res[:1] != ["startTest"] or res[-1:] != ["stopTest"]:
                bracket.add(f"the result receives {res}: expected startTest first, stopTest last, each exactly once")
            if len(ocs) != 1:
                one.add(f"{len(ocs)} outcomes are reported ({ocs}); expected exactly one")
            elif not kinds and ocs != ["addSuccess"]:
                one.add(f"nothing raised, yet the outcome is {ocs[0]}")
            elif kinds and ocs == ["addSuccess"]:
                one.add("a stage raised, yet the test is reported as a success")
            if r.kind == "exc" and not (want_interrupt and r.value[:2] == ("exc", "KeyboardInterrupt")):
                catch.add(f"the exception {r.value!r} of user code escapes run()")
            if want_interrupt:
                if not (r.kind == "exc" and r.value[:2] == ("exc", "KeyboardInterrupt")):
                    interrupt.add(f"a KeyboardInterrupt raised by user code does not propagate out of run() (run() {'returns' if r.kind == 'val' else 'raises ' + repr(r.value)})")
                if ocs and ocs != ["addError"]:
                    interrupt.add(f"the interrupted test is reported as {ocs}; expected an error")
                stages = [n for n in cm.names(r, ("user.",))]
                must = ["user.setUp"] + (["user.test", "user.tearDown"] if su is None else []) + ["user.cleanup"]
                if stages != must:
                    interrupt.add(f"after the interrupt the stages run are {stages}; expected {must} (tearDown and the cleanups still run)")
        if not runs:
            bracket.add("no path of run() was followed to its end")
        ctx.check("R-BRACKET", f"[{label}] startTest first, stopTest last, once each", case.node, not bracket, "; ".join(sorted(bracket)), examined=len(runs), construct=f"{Q}::bracket {label}")
        ctx.check("R-ONE-OUTCOME", f"[{label}] exactly one outcome, a success only if nothing raised", case.node, not one, "; ".join(sorted(one)), examined=len(runs), construct=f"{Q}::outcome {label}")
        ctx.check("R-CATCH-ALL", f"[{label}] no exception of user code escapes run() (other than a non-Exception one, re-raised after stopTest)", case.node, not catch,
                  "; ".join(sorted(catch)), examined=len(runs), construct=f"{Q}::escape {label}")
        if want_interrupt:
            ctx.check("R-INTERRUPT-PROPAGATES", f"[{label}] the KeyboardInterrupt is reported as an error, the later stages still run, and it propagates out of run()", case.node, not interrupt,
                      "; ".join(sorted(interrupt)), examined=len(runs), construct=f"{Q}::interrupt {label}")
    ctx.floor("R-ONE-OUTCOME", 12, "stage outcome combinations")

    # any exception that is not an Exception (SystemExit as well as KeyboardInterrupt) wins over what later stages raise
    for te, td in (("exit", "error"), ("exit", None), ("interrupt", "fail")):
        d, runs = cm.run_case(ctx, _script(None, te, td, None))
        problems = set()
        want = cm.KINDS[te][0]
        for r in runs:
            if not (r.kind == "exc" and r.value[:2] == ("exc", want)):
                problems.add(f"the test raises {want}, tearDown {'raises an error' if td else 'returns'}: run() {'returns' if r.kind == 'val' else 'raises ' + repr(r.value)} instead of re-raising the {want}")
            if cm.outcomes(r) != ["addError"]:
                problems.add(f"the outcomes reported are {cm.outcomes(r)}; expected one error")
        ctx.check("R-INTERRUPT-PROPAGATES", f"[test raises {want}, tearDown {td or 'ok'}] the non-Exception exception is re-raised out of run()", case.node, bool(runs) and not problems,
                  "; ".join(sorted(problems)) or "no path", examined=len(runs), construct=f"{Q}::non-exception {te} {td}")
    # a test (method) marked as skipped with unittest.skip: one skip outcome, nothing runs
    d, runs = cm.run_case(ctx, _script(None, None, None, None), extra_attrs={"m_test.__unittest_skip__": TRUE, "m_test.__unittest_skip_why__": ("const", "not today")})
    problems = set()
    for r in runs:
        if cm.outcomes(r) != ["addSkip"] or cm.names(r, ("user.",)) or r.kind != "val":
            problems.add(f"a test marked with unittest.skip gives the outcomes {cm.outcomes(r)} and runs {cm.names(r, ('user.',))}; expected exactly one skip and no user code")
        for n, pos, kw in cm.events(r, ("result.",)):
            if n == "result.addSkip" and ("const", "not today") not in list(pos) + list(kw.values()) and "not today" not in repr(kw):
                problems.add("the skip reason given to unittest.skip does not reach the result")
    ctx.check("R-ONE-OUTCOME", "a test marked with unittest.skip is reported as exactly one skip; no stage runs", case.node, bool(runs) and not problems, "; ".join(sorted(problems)) or "no path",
              examined=len(runs), construct=f"{Q}::unittest-skip")
    # an old-style result (no addSkip): the run still reports one outcome through the adapter
    d, runs = cm.run_case(ctx, _script(None, "skip", None, None), lacks={("result", "addSkip")})
    problems = set()
    for r in runs:
        res = [n.split(".", 1)[1] for n in cm.names(r, ("result.",))]
        if r.kind != "val" or [x for x in res if x.startswith("add")] != ["addSuccess"]:
            problems.add(f"with a result that has no addSkip a skipped test gives {res} and run() {'returns' if r.kind == 'val' else 'raises ' + repr(r.value)}; expected the documented fallback (addSuccess), not an error")
    ctx.check("R-RUN-BRACKET", "results are adapted (ExtendedToOriginalDecorator): outcomes a plain unittest result lacks degrade instead of failing", case.node, bool(runs) and not problems,
              "; ".join(sorted(problems)) or "no path", examined=len(runs), construct=f"{RUNTEST}:RunTest._run_one::adapted")

    # a MultipleExceptions: every constituent is recorded, one outcome; an empty one (known finding) records nothing
    ex1, ex2 = cm.raised("fail", "test-1"), cm.raised("error", "test-2")
    d, runs = cm.run_case(ctx, {"test": [("raise", cm.multi("test", ex1, ex2))]})
    problems = set()
    for r in runs:
        if len(cm.outcomes(r)) != 1 or cm.outcomes(r) == ["addSuccess"] or r.kind != "val":
            problems.add(f"a MultipleExceptions of two exceptions gives the outcomes {cm.outcomes(r)} and run() {'returns' if r.kind == 'val' else 'raises ' + repr(r.value)}")
    ctx.check("R-ONE-OUTCOME", "a MultipleExceptions of two exceptions yields one (unsuccessful) outcome", case.node, bool(runs) and not problems, "; ".join(sorted(problems)) or "no path", examined=len(runs),
              construct=f"{Q}::multiple-exceptions")
    d, runs = cm.run_case(ctx, {"test": [("raise", cm.multi("test"))]})
    bad = [r for r in runs if len(cm.outcomes(r)) != 1 or cm.outcomes(r) == ["addSuccess"]]
    ctx.check("R-SENTINEL-IFF-RECORDED", "a MultipleExceptions with no constituents still makes the test unsuccessful", case.node, bool(runs) and not bad,
              f"the test method raises MultipleExceptions() (no constituents): the outcomes reported are {[cm.outcomes(r) for r in bad]} -- nothing is recorded for the exception, "
              "so the test reports no outcome at all (startTest, stopTest only)", examined=len(runs),
              construct=f"{RUNTEST}:RunTest._got_user_exception::sentinel returned, recorded=Empty, onException not called")

    # an interrupt that arrives inside a MultipleExceptions (as fixtures re-raise what their cleanups raised), at any depth,
    # from the test or from a cleanup with another cleanup still to run: reported, later stages run, re-raised after stopTest
    ki = cm.raised("interrupt", "inner")
    other = cm.raised("error", "other")
    shapes = (("a member of a MultipleExceptions", lambda o: cm.multi(o, other, ki)),
              ("a member of a MultipleExceptions inside a MultipleExceptions", lambda o: cm.multi(o, cm.multi("mid", ki), other)),
              ("nested three deep", lambda o: cm.multi(o, cm.multi("mid", cm.multi("low", other, ki)))))
    for where in ("test", "cleanup"):
        for label, make in shapes:
            script = {"setUp": [("call", "addCleanup", [cm.user("last_cleanup")], []), ("call", "addCleanup", [cm.user("cleanup")], [])], "test": [], "tearDown": [], "cleanup": [], "last_cleanup": []}
            script[where].append(("raise", make(where)))
            d, runs = cm.run_case(ctx, script)
            problems = set()
            for r in runs:
                res = [n.split(".", 1)[1] for n in cm.names(r, ("result.",))]
                if not (r.kind == "exc" and r.value[:2] == ("exc", "KeyboardInterrupt")):
                    problems.add(f"run() {'returns' if r.kind == 'val' else 'raises ' + repr(r.value)[:80]}; expected the KeyboardInterrupt to propagate")
                if cm.outcomes(r) != ["addError"]:
                    problems.add(f"the outcomes reported are {cm.outcomes(r)}; expected one error")
                if res[-1:] != ["stopTest"]:
                    problems.add(f"the result receives {res}: stopTest is not the last call")
                stages = cm.names(r, ("user.",))
                if stages != ["user.setUp", "user.test", "user.tearDown", "user.cleanup", "user.last_cleanup"]:
                    problems.add(f"the stages run are {stages}; every later stage and cleanup must still run")
            ctx.check("R-INTERRUPT-PROPAGATES", f"[the {where} raises a KeyboardInterrupt as {label}] reported as an error, later stages run, re-raised after stopTest", case.node,
                      bool(runs) and not problems, "; ".join(sorted(problems)) or "no path", examined=len(runs), construct=f"{Q}::interrupt in {where} as {label}")

    # the result breaks while the outcome is reported: the bracket is still closed, and the error is not swallowed
    for broken in ("result.addFailure", "result.addSuccess"):
        te = "fail" if broken.endswith("addFailure") else None
        d, runs = cm.run_case(ctx, _script(None, te, None, None), result_raises=(broken,))
        problems = set()
        for r in runs:
            res = [n.split(".", 1)[1] for n in cm.names(r, ("result.",))]
            if res[-1:] != ["stopTest"] or res.count("stopTest") != 1:
                problems.add(f"when {broken} raises, the result receives {res}: stopTest must still be delivered, once")
            if r.kind != "exc" or r.value[:2] != ("exc", "ResultBroken"):
                problems.add(f"the error raised by {broken} is swallowed (run() {'returns' if r.kind == 'val' else 'raises ' + repr(r.value)})")
            if len(cm.outcomes(r)) > 1:
                problems.add(f"a second outcome is attempted after {broken} raised ({cm.outcomes(r)})")
        ctx.check("R-RERAISE", f"an error raised by {broken} propagates, after stopTest, without a second outcome", case.node, bool(runs) and not problems, "; ".join(sorted(problems)) or "no path",
                  examined=len(runs), construct=f"{Q}::broken {broken}")

    # run() without a result: the default result is started and stopped around the test
    script = dict(_script(None, None, None, None))
    script["defaultTestResult"] = [("return", ("wobj", "default_result"))]
    d, runs = cm.new_case(ctx, script)
    runs = [type(r)(r.kind, r.value, r.state.set("self.defaultTestResult", cm.user("defaultTestResult"))) for r in runs]
    runs = d.call(runs, "run", [])
    d.done()
    problems = set()
    for r in runs:
        got = [n.split(".", 1)[1] for n in cm.names(r, ("default_result.",))]
        if got[:2] != ["startTestRun", "startTest"] or got[-2:] != ["stopTest", "stopTestRun"] or got.count("startTestRun") != 1 or got.count("stopTestRun") != 1:
            problems.add(f"a result created by run() receives {got}; expected startTestRun, the test's bracket, stopTestRun")
    script_i = dict(_script(None, "interrupt", None, None))
    script_i["defaultTestResult"] = [("return", ("wobj", "default_result"))]
    d2, runs2 = cm.new_case(ctx, script_i)
    runs2 = d2.call([type(r)(r.kind, r.value, r.state.set("self.defaultTestResult", cm.user("defaultTestResult"))) for r in runs2], "run", [])
    d2.done()
    for r in runs2:
        got = [n.split(".", 1)[1] for n in cm.names(r, ("default_result.",))]
        if got[-1:] != ["stopTestRun"]:
            problems.add(f"when the test is interrupted, a result created by run() receives {got}: stopTestRun is not delivered")
    ctx.check("R-RUN-BRACKET", "run() without a result creates the default result and brackets the test with startTestRun / stopTestRun", case.node, bool(runs) and not problems,
              "; ".join(sorted(problems)) or "no path", examined=len(runs), construct=f"{RUNTEST}:RunTest.run::run-bracket")
    d, runs = cm.run_case(ctx, _script(None, None, None, None))
    got = [[n.split(".", 1)[1] for n in cm.names(r, ("result.",))] for r in runs]
    ok = bool(runs) and all("startTestRun" not in g and "stopTestRun" not in g for g in got)
    ctx.check("R-RUN-BRACKET", "a result handed to run() is not started or stopped by it", case.node, ok, f"the caller's result receives {got}", examined=len(runs), construct=f"{RUNTEST}:RunTest.run::caller-result")
    # running the same case twice gives the same history: every run starts from a reset case with a fresh runner
    d, runs = cm.run_case(ctx, _script(None, "fail", None, None), times=2)
    problems = set()
    for r in runs:
        seq = cm.names(r)
        half = len(seq) // 2
        if len(seq) % 2 or seq[:half] != seq[half:]:
            problems.add(f"the second run of the same test differs from the first: {seq[:half]} then {seq[half:]}")
    ctx.check("R-RUN-BRACKET", "running the same TestCase twice repeats the same calls and outcome", case.node, bool(runs) and not problems, "; ".join(sorted(problems)) or "no path", examined=len(runs),
              construct=f"{TESTCASE}:TestCase.run::rerun")
