"""testtools.TestCase run as written (shared by C01, C02, C03, C05, C07).

The analysed object is a TestCase (constructed through its real __init__); TestCase.run, RunTest,
ExtendedToOriginalDecorator and everything they create are interpreted by ttsa.objects.  Symbolic are only the
user's code -- setUp / the test method / tearDown / cleanups / addOnException handlers, each a scripted
sequence of actions: calls of TestCase API methods on the case, then returning or raising -- and the result
object the run reports to (it accepts every call; each call is logged in order).
"""

from ..absint import FALSE, NONE, TOP, TRUE, State, exc, unbox_deep, val
from ..loader import AnalysisError
from .common import TESTCASE
from . import streamobjects as so

RESULT = ("wobj", "result")
STAGES = ("setUp", "test", "tearDown")
# kinds of exception user code raises: abstract value, and the outcome method TestCase's handler table maps it to
KINDS = {
    "fail": ("AssertionError", "addFailure"),
    "error": ("RuntimeError", "addError"),
    "skip": ("SkipTest", "addSkip"),
    "xfail": ("_ExpectedFailure", "addExpectedFailure"),
    "uxsuccess": ("_UnexpectedSuccess", "addUnexpectedSuccess"),
    "interrupt": ("KeyboardInterrupt", "addError"),
    "exit": ("SystemExit", "addError"),
}
# exception classes of the user's own: subclasses of the classes testtools knows
SUBCLASSES = {
    "skip-subclass": ("UserSkip", ("SkipTest",), "addSkip"),
    "fail-subclass": ("UserAssertion", ("AssertionError",), "addFailure"),
    "xfail-subclass": ("UserExpectedFailure", ("_ExpectedFailure",), "addExpectedFailure"),
    "error-subclass": ("UserError", ("Exception",), "addError"),
    "custom": ("CustomError", ("Exception",), "addError"),
}
for _k, (_cls, _bases, _method) in SUBCLASSES.items():
    KINDS[_k] = (_cls, _method)
OUTCOME_METHODS = ("addSuccess", "addFailure", "addError", "addSkip", "addExpectedFailure", "addUnexpectedSuccess")
UNSUCCESSFUL = ("addFailure", "addError", "addUnexpectedSuccess")


def raised(kind, origin, args=None):
    """An exception of that kind raised by ``origin``; ``args``: the arguments it was made with (default: one message)."""
    return ("exc", KINDS[kind][0], origin) if args is None else ("exc", KINDS[kind][0], origin, tuple(args))


def multi(origin, *members):
    """A MultipleExceptions whose args are the exc_info triples of ``members``."""
    from ..effects import exc_info_of
    return ("exc", "MultipleExceptions", origin, tuple(exc_info_of(m) for m in members))


def user(name):
    return ("wobj", "m_" + name)


def _unittest_attributes():
    """Every attribute an instance of the standard library's unittest.TestCase has (the external base class of
    testtools.TestCase): the environment's own definition, read from the installed standard library."""
    import unittest
    return frozenset(dir(unittest.TestCase("run")))


class CaseDomain(so.StreamDomain):
    closed_private = True
    _BASE_ATTRS = _unittest_attributes()

    def root_attr_absent(self, attr):
        # The case was built by its real constructor and only scripted user code touches it: an attribute that the state,
        # the script, the classes of the repository and unittest.TestCase all do not define does not exist.
        return super().root_attr_absent(attr) or attr not in self._BASE_ATTRS
    invented_bases = {cls: bases for cls, bases, _ in SUBCLASSES.values()}
    """``script``: user callable name -> list of actions: ("call", method, pos, kw) on the case, ("raise", exception),
    ("return", value), ("set", attribute, value), ("handler", entry, first) -- the user inserts the entry at the front /
    appends it to ``self.exception_handlers`` --, ("once", action) -- the action in the first call of that callable
    only; a callable without script returns None.  ``result_raises``: result methods that raise."""

    def __init__(self, classes, script, result_raises=(), lacks=(), extra_attrs=None, answers=None, snapshot_on=None, **kw):
        self.script = dict(script)
        self.snapshot_on = snapshot_on   # ("user.<name>", state keys): what those keys hold whenever that user function is called
        self.script_flags = {k: v for k, v in self.script.items() if k.startswith("no_upcall_")}
        raising = set(result_raises)
        answers = dict(answers or {})

        def oracle(n, pos, kw_):
            if n in raising:
                return [("exc", ("exc", "ResultBroken", n))]
            if n in answers:
                return list(answers[n])   # what a collaborator (a fixture, a patched object ...) answers: [("val", v) | ("exc", e)]
            return None
        attrs = {"self": ("self",), "self.failureException": ("excclass", "AssertionError"), "self.skipException": ("excclass", "SkipTest")}
        attrs.update(extra_attrs or {})
        lacks = set(lacks) | {("result", "failfast"), ("result", "tb_locals"), ("result", "current_tags")}
        for name in list(self.script) + list(STAGES):
            for a in ("_run_test_with", "__unittest_expecting_failure__", "__unittest_skip__", "__unittest_skip_why__", "__self__"):
                if f"m_{name}.{a}" not in attrs:
                    lacks.add(("m_" + name, a))
        super().__init__(classes, accepting=("result", "default_result", "fixture", "patched", "matcher", "mismatch") + tuple(kw.pop("accepting_extra", ())), attrs=attrs, oracle=oracle, lacks=lacks,
                         ctors={"TracebackContent", "content.TracebackContent", "text_content", "content.text_content", "StacktraceContent", "content.StacktraceContent"} | set(kw.pop("ctors", ())), log_cap=120, **kw)

    def apply(self, interp, fn, pos, kw, st, fr):
        if isinstance(fn, tuple) and fn[:1] == ("wobj",) and isinstance(fn[1], str) and fn[1].startswith("m_"):
            name = fn[1][2:]
            pos_, kw_ = tuple(unbox_deep(v, st) for v in pos), tuple((k, unbox_deep(v, st)) for k, v in kw)
            st = st.set("ev.calls", st.get("ev.calls", ()) + (("user." + name, pos_, kw_, "called"),))
            if self.snapshot_on is not None and self.snapshot_on[0] == "user." + name:
                st = st.set("ev.snapshots", st.get("ev.snapshots", ()) + (("user." + name, tuple(unbox_deep(st.get(k, None), st) for k in self.snapshot_on[1])),))
            states, results = [st], []
            if name in ("setUp", "tearDown") and not self.script_flags.get("no_upcall_" + name):
                # the base-class upcall a well-behaved setUp / tearDown makes first: TestCase.setUp / tearDown as written
                states = []
                for r in self.apply(interp, ("method", name), [], [], st, fr):
                    if r.kind == "exc":
                        results.append(r)
                    else:
                        states.append(r.state)
            for i, action in enumerate(self.script.get(name, ())):
                held = []
                if action[0] == "once":
                    # done by the first call of this user function only (what differs between two runs of one test)
                    key = f"ev.once.{name}.{i}"
                    held = [s_ for s_ in states if s_.get(key, None) is not None]
                    states = [s_.set(key, TRUE) for s_ in states if s_.get(key, None) is None]
                    action = action[1]
                if action[0] == "call":
                    nxt = []
                    for s_ in states:
                        for r in self.apply(interp, ("method", action[1]), list(action[2]), list(action[3]) if len(action) > 3 else [], s_, fr):
                            if r.kind == "exc":
                                results.append(r)   # the API call raises inside the user's code: it propagates from there
                            else:
                                nxt.append(r.state)
                    states = nxt
                elif action[0] == "raise":
                    results.extend(exc(action[1], s_) for s_ in states)
                    states = []
                elif action[0] == "return":
                    results.extend(val(action[1], s_) for s_ in states)
                    states = []
                elif action[0] == "set":
                    states = [s_.set("self." + action[1], action[2]) for s_ in states]
                elif action[0] == "handler":
                    # self.exception_handlers.insert(0, entry) / .append(entry), done by the user's code while the test runs
                    states = [s2 for s2 in (with_handler(s_, action[1], action[2]) for s_ in states) if s2 is not None]
                states = states + held
                if not states:
                    break
            results.extend(val(NONE, s_) for s_ in states)
            return results
        return super().apply(interp, fn, pos, kw, st, fr)

    def attr_of_value(self, interp, value, attr, st, fr):
        if isinstance(value, tuple) and value[:2] == ("exc", "MultipleExceptions") and attr == "args" and len(value) >= 4:
            return [val(("tuple",) + tuple(value[3]), st)]
        return super().attr_of_value(interp, value, attr, st, fr)


def with_handler(st, entry, first):
    """The state after `case.exception_handlers.insert(0, entry)` / `.append(entry)`; None when that is not a list."""
    from ..absint import heap_key, is_handle
    v = st.get("self.exception_handlers", None)
    key = heap_key(v) if is_handle(v) else "self.exception_handlers"
    cur = st.get(key, None)
    if not (isinstance(cur, tuple) and cur[:1] == ("tuple",)):
        return None
    return st.set(key, ("tuple", entry) + tuple(cur[1:]) if first else cur + (entry,))


def case_class(ctx):
    cls = ctx.classes.get(TESTCASE, "TestCase")
    if cls is None:
        raise AnalysisError("anchor vanished: testtools.testcase.TestCase")
    return cls


def new_case(ctx, script, **dom_kw):
    """-> (driver, runs after construction)."""
    dom = CaseDomain(ctx.classes, script, **dom_kw)
    d = so.Driver(ctx, case_class(ctx), dom, depth=60)
    # (unittest.TestCase.__init__, which testtools' constructor upcalls, gives every case an empty list of cleanups of its own)
    st0 = State([("self._testMethodName", ("const", "test_it")), ("self.test_it", user("test")), ("self.setUp", user("setUp")), ("self.tearDown", user("tearDown")), ("self._cleanups", ("tuple",))])
    return d, d.construct([("const", "test_it")], state=st0)


def run_case(ctx, script, result=RESULT, times=1, **dom_kw):
    d, runs = new_case(ctx, script, **dom_kw)
    for _ in range(times):
        runs = d.call(runs, "run", [result] if result is not None else [])
    d.done()
    return d, runs


def events(r, prefixes=("result.", "user.", "default_result.")):
    """The observable history of a run: calls received by the result and calls of user code, in order."""
    return [(n, pos, dict(kw)) for n, pos, kw, tag in r.state.get("ev.calls", ()) if n.startswith(prefixes)]


def names(r, prefixes=("result.", "user.")):
    return [n for n, _, _ in events(r, prefixes)]


def outcomes(r):
    return [n.split(".", 1)[1] for n, _, _ in events(r, ("result.",)) if n.split(".", 1)[1] in OUTCOME_METHODS]
