"""C07 -- mismatches are always describable; assertThat/expectThat report them faithfully."""

import ast

from ..absint import NONE, NOTNONE, TOP, DefaultDomain, Interp, State, exc, val
from ..alias import Aliases
from ..astutil import FUNC_TYPES, attr_chain, dotted, norm, walk_shallow
from ..cfg import live_nodes
from ..loader import AnalysisError
from ..symbols import instance_attrs_assigned
from .common import TESTCASE, cfg_of, module_function, nodes_calling, own_method
from .matchmodel import (MATCHER_MODULES, expr_kind, function_return_kinds, is_mismatch_ctor, matcher_classes, mismatch_classes,
                         resolve_class_name)

EXPLANATION = (
    "Class-table rules over every stock matcher and mismatch class (testtools/matchers/*.py and "
    "twistedsupport/_matchers.py): R-STR-RESOLVES (__str__ resolves through the MRO to a concrete body, "
    "not the abstract Matcher.__str__ stub; object.__str__ is accepted), R-ATTR-DEFINED (every self.x "
    "read resolves to an attribute assigned somewhere in the class's MRO, or in every concrete subclass "
    "of an abstract base), R-DESCRIBE-RESOLVES (every mismatch class resolves describe to a concrete "
    "body -- or to Mismatch.describe with a description reaching Mismatch.__init__ at every construction "
    "site -- and get_details to a dict-returning body), R-DESCRIBE-TEXT (return-kind inference: every "
    "describe returns text or delegates to another describe on all paths), R-FORMAT-SAFE (a %-format "
    "whose right operand is a bare expression that may be the matchee must be dominated by a test "
    "excluding tuples), R-ASSERT-IFF (nullness abstract interpretation with the matcher's verdict "
    "symbolic: assertThat/assert_that raise iff the verdict is a mismatch, expectThat never raises but "
    "sets force_failure; MismatchError.__str__ describes on both arms and quotes the matchee with "
    "text_repr/repr). The text_repr round trip over all code points is a runtime value property and is "
    "not decided."
)


def run(ctx):
    ctx.rule("R-STR-RESOLVES", "__str__ of every stock matcher resolves to a concrete definition")
    ctx.rule("R-ATTR-DEFINED", "every self.<attr> read in matcher / mismatch classes is defined in the class's MRO")
    ctx.rule("R-DESCRIBE-RESOLVES", "every mismatch class has a working describe() and a dict-returning get_details()")
    ctx.rule("R-DESCRIBE-TEXT", "describe() returns text (or delegates to describe) on all paths")
    ctx.rule("R-FORMAT-SAFE", "%-formatting of a possibly-tuple matchee is guarded or uses a 1-tuple")
    ctx.rule("R-ASSERT-IFF", "assertThat/assert_that raise iff match() gave a mismatch; expectThat never raises but forces failure")
    classes = ctx.classes
    mclasses = matcher_classes(ctx)

    # ------------------------------------------------------------------ __str__ resolves
    n = 0
    stock = stock_matcher_names(ctx)
    for c in mclasses:
        owner, mf = classes.resolve_method(c, "match")
        if classes.is_abstract_stub(mf):
            continue  # abstract base, not a stock matcher
        if c.name not in stock:
            ctx.note(f"R-STR-RESOLVES: {c.name} is a private building block (not exported, not returned by a public factory); not a stock matcher")
            continue
        so, sf = classes.resolve_method(c, "__str__")
        ok = True
        where = "object.__str__"
        if isinstance(sf, FUNC_TYPES) and so is not None and not so.external:
            where = f"{so.name}.__str__"
            ok = not classes.is_abstract_stub(sf)
        n += 1
        ctx.check("R-STR-RESOLVES", f"{c.name}.__str__ -> {where}", c.node, ok,
                  f"str({c.name}(...)) raises NotImplementedError: __str__ resolves to the abstract stub {where}; a verbose MismatchError cannot be rendered",
                  construct=f"{c.module.name}:{c.name}::__str__")
    ctx.floor("R-STR-RESOLVES", 34, "stock matcher classes")

    # ------------------------------------------------------------------ attributes defined
    scope = [c for c in classes.all if not c.external and (c.module.name in MATCHER_MODULES or ctx.tier == "thorough")]
    n_reads = 0
    for c in sorted(scope, key=lambda c: (c.module.name, c.node.lineno)):
        if c.module.name not in ctx.repo.modules:
            continue
        ctx.repo.module(c.module.name)
        mro = classes.mro(c)
        unresolved_base = any(b is None for k in mro for b in k.bases) and not all(
            (dotted(be) or "").split(".")[-1] in ("object", "Exception", "AssertionError", "BaseException")
            for k in mro for be, b in zip(k.base_exprs, k.bases) if b is None)
        if unresolved_base or any(k.own_method("__getattr__") is not None for k in mro):
            continue  # attributes may come from a base we cannot see / dynamic lookup
        # a mix-in: calls super().m() although nothing in its own MRO defines m
        is_mixin = False
        for f in c.methods.values():
            for call in walk_shallow(f, include_self=False):
                if isinstance(call, ast.Call):
                    ch = attr_chain(call.func)
                    if ch and ch[0] == "super()" and len(ch) == 2 and not any(ch[1] in k.methods for k in mro[1:]) and ch[1] not in ("__init__",):
                        is_mixin = True
        if is_mixin:
            ctx.note(f"R-ATTR-DEFINED: {c.name} is a mix-in (super() calls outside its own MRO); its attributes come from the class it is mixed into")
            continue
        defined = set()
        for k in mro:
            defined |= set(k.methods) | set(k.attrs) | set(k.properties)
            for f in k.methods.values():
                defined |= instance_attrs_assigned(f)
            for s in k.node.body:
                if isinstance(s, ast.AnnAssign) and isinstance(s.target, ast.Name):
                    defined.add(s.target.id)
        subs = [s for s in classes.subclasses(c, strict=True)]
        for mname, f in c.methods.items():
            if not f.args.args:
                continue
            selfname = f.args.args[0].arg
            if any((dotted(d) or "") in ("staticmethod", "classmethod") for d in f.decorator_list):
                continue
            for node in walk_shallow(f, include_self=False):
                if not (isinstance(node, ast.Attribute) and isinstance(node.ctx, ast.Load) and isinstance(node.value, ast.Name) and node.value.id == selfname):
                    continue
                a = node.attr
                if a.startswith("__") and a.endswith("__"):
                    continue
                if a.startswith("__"):
                    a2 = "_" + c.name.lstrip("_") + a
                else:
                    a2 = a
                # reads protected by `except AttributeError`
                guarded = False
                p = node
                while p is not None and p is not f:
                    par = getattr(p, "_parent", None)
                    if isinstance(par, ast.Try) and any(p is s for s in par.body) and any(h.type is not None and "AttributeError" in norm(h.type) for h in par.handlers):
                        guarded = True
                    p = par
                if guarded:
                    continue
                # dead code under a constant-false guard
                dead = False
                p = node
                while p is not None and p is not f:
                    par = getattr(p, "_parent", None)
                    if isinstance(par, (ast.If, ast.While)) and any(p is s_ or any(p is w for w in ast.walk(s_)) for s_ in par.body):
                        t = par.test
                        first = t.values[0] if isinstance(t, ast.BoolOp) and isinstance(t.op, ast.And) else t
                        if isinstance(first, ast.Constant) and not first.value:
                            dead = True
                    p = par
                if dead:
                    continue
                ok = a in defined or a2 in defined
                why = ""
                if not ok and subs:
                    # abstract-base pattern: every concrete subclass provides it
                    missing = []
                    for s in subs:
                        sdef = set()
                        for k in classes.mro(s):
                            sdef |= set(k.methods) | set(k.attrs) | set(k.properties)
                            for ff in k.methods.values():
                                sdef |= instance_attrs_assigned(ff)
                        if a not in sdef:
                            missing.append(s.name)
                    ok = not missing
                    why = f" (subclasses without it: {missing})" if missing else ""
                n_reads += 1
                if not ok:
                    ctx.check("R-ATTR-DEFINED", f"{c.name}.{mname}: self.{a}", node, False,
                              f"{c.name}.{mname} reads self.{a}, which is never assigned in {c.name} or its bases{why}: AttributeError at run time",
                              construct=f"{c.module.name}:{c.name}.{mname}::self.{a}")
    ctx.check("R-ATTR-DEFINED", f"{n_reads} self-attribute reads resolved", None, n_reads >= 150, "implausibly few attribute reads analysed",
              examined=n_reads, construct="R-ATTR-DEFINED::reads")

    # ------------------------------------------------------------------ describe / get_details resolve
    base_mismatch = None
    for c in classes.all:
        if c.name == "Mismatch" and c.module.name == "testtools.matchers._impl":
            base_mismatch = c
    if base_mismatch is None:
        raise AnalysisError("anchor vanished: testtools.matchers._impl:Mismatch")
    base_describe = base_mismatch.own_method("describe")
    mm = mismatch_classes(ctx)
    # construction sites
    sites = {}
    for mod in ctx.repo.modules.values():
        for call in ast.walk(mod.tree):
            if isinstance(call, ast.Call):
                ci = is_mismatch_ctor(ctx, mod, call)
                if ci is not None:
                    sites.setdefault(ci, []).append((mod, call))
    for c in mm:
        do, df = classes.resolve_method(c, "describe")
        ok = isinstance(df, FUNC_TYPES)
        msg = "describe does not resolve"
        if ok and df is base_describe:
            # needs a description through Mismatch.__init__
            io, initf = classes.resolve_method(c, "__init__")
            if initf is not base_mismatch.own_method("__init__"):
                passes = any(isinstance(x, ast.Call) and dotted(x.func) in ("super().__init__", "Mismatch.__init__") and (
                    (len(x.args) >= (2 if dotted(x.func) == "Mismatch.__init__" else 1) and not (isinstance(x.args[-1 if dotted(x.func) != "Mismatch.__init__" else 1], ast.Constant) and x.args[0].value is None))
                    or any(k.arg == "description" for k in x.keywords)) for x in ast.walk(initf)) if isinstance(initf, FUNC_TYPES) else False
                ok = passes
                msg = f"{c.name} inherits Mismatch.describe but its __init__ never passes a description to Mismatch.__init__: describe() raises NotImplementedError"
            else:
                bad = []
                for mod, call in sites.get(c, []):
                    a0 = call.args[0] if call.args else next((k.value for k in call.keywords if k.arg == "description"), None)
                    if a0 is None or (isinstance(a0, ast.Constant) and not a0.value):
                        bad.append(call)
                ok = not bad
                msg = f"{c.name}(...) is constructed without a description at {[getattr(b, 'lineno', 0) for b in bad]}: describe() raises NotImplementedError"
        ctx.check("R-DESCRIBE-RESOLVES", f"{c.name}.describe -> {do.name if do else None}.describe", c.node, ok, msg,
                  construct=f"{c.module.name}:{c.name}::describe")
        go, gf = classes.resolve_method(c, "get_details")
        kinds = function_return_kinds(ctx, go.module, gf) if isinstance(gf, FUNC_TYPES) else {"missing"}
        ok = kinds <= {"Dict", "Attr", "DetailsDelegate"}
        ctx.check("R-DESCRIBE-RESOLVES", f"{c.name}.get_details -> {go.name if go else None}.get_details ({sorted(kinds)})", c.node, ok,
                  f"get_details of {c.name} can return {sorted(kinds - {'Dict', 'Attr', 'DetailsDelegate'})} instead of a dict",
                  construct=f"{c.module.name}:{c.name}::get_details")
    ctx.floor("R-DESCRIBE-RESOLVES", 26)

    # ------------------------------------------------------------------ describe returns text
    for c in mm:
        f = c.methods.get("describe")
        if f is None:
            continue
        ctx.analysed(f)
        kinds = function_return_kinds(ctx, c.module, f)
        bad = kinds - {"Text", "DescribeDelegate", "Attr", "Param"}
        ctx.check("R-DESCRIBE-TEXT", f"{c.name}.describe returns {sorted(kinds)}", f, not bad,
                  f"{c.name}.describe can return {sorted(bad)} (must be text on every path)", construct=f"{c.module.name}:{c.name}.describe::kinds")
    ctx.floor("R-DESCRIBE-TEXT", 13)

    # ------------------------------------------------------------------ format safety
    n_fmt = check_format_safe(ctx, "C07")
    ctx.floor("R-FORMAT-SAFE", 3, "%-format sites with a bare right operand")

    # ------------------------------------------------------------------ assert iff mismatch
    check_assert_iff(ctx)
    check_force_honoured(ctx)
    me = None
    for c in classes.all:
        if c.name == "MismatchError" and c.module.name == "testtools.matchers._impl":
            me = c
    sf = me.own_method("__str__") if me else None
    if sf is None:
        raise AnalysisError("anchor vanished: MismatchError.__str__")
    g = cfg_of(ctx, sf)
    lv = live_nodes(g)
    desc = nodes_calling(g, lambda c: dotted(c.func) == "self.mismatch.describe", lv)
    esc = g.escape_path([g.entry], set(desc), targets=[g.exit_return]) if desc else [0]
    ctx.check("R-ASSERT-IFF", "MismatchError.__str__ describes the mismatch on every path", sf, bool(desc) and esc is None,
              "a path through MismatchError.__str__ does not include mismatch.describe()", construct="testtools.matchers._impl:MismatchError.__str__::describe")
    quoting = {dotted(c.func) for c in walk_shallow(sf, include_self=False) if isinstance(c, ast.Call)}
    ctx.check("R-ASSERT-IFF", "verbose arm quotes the matchee with text_repr / repr", sf, {"text_repr", "repr"} <= quoting,
              "the verbose message no longer renders text matchees with text_repr and others with repr", construct="testtools.matchers._impl:MismatchError.__str__::quote")
    kinds = function_return_kinds(ctx, me.module, sf)
    ctx.check("R-ASSERT-IFF", f"MismatchError.__str__ returns text ({sorted(kinds)})", sf, kinds <= {"Text", "DescribeDelegate", "Param", "Attr"} | ({"Text"}),
              f"__str__ can return {sorted(kinds)}", construct="testtools.matchers._impl:MismatchError.__str__::kinds")
    ctx.assume("no mismatch object is falsy (decided by C06 R-NO-FALSY-MISMATCH)")


def stock_matcher_names(ctx):
    """Public matcher classes + classes returned by public module-level factories."""
    names = set()
    for modname in MATCHER_MODULES:
        m = ctx.repo.module(modname)
        for s in m.tree.body:
            if isinstance(s, ast.ClassDef) and not s.name.startswith("_"):
                names.add(s.name)
            if isinstance(s, FUNC_TYPES) and not s.name.startswith("_"):
                for r in ast.walk(s):
                    if isinstance(r, ast.Return) and isinstance(r.value, ast.Call) and isinstance(r.value.func, ast.Name):
                        names.add(r.value.func.id)
                    if isinstance(r, ast.Return) and isinstance(r.value, ast.Name):
                        # module-level singleton: NAME = _Class()
                        for t in m.tree.body:
                            if isinstance(t, ast.Assign) and dotted(t.targets[0]) == r.value.id and isinstance(t.value, ast.Call) and isinstance(t.value.func, ast.Name):
                                names.add(t.value.func.id)
    return names


def check_format_safe(ctx, prop):
    """R-FORMAT-SAFE over the matcher modules; returns number of sites examined."""
    n = 0
    for modname in MATCHER_MODULES:
        m = ctx.repo.module(modname)
        for f in ast.walk(m.tree):
            if not isinstance(f, FUNC_TYPES):
                continue
            sites = [b for b in walk_shallow(f, include_self=False) if isinstance(b, ast.BinOp) and isinstance(b.op, ast.Mod)]
            if not sites:
                continue
            al = Aliases(f, is_method=getattr(f, "_class", None) is not None and not any(dotted(d) == "staticmethod" for d in f.decorator_list))
            for b in sites:
                lk = expr_kind(ctx, m, f, b.left)
                if "Text" not in lk and not (isinstance(b.left, ast.Attribute) and b.left.attr in ("message",)):
                    continue
                if isinstance(b.right, (ast.Tuple, ast.Dict)):
                    continue
                n += 1
                origins = al.of(b.right)
                may_be_matchee = any(o[0] == "param" for o in origins) and f.name in ("match", "describe", "_got_result", "_got_failure", "_got_no_result", "_got_success")
                if not may_be_matchee:
                    ctx.check("R-FORMAT-SAFE", f"{modname.split('.')[-1]}:{f.name}: {norm(b)[:50]}", b, True)
                    continue
                guarded = False
                p = b
                while p is not None and p is not f:
                    par = getattr(p, "_parent", None)
                    if isinstance(par, ast.If) and any(p is s or any(p is w for w in ast.walk(s)) for s in par.body):
                        t = par.test
                        if (isinstance(t, ast.UnaryOp) and isinstance(t.op, ast.Not) and isinstance(t.operand, ast.Call) and dotted(t.operand.func) == "isinstance"
                                and norm(t.operand.args[0]) == norm(b.right) and "tuple" in norm(t.operand.args[1])):
                            guarded = True
                    p = par
                ctx.check("R-FORMAT-SAFE", f"{modname.split('.')[-1]}:{f.name}: {norm(b)[:50]}", b, guarded,
                          f"`{norm(b)}`: the right operand may be the matchee itself; for a tuple matchee (e.g. an exc_info tuple) %-formatting raises TypeError "
                          "instead of returning a Mismatch -- format a 1-tuple `(x,)` or exclude tuples first",
                          construct=f"{modname}:{getattr(getattr(f, '_class', None), 'name', '')}.{f.name}::{norm(b)}")
    return n


class _VerdictDomain(DefaultDomain):
    """match() yields a symbolic verdict; everything else is opaque and total."""

    def truth(self, value):
        if value == ("mismatch",):
            return "T"
        return super().truth(value)

    def is_none(self, value):
        if value == ("mismatch",):
            return "F"
        return super().is_none(value)

    def __init__(self, classes, receiver):
        self.classes = classes
        self.receiver = receiver

    def call(self, interp, call, st, fr):
        d = dotted(call.func)
        if isinstance(call.func, ast.Attribute) and call.func.attr == "match":
            return [val(NONE, st.set("ev.verdict", "none")), val(("mismatch",), st.set("ev.verdict", "mismatch"))]
        ch = attr_chain(call.func)
        if ch and ch[0] == "self" and len(ch) == 2 and fr.receiver is not None:
            owner, f = self.classes.resolve_method(fr.receiver, ch[1])
            if isinstance(f, FUNC_TYPES) and owner is not None and not owner.external and ch[1] in ("_matchHelper",):
                params = [p.arg for p in f.args.args][1:]
                argvals = {}
                out = []
                for r in interp.eval_list(list(call.args), st, fr):
                    if r.kind == "exc":
                        out.append(r)
                        continue
                    for i, v in enumerate(r.value):
                        if i < len(params):
                            argvals[params[i]] = v
                    out.extend(interp.inline(f, argvals, r.state, fr, receiver=fr.receiver))
                return out
        if d in ("MismatchError",):
            return [val(NOTNONE, st)]
        if d == "self.addDetailUniqueName":
            return [val(NONE, st.set("ev.details", 1))]
        return [val(TOP if d not in ("MismatchError",) else NOTNONE, st)]

    def store_attr(self, key, value, st, fr):
        if key == "self.force_failure":
            return st.set("ev.forced", 1)
        return None

    def raised_value(self, stmt, value, st, fr):
        return ("raised", norm(stmt.exc)[:30])


def check_force_honoured(ctx):
    """The runner's half of "expectThat makes the test fail once it has finished": on the
    abstract run of RunTest (the same model C01/C03 use), whenever force_failure is set --
    or may be set, because no stage examined it after the last piece of user code ran --
    the single outcome is a failing one."""
    from . import runmodel
    from .common import RUNTEST
    ctx.rule("R-FORCE-HONOURED", "a set force_failure flag makes every finished run unsuccessful, whatever the stages raise")
    rt = ctx.classes.get(RUNTEST, "RunTest")
    rc = own_method(ctx, RUNTEST, "RunTest", "_run_core")
    kres, _ = runmodel.analyse_kinds(ctx, rt, kinds=("bad", "soft") if ctx.tier == "quick" else runmodel.KINDS)
    n_set = 0
    for label, suffix, ok, r in runmodel.force_verdicts(kres):
        n_set += label.startswith("force_failure set")
        ctx.check("R-FORCE-HONOURED", label, rc, ok,
                  "an expectThat mismatch does not make the finished test fail on this path: the run ends with a success, a skip or an expected failure",
                  path=runmodel.fmt_log(r.state), construct=f"{RUNTEST}:RunTest._run_core::{suffix}")
    ctx.check("R-FORCE-HONOURED", "the abstract run reads force_failure and finds it set on some path", rc, n_set >= 1,
              "no path of the run examines case.force_failure", construct=f"{RUNTEST}:RunTest._run_core::force-read")


def verdict_outcomes(ctx, name):
    """{(verdict, 'val'|'exc', force_failure set?)} over the paths of TestCase.assertThat / expectThat or assertions.assert_that,
    with matcher.match() returning a symbolic verdict (none / mismatch)."""
    classes = ctx.classes
    if name == "assert_that":
        recv, f = None, module_function(ctx, "testtools.assertions", "assert_that")
    else:
        recv = classes.get(TESTCASE, "TestCase")
        f = own_method(ctx, TESTCASE, "TestCase", name)
    dom = _VerdictDomain(classes, recv)
    it = Interp(dom, max_depth=4)
    res = it.analyze(f, {}, State(), receiver=recv, name=name)
    ctx.stats["states"] += it.steps
    for fn in it.functions:
        ctx.analysed(fn)
    return f, {(r.state.get("ev.verdict", "?"), r.kind, r.state.get("ev.forced", 0)) for r in res}


def check_assert_iff(ctx):
    classes = ctx.classes
    tc = classes.get(TESTCASE, "TestCase")
    targets = [("assertThat", tc, own_method(ctx, TESTCASE, "TestCase", "assertThat"), "raise"),
               ("expectThat", tc, own_method(ctx, TESTCASE, "TestCase", "expectThat"), "force")]
    af = module_function(ctx, "testtools.assertions", "assert_that")
    targets.append(("assert_that", None, af, "raise"))
    for name, recv, f, mode in targets:
        dom = _VerdictDomain(classes, recv)
        it = Interp(dom, max_depth=4)
        res = it.analyze(f, {}, State(), receiver=recv, name=name)
        ctx.stats["states"] += it.steps
        for fn in it.functions:
            ctx.analysed(fn)
        seen = {}
        for r in res:
            v = r.state.get("ev.verdict", "?")
            seen.setdefault((v, r.kind, r.state.get("ev.forced", 0)), r)
        for (verdict, kind, forced), r in sorted(seen.items(), key=repr):
            if verdict == "?":
                ok = False
                msg = "a path returns without having consulted matcher.match()"
            elif mode == "raise":
                ok = (kind == "exc") == (verdict == "mismatch")
                msg = (f"{name}: verdict {verdict} but the call {'raises' if kind == 'exc' else 'returns normally'}")
            else:
                ok = kind == "val" and (forced == 1) == (verdict == "mismatch")
                msg = f"{name}: verdict {verdict}, {'raises' if kind == 'exc' else 'returns'}, force_failure {'set' if forced else 'not set'}"
            ctx.check("R-ASSERT-IFF", f"{name}: verdict={verdict} -> {'raise' if kind == 'exc' else 'return'}{' +force_failure' if forced else ''}", f, ok, msg,
                      construct=f"{f._module.name}:{name}::verdict={verdict} kind={kind} forced={forced}")
        if mode == "raise":
            kinds = {(v, k) for (v, k, _) in seen}
            ctx.check("R-ASSERT-IFF", f"{name}: both verdicts explored", f, {("none", "val"), ("mismatch", "exc")} <= kinds, f"explored {sorted(kinds)}",
                      construct=f"{f._module.name}:{name}::explored")
    # the raised object is a MismatchError built from (matchee, matcher, mismatch, verbose)
    for modname, qual in ((TESTCASE, "TestCase._matchHelper"), ("testtools.assertions", "assert_that")):
        f = module_function(ctx, modname, qual)
        builds = [c for c in walk_shallow(f, include_self=False) if isinstance(c, ast.Call) and dotted(c.func) == "MismatchError"]
        ok = len(builds) == 1 and len(builds[0].args) == 4 and [dotted(a) for a in builds[0].args][0] == "matchee" and dotted(builds[0].args[3]) == "verbose"
        ctx.check("R-ASSERT-IFF", f"{qual} builds MismatchError(matchee, matcher, mismatch, verbose)", f, ok,
                  "the MismatchError is not built from the matchee, the matcher, the mismatch and the verbosity", construct=f"{modname}:{qual}::error")
