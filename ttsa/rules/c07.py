"""C07 -- mismatches are always describable; assertThat/expectThat report them faithfully."""

import ast
import os

from ..absint import NONE, NOTNONE, TOP, DefaultDomain, Interp, State, exc, val
from ..alias import Aliases
from ..astutil import FUNC_TYPES, attr_chain, dotted, norm, walk_shallow
from ..cfg import live_nodes
from ..loader import AnalysisError
from ..symbols import instance_attrs_assigned
from .common import TESTCASE, cfg_of, module_function, nodes_calling, own_method
from .matchmodel import (MATCHER_MODULES, expr_kind, function_return_kinds, is_mismatch_ctor, matcher_classes, mismatch_classes,
                         resolve_class_name)

EXPLANATION = (
    "Class-table rules over every stock matcher and mismatch class (testtools/matchers/*.py and "
    "twistedsupport/_matchers.py): R-STR-RESOLVES (__str__ resolves through the MRO to a concrete body, "
    "not the abstract Matcher.__str__ stub; object.__str__ is accepted), R-ATTR-DEFINED (every self.x "
    "read resolves to an attribute assigned somewhere in the class's MRO, or in every concrete subclass "
    "of an abstract base), R-DESCRIBE-RESOLVES (every mismatch class resolves describe to a concrete "
    "body -- or to Mismatch.describe with a description reaching Mismatch.__init__ at every construction "
    "site -- and get_details to a dict-returning body), R-DESCRIBE-TEXT (return-kind inference: every "
    "describe returns text or delegates to another describe on all paths), R-FORMAT-SAFE (a %-format "
    "whose right operand is a bare expression that may be the matchee must be dominated by a test "
    "excluding tuples). R-ASSERT-IFF: TestCase.run followed as written (ttsa.rules.casemodel) with a scripted matcher: "
    "assertThat stops the test with a failure exactly when match() returned a mismatch, the error raised is a MismatchError "
    "holding the matchee, the matcher, the mismatch and the verbosity; assertions.assert_that likewise; str() of a "
    "MismatchError built for text / bytes / tuple / other matchees, verbose or not, never raises, is the mismatch's "
    "description, and quotes text and bytes through text_repr. R-FORCE-HONOURED: expectThat never raises, the stage goes on, "
    "and the finished test is a failure whatever later stages raise (scenarios shared with C03). The text_repr round trip "
    "over all code points is a runtime value property and is not decided."
)


def run(ctx):
    ctx.rule("R-STR-RESOLVES", "__str__ of every stock matcher resolves to a concrete definition")
    ctx.rule("R-ATTR-DEFINED", "every self.<attr> read in matcher / mismatch classes is defined in the class's MRO")
    ctx.rule("R-DESCRIBE-RESOLVES", "every mismatch class has a working describe() and a dict-returning get_details()")
    ctx.rule("R-DESCRIBE-TEXT", "describe() returns text (or delegates to describe) on all paths")
    ctx.rule("R-FORMAT-SAFE", "%-formatting of a possibly-tuple matchee is guarded or uses a 1-tuple")
    ctx.rule("R-ASSERT-IFF", "assertThat/assert_that raise iff match() gave a mismatch; expectThat never raises but forces failure")
    classes = ctx.classes
    mclasses = matcher_classes(ctx)

    # ------------------------------------------------------------------ __str__ resolves
    n = 0
    stock = stock_matcher_names(ctx)
    for c in mclasses:
        owner, mf = classes.resolve_method(c, "match")
        if classes.is_abstract_stub(mf):
            continue  # abstract base, not a stock matcher
        if c.name not in stock:
            ctx.note(f"R-STR-RESOLVES: {c.name} is a private building block (not exported, not returned by a public factory); not a stock matcher")
            continue
        so, sf = classes.resolve_method(c, "__str__")
        ok = True
        where = "object.__str__"
        if isinstance(sf, FUNC_TYPES) and so is not None and not so.external:
            where = f"{so.name}.__str__"
            ok = not classes.is_abstract_stub(sf)
        n += 1
        ctx.check("R-STR-RESOLVES", f"{c.name}.__str__ -> {where}", c.node, ok,
                  f"str({c.name}(...)) raises NotImplementedError: __str__ resolves to the abstract stub {where}; a verbose MismatchError cannot be rendered",
                  construct=f"{c.module.name}:{c.name}::__str__")
    ctx.floor("R-STR-RESOLVES", 34, "stock matcher classes")

    # ------------------------------------------------------------------ attributes defined
    scope = [c for c in classes.all if not c.external and (c.module.name in MATCHER_MODULES or ctx.tier == "thorough")]
    n_reads = 0
    for c in sorted(scope, key=lambda c: (c.module.name, c.node.lineno)):
        if c.module.name not in ctx.repo.modules:
            continue
        ctx.repo.module(c.module.name)
        mro = classes.mro(c)
        unresolved_base = any(b is None for k in mro for b in k.bases) and not all(
            (dotted(be) or "").split(".")[-1] in ("object", "Exception", "AssertionError", "BaseException")
            for k in mro for be, b in zip(k.base_exprs, k.bases) if b is None)
        if unresolved_base or any(k.own_method("__getattr__") is not None for k in mro):
            continue  # attributes may come from a base we cannot see / dynamic lookup
        # a mix-in: calls super().m() although nothing in its own MRO defines m
        is_mixin = False
        for f in c.methods.values():
            for call in walk_shallow(f, include_self=False):
                if isinstance(call, ast.Call):
                    ch = attr_chain(call.func)
                    if ch and ch[0] == "super()" and len(ch) == 2 and not any(ch[1] in k.methods for k in mro[1:]) and ch[1] not in ("__init__",):
                        is_mixin = True
        if is_mixin:
            ctx.note(f"R-ATTR-DEFINED: {c.name} is a mix-in (super() calls outside its own MRO); its attributes come from the class it is mixed into")
            continue
        defined = set()
        for k in mro:
            defined |= set(k.methods) | set(k.attrs) | set(k.properties)
            for f in k.methods.values():
                defined |= instance_attrs_assigned(f)
            for s in k.node.body:
                if isinstance(s, ast.AnnAssign) and isinstance(s.target, ast.Name):
                    defined.add(s.target.id)
        subs = [s for s in classes.subclasses(c, strict=True)]
        # attributes given to the class (or to subclasses built with type(name, (Base,), {...})) by code that runs: setattr(cls, "name", ...),
        # the namespace dict of a three-argument type() call naming this class among the bases
        for n_ in ast.walk(c.module.tree):
            if isinstance(n_, ast.Call) and dotted(n_.func) == "type" and len(n_.args) == 3 and isinstance(n_.args[2], ast.Dict) \
                    and any(isinstance(b_, ast.Name) and b_.id in {k.name for k in mro} for b_ in ast.walk(n_.args[1])):
                defined |= {k_.value for k_ in n_.args[2].keys if isinstance(k_, ast.Constant) and isinstance(k_.value, str)}
            if isinstance(n_, ast.Call) and dotted(n_.func) == "setattr" and len(n_.args) == 3 and isinstance(n_.args[1], ast.Constant) and isinstance(n_.args[1].value, str) \
                    and isinstance(n_.args[0], ast.Name) and n_.args[0].id not in ("self",):
                defined.add(n_.args[1].value)
            if isinstance(n_, ast.Attribute) and isinstance(n_.ctx, ast.Store) and isinstance(n_.value, ast.Name) and getattr(n_, "_class", None) is None \
                    and getattr(n_, "_func", None) is not None and n_.value.id in {a_.arg for a_ in n_._func.args.args}:
                defined.add(n_.attr)   # <a parameter of a module-level function>.name = ...: a class decorator / installer at work
        for mname, f in c.methods.items():
            if not f.args.args:
                continue
            selfname = f.args.args[0].arg
            if any((dotted(d) or "") in ("staticmethod", "classmethod") for d in f.decorator_list):
                continue
            for node in walk_shallow(f, include_self=False):
                if not (isinstance(node, ast.Attribute) and isinstance(node.ctx, ast.Load) and isinstance(node.value, ast.Name) and node.value.id == selfname):
                    continue
                a = node.attr
                if a.startswith("__") and a.endswith("__"):
                    continue
                if a.startswith("__"):
                    a2 = "_" + c.name.lstrip("_") + a
                else:
                    a2 = a
                # reads protected by `except AttributeError`
                guarded = False
                p = node
                while p is not None and p is not f:
                    par = getattr(p, "_parent", None)
                    if isinstance(par, ast.Try) and any(p is s for s in par.body) and any(h.type is not None and "AttributeError" in norm(h.type) for h in par.handlers):
                        guarded = True
                    p = par
                if guarded:
                    continue
                # dead code under a constant-false guard
                dead = False
                p = node
                while p is not None and p is not f:
                    par = getattr(p, "_parent", None)
                    if isinstance(par, (ast.If, ast.While)) and any(p is s_ or any(p is w for w in ast.walk(s_)) for s_ in par.body):
                        t = par.test
                        first = t.values[0] if isinstance(t, ast.BoolOp) and isinstance(t.op, ast.And) else t
                        if isinstance(first, ast.Constant) and not first.value:
                            dead = True
                    p = par
                if dead:
                    continue
                ok = a in defined or a2 in defined
                why = ""
                if not ok and subs:
                    # abstract-base pattern: every concrete subclass provides it
                    missing = []
                    for s in subs:
                        sdef = set()
                        for k in classes.mro(s):
                            sdef |= set(k.methods) | set(k.attrs) | set(k.properties)
                            for ff in k.methods.values():
                                sdef |= instance_attrs_assigned(ff)
                        if a not in sdef:
                            missing.append(s.name)
                    ok = not missing
                    why = f" (subclasses without it: {missing})" if missing else ""
                n_reads += 1
                if not ok:
                    ctx.check("R-ATTR-DEFINED", f"{c.name}.{mname}: self.{a}", node, False,
                              f"{c.name}.{mname} reads self.{a}, which is never assigned in {c.name} or its bases{why}: AttributeError at run time",
                              construct=f"{c.module.name}:{c.name}.{mname}::self.{a}")
    ctx.check("R-ATTR-DEFINED", f"{n_reads} self-attribute reads resolved", None, n_reads >= 150, "implausibly few attribute reads analysed",
              examined=n_reads, construct="R-ATTR-DEFINED::reads")

    # ------------------------------------------------------------------ describe / get_details resolve
    base_mismatch = None
    for c in classes.all:
        if c.name == "Mismatch" and c.module.name == "testtools.matchers._impl":
            base_mismatch = c
    if base_mismatch is None:
        raise AnalysisError("anchor vanished: testtools.matchers._impl:Mismatch")
    base_describe = base_mismatch.own_method("describe")
    mm = mismatch_classes(ctx)
    # construction sites
    sites = {}
    for mod in ctx.repo.modules.values():
        for call in ast.walk(mod.tree):
            if isinstance(call, ast.Call):
                ci = is_mismatch_ctor(ctx, mod, call)
                if ci is not None:
                    sites.setdefault(ci, []).append((mod, call))
    for c in mm:
        do, df = classes.resolve_method(c, "describe")
        # (a def, or a method made in the class body -- describe = factory(...) -- whose behaviour the runs of R-ASSERT-IFF see)
        ok = isinstance(df, FUNC_TYPES) or isinstance(df, (ast.Call, ast.Lambda, ast.Name, ast.Attribute))
        msg = "describe does not resolve"
        if ok and df is base_describe:
            # needs a description through Mismatch.__init__
            io, initf = classes.resolve_method(c, "__init__")
            if initf is not base_mismatch.own_method("__init__"):
                passes = any(isinstance(x, ast.Call) and dotted(x.func) in ("super().__init__", "Mismatch.__init__") and (
                    (len(x.args) >= (2 if dotted(x.func) == "Mismatch.__init__" else 1) and not (isinstance(x.args[-1 if dotted(x.func) != "Mismatch.__init__" else 1], ast.Constant) and x.args[0].value is None))
                    or any(k.arg == "description" for k in x.keywords)) for x in ast.walk(initf)) if isinstance(initf, FUNC_TYPES) else False
                ok = passes
                msg = f"{c.name} inherits Mismatch.describe but its __init__ never passes a description to Mismatch.__init__: describe() raises NotImplementedError"
            else:
                bad = []
                for mod, call in sites.get(c, []):
                    a0 = call.args[0] if call.args else next((k.value for k in call.keywords if k.arg == "description"), None)
                    if a0 is None or (isinstance(a0, ast.Constant) and not a0.value):
                        bad.append(call)
                ok = not bad
                msg = f"{c.name}(...) is constructed without a description at {[getattr(b, 'lineno', 0) for b in bad]}: describe() raises NotImplementedError"
        ctx.check("R-DESCRIBE-RESOLVES", f"{c.name}.describe -> {do.name if do else None}.describe", c.node, ok, msg,
                  construct=f"{c.module.name}:{c.name}::describe")
        go, gf = classes.resolve_method(c, "get_details")
        kinds = function_return_kinds(ctx, go.module, gf) if isinstance(gf, FUNC_TYPES) else {"made"} if isinstance(gf, (ast.Call, ast.Lambda, ast.Name, ast.Attribute)) else {"missing"}
        # what is certainly not a dict is a violation; a value whose kind this inference cannot name (a local, a parameter) is not
        wrong = kinds & {"None", "Bool", "Text", "Mismatch", "missing", "Other", "Collection", "Number"}
        ok = not wrong
        ctx.check("R-DESCRIBE-RESOLVES", f"{c.name}.get_details -> {go.name if go else None}.get_details ({sorted(kinds)})", c.node, ok,
                  f"get_details of {c.name} can return {sorted(wrong)} instead of a dict",
                  construct=f"{c.module.name}:{c.name}::get_details")
    ctx.floor("R-DESCRIBE-RESOLVES", 26)

    # ------------------------------------------------------------------ describe returns text
    for c in mm:
        f = c.methods.get("describe")
        if f is None:
            continue
        ctx.analysed(f)
        kinds = function_return_kinds(ctx, c.module, f)
        bad = kinds - {"Text", "DescribeDelegate", "Attr", "Param"}
        ctx.check("R-DESCRIBE-TEXT", f"{c.name}.describe returns {sorted(kinds)}", f, not bad,
                  f"{c.name}.describe can return {sorted(bad)} (must be text on every path)", construct=f"{c.module.name}:{c.name}.describe::kinds")
    ctx.floor("R-DESCRIBE-TEXT", 13)

    # ------------------------------------------------------------------ format safety
    n_fmt = check_format_safe(ctx, "C07")
    ctx.floor("R-FORMAT-SAFE", 3, "%-format sites with a bare right operand")

    # ------------------------------------------------------------------ assert iff mismatch
    check_assert_iff(ctx)
    # assertThat / expectThat / assert_that test the verdict by its truth: "raises exactly when match() returned a mismatch" needs
    # every mismatch object to be true -- no class of mismatches may define __bool__ or __len__ (an empty MismatchesAll would pass)
    for c in mm:
        bad = [m for m in ("__bool__", "__len__") if any(m in k.methods or m in k.attrs for k in classes.mro(c) if not k.external)]
        ctx.check("R-ASSERT-IFF", f"{c.name}: a mismatch object is never false (the assertion helpers test `if mismatch`)", c.node, not bad,
                  f"{c.name} defines {bad}: an empty / zero mismatch would be false, and assertThat, expectThat and assert_that would take a mismatch for a match",
                  construct=f"{c.module.name}:{c.name}::truthy")
    check_force_honoured(ctx)
    ctx.assume("no mismatch object is falsy (decided by C06 R-NO-FALSY-MISMATCH)")


def stock_matcher_names(ctx):
    """Public matcher classes + classes returned by public module-level factories."""
    names = set()
    for modname in MATCHER_MODULES:
        m = ctx.repo.module(modname)
        for s in m.tree.body:
            if isinstance(s, ast.ClassDef) and not s.name.startswith("_"):
                names.add(s.name)
            if isinstance(s, FUNC_TYPES) and not s.name.startswith("_"):
                for r in ast.walk(s):
                    if isinstance(r, ast.Return) and isinstance(r.value, ast.Call) and isinstance(r.value.func, ast.Name):
                        names.add(r.value.func.id)
                    if isinstance(r, ast.Return) and isinstance(r.value, ast.Name):
                        # module-level singleton: NAME = _Class()
                        for t in m.tree.body:
                            if isinstance(t, ast.Assign) and dotted(t.targets[0]) == r.value.id and isinstance(t.value, ast.Call) and isinstance(t.value.func, ast.Name):
                                names.add(t.value.func.id)
    return names


def check_format_safe(ctx, prop):
    """R-FORMAT-SAFE over the matcher modules; returns number of sites examined."""
    n = 0
    for modname in MATCHER_MODULES:
        m = ctx.repo.module(modname)
        for f in ast.walk(m.tree):
            if not isinstance(f, FUNC_TYPES):
                continue
            sites = [b for b in walk_shallow(f, include_self=False) if isinstance(b, ast.BinOp) and isinstance(b.op, ast.Mod)]
            if not sites:
                continue
            al = Aliases(f, is_method=getattr(f, "_class", None) is not None and not any(dotted(d) == "staticmethod" for d in f.decorator_list))
            for b in sites:
                lk = expr_kind(ctx, m, f, b.left)
                if "Text" not in lk and not (isinstance(b.left, ast.Attribute) and b.left.attr in ("message",)):
                    continue
                if isinstance(b.right, (ast.Tuple, ast.Dict)):
                    continue
                n += 1
                origins = al.of(b.right)
                may_be_matchee = any(o[0] == "param" for o in origins) and f.name in ("match", "describe", "_got_result", "_got_failure", "_got_no_result", "_got_success")
                if not may_be_matchee:
                    ctx.check("R-FORMAT-SAFE", f"{modname.split('.')[-1]}:{f.name}: {norm(b)[:50]}", b, True)
                    continue
                guarded = _format_site_safe_for_tuples(ctx, f, b, [o[1] for o in origins if o[0] == "param"])
                if guarded is None:
                    # (the function could not be followed: the written guard decides)
                    guarded = False
                    p = b
                    while p is not None and p is not f:
                        par = getattr(p, "_parent", None)
                        if isinstance(par, ast.If) and any(p is s or any(p is w for w in ast.walk(s)) for s in par.body):
                            t = par.test
                            if (isinstance(t, ast.UnaryOp) and isinstance(t.op, ast.Not) and isinstance(t.operand, ast.Call) and dotted(t.operand.func) == "isinstance"
                                    and norm(t.operand.args[0]) == norm(b.right) and "tuple" in norm(t.operand.args[1])):
                                guarded = True
                        p = par
                ctx.check("R-FORMAT-SAFE", f"{modname.split('.')[-1]}:{f.name}: {norm(b)[:50]}", b, guarded,
                          f"`{norm(b)}`: the right operand may be the matchee itself; for a tuple matchee (e.g. an exc_info tuple) %-formatting raises TypeError "
                          "instead of returning a Mismatch -- format a 1-tuple `(x,)` or exclude tuples first (or: a matchee that is not a tuple at all makes the function raise "
                          "instead of reporting it)",
                          construct=f"{modname}:{getattr(getattr(f, '_class', None), 'name', '')}.{f.name}::{norm(b)}")
    return n


def _format_site_safe_for_tuples(ctx, f, site, params):
    """Run ``f`` with each of ``params`` bound to a tuple of three values (an exc_info tuple, say), everything else unknown:
    is the %-format ``site`` ever evaluated with that tuple as its whole right operand?  -> True (never) / False / None
    (the function could not be followed)."""
    from .. import effects
    from ..loader import Undecided
    from ..objects import ObjectDomain
    TRIPLE = ("tuple", ("sym", "first of three"), ("sym", "second of three"), ("sym", "third of three"))

    class Probe(ObjectDomain):
        lazy_generators = False

        def binop(self, e, left, right):
            if e is site and right == TRIPLE:
                self.hit = True
            return super().binop(e, left, right)

        def call(self, interp, call, st, fr):
            # isinstance(<the triple>, ...): it is a tuple, and nothing else
            if dotted(call.func) == "isinstance" and len(call.args) == 2 and not call.keywords:
                got = interp.eval(call.args[0], st, fr)
                if got and all(r.kind == "val" and r.value == TRIPLE for r in got):
                    names = [dotted(t) for t in (call.args[1].elts if isinstance(call.args[1], ast.Tuple) else [call.args[1]])]
                    if all(n_ in ("tuple", "list", "str", "bytes", "int", "float", "dict", "set", "type", "bool") for n_ in names):
                        from ..absint import FALSE, TRUE
                        return [val(TRUE if "tuple" in names else FALSE, r.state) for r in got]
            return super().call(interp, call, st, fr)

    cls = getattr(f, "_class", None)
    ci = ctx.classes.get(f._module.name, cls.name) if cls is not None else None
    names = [a.arg for a in f.args.args]
    for p in params or []:
        if p not in names:
            return None
        dom = Probe(ctx.classes, log_cap=40)
        dom.hit = False
        try:
            res = effects.run(ctx, dom, f, ci, {p: TRIPLE}, state=State(), depth=4)
        except (Undecided, AnalysisError, RecursionError) as e_:
            if os.environ.get("TTSA_TRACE_PROBE"):
                print("PROBE-UNDECIDED", f.name, e_)
            return None
        if not res:
            return None
        if dom.hit:
            return False
        # the branch exists to report a matchee of the wrong shape: a matchee that is not a tuple at all must be reported too, not raise
        dom = Probe(ctx.classes, log_cap=40)
        dom.hit = False
        try:
            res = effects.run(ctx, dom, f, ci, {p: ("const", 42)}, state=State(), depth=4)
        except (Undecided, AnalysisError, RecursionError):
            return None
        if any(r.kind == "exc" and r.value[:2] in (("exc", "TypeError"), ("exc", "IndexError"), ("exc", "AttributeError")) for r in res):
            return False
    return True if params else None


def check_force_honoured(ctx):
    """expectThat never raises, and a mismatch makes the finished test a failure: TestCase.run followed as written with a
    scripted matcher (the scenarios of C03's R-EXPECT-FORCES)."""
    from . import c03
    from . import casemodel as cm
    ctx.rule("R-FORCE-HONOURED", "expectThat never raises; a mismatch (force_failure) makes every finished run unsuccessful, whatever the stages raise")
    c03.check_forced(ctx, cm.case_class(ctx), rule="R-FORCE-HONOURED")


def check_assert_iff(ctx):
    from ..absint import FALSE, TRUE
    from ..objects import ObjectDomain, is_inst
    from .. import effects
    from . import casemodel as cm
    from . import streamobjects as so
    case = cm.case_class(ctx)
    M, MM = ("wobj", "matcher"), ("wobj", "mismatch")
    MATCHEE = ("sym", "the matchee")
    mismatching = {"matcher.match": [("val", MM)], "mismatch.get_details": [("val", ("kwdict", ()))], "mismatch.describe": [("val", ("const", "it differs"))]}
    matching = {"matcher.match": [("val", NONE)]}
    Q = f"{TESTCASE}:TestCase.assertThat"

    def error_of(r):
        """The MismatchError behind the failure outcome of the run: (instance, its attributes)."""
        for n, pos, kw in cm.events(r, ("result.addFailure",)):
            d = kw.get("details")
            for name, c in (d[1] if isinstance(d, tuple) and d[:1] == ("kwdict",) else ()):
                if isinstance(c, tuple) and c[:2] == ("new", "TracebackContent") and c[2] and isinstance(c[2][0], tuple) and len(c[2][0]) == 4 and is_inst(c[2][0][2]):
                    e = c[2][0][2]
                    return e, {a: r.state.get(f"inst.{e[1]}.{a}") for a in ("matchee", "matcher", "mismatch", "verbose")}
        return None, {}

    # assertThat inside a test: raises exactly when match() gave a mismatch
    for label, kw_args, answers, want in (("match() returns None", [], matching, "addSuccess"), ("match() returns a mismatch", [], mismatching, "addFailure"),
                                          ("match() returns a mismatch; verbose=True", [("verbose", TRUE)], mismatching, "addFailure"),
                                          ("match() returns a mismatch; with a message", [("message", ("const", "while checking"))], mismatching, "addFailure"),
                                          ("match() returns None; with a message", [("message", ("const", "while checking"))], matching, "addSuccess")):
        script = {"test": [("call", "assertThat", [MATCHEE, M], kw_args), ("call", "addCleanup", [cm.user("after_assert")], [])], "after_assert": []}
        d, runs = cm.run_case(ctx, script, answers=answers)
        problems = set()
        for r in runs:
            went_on = "user.after_assert" in cm.names(r, ("user.",))
            ocs = cm.outcomes(r)
            asked = [(pos, kw) for n, pos, kw in cm.events(r, ("matcher.match",))]
            if len(asked) != 1 or asked[0][0] != (MATCHEE,):
                problems.add(f"matcher.match is called {len(asked)} time(s) with {[a[0] for a in asked]}; expected once with the matchee")
            if want == "addSuccess" and (not went_on or ocs != ["addSuccess"]):
                problems.add(f"the matcher matches, yet the test {'stops at assertThat' if not went_on else 'goes on'} and the outcomes are {ocs}")
            if want == "addFailure":
                if went_on or ocs != ["addFailure"]:
                    problems.add(f"the matcher gives a mismatch, yet the test {'goes on after assertThat' if went_on else 'stops'} and the outcomes are {ocs}; expected it to stop with a failure")
                    continue
                e, attrs = error_of(r)
                if e is None or e[2].name != "MismatchError":
                    problems.add(f"what assertThat raises is {e!r}; expected a MismatchError")
                    continue
                if attrs.get("matchee") != MATCHEE or attrs.get("verbose") != dict(kw_args).get("verbose", FALSE):
                    problems.add(f"the MismatchError is built with matchee {attrs.get('matchee')!r}, verbose {attrs.get('verbose')!r}; expected the matchee and the verbosity given to assertThat")
                if not dict(kw_args).get("message") and (attrs.get("matcher") != M or attrs.get("mismatch") != MM):
                    problems.add(f"the MismatchError is built with matcher {attrs.get('matcher')!r}, mismatch {attrs.get('mismatch')!r}; expected the matcher and the mismatch it returned")
        ctx.check("R-ASSERT-IFF", f"assertThat: {label} -> {'the test goes on' if want == 'addSuccess' else 'MismatchError(matchee, matcher, mismatch, verbose) is raised'}", case.node,
                  bool(runs) and not problems, "; ".join(sorted(problems)) or "no path of run() was followed to its end", examined=len(runs), construct=f"{Q}::{label}")

    # assertions.assert_that: the same contract without a TestCase
    af = module_function(ctx, "testtools.assertions", "assert_that")
    params = [a.arg for a in af.args.args]
    for label, answers, verbose in (("match() returns None", matching, FALSE), ("match() returns a mismatch", mismatching, FALSE), ("match() returns a mismatch; verbose=True", mismatching, TRUE)):
        dom = so.StreamDomain(ctx.classes, accepting=("matcher", "mismatch"), oracle=lambda n, pos, kw, a=answers: a.get(n))
        argvals = dict(zip(params, [MATCHEE, M]))
        if "verbose" in params:
            argvals["verbose"] = verbose
        res = effects.run(ctx, dom, af, None, argvals, state=State(), depth=8)
        problems = set()
        for r in res:
            if answers is matching:
                if r.kind != "val":
                    problems.add(f"the matcher matches, yet assert_that raises {r.value!r}")
            elif r.kind != "exc" or not is_inst(r.value) or r.value[2].name != "MismatchError":
                problems.add(f"the matcher gives a mismatch, yet assert_that {'returns' if r.kind == 'val' else 'raises ' + repr(r.value)}; expected a MismatchError")
            else:
                e = r.value
                got = {a: r.state.get(f"inst.{e[1]}.{a}") for a in ("matchee", "matcher", "mismatch", "verbose")}
                if got != {"matchee": MATCHEE, "matcher": M, "mismatch": MM, "verbose": verbose}:
                    problems.add(f"the MismatchError is built with {got!r}; expected the matchee, the matcher, its mismatch and the verbosity")
        ctx.check("R-ASSERT-IFF", f"assert_that: {label} -> {'returns' if answers is matching else 'raises MismatchError(matchee, matcher, mismatch, verbose)'}", af, bool(res) and not problems,
                  "; ".join(sorted(problems)) or "no path", examined=len(res), construct=f"testtools.assertions:assert_that::{label}")

    # str() of the MismatchError: the mismatch's description, verbose or not; text / bytes matchees quoted with text_repr, others with repr
    me = ctx.classes.get("testtools.matchers._impl", "MismatchError")
    if me is None:
        raise AnalysisError("anchor vanished: testtools.matchers._impl.MismatchError")
    QUOTED = ("sym", "the matchee, quoted by text_repr")
    for matchee, textual in ((("const", "h\u00e9llo \u2603"), True), (("const", b"\xffbytes"), True), (("const", 42), False), (("tuple", ("const", 1), ("const", 2)), False)):
        for verbose in (FALSE, TRUE):
            dom = so.StreamDomain(ctx.classes, accepting=("matcher", "mismatch"), oracle=lambda n, pos, kw: [("val", ("const", "it differs"))] if n == "mismatch.describe" else None,
                                  results={"text_repr": [QUOTED]}, track=lambda d_: d_ == "text_repr")
            d = so.Driver(ctx, me, dom)
            res = d.call(d.construct([matchee, M, MM, verbose]), "__str__")
            d.done()
            problems = set()
            for r in res:
                log = r.state.get("ev.calls", ())
                if r.kind != "val":
                    problems.add(f"str() of the error raises {r.value!r}")
                    continue
                if len([e for e in log if e[0] == "mismatch.describe"]) != 1:
                    problems.add("the text does not come from one call of mismatch.describe()")
                if verbose == FALSE and r.value != ("const", "it differs"):
                    problems.add(f"the text is {r.value!r}; expected the mismatch's description")
                quoting = [e for e in log if e[0] == "text_repr"]
                if verbose == TRUE and textual and (len(quoting) != 1 or quoting[0][1][:1] != (matchee,)):
                    problems.add(f"a {'text' if isinstance(matchee[1], str) else 'bytes'} matchee is not rendered through text_repr(matchee, ...) (calls: {[e[1] for e in quoting]})")
                if verbose == TRUE and not textual and quoting:
                    problems.add("a matchee that is neither text nor bytes is handed to text_repr")
            kind = "text" if textual and isinstance(matchee[1], str) else "bytes" if textual else "tuple" if matchee[0] == "tuple" else "number"
            ctx.check("R-ASSERT-IFF", f"str(MismatchError) for a {kind} matchee, verbose={verbose == TRUE}: never raises, describes the mismatch", me.node, bool(res) and not problems,
                      "; ".join(sorted(problems)) or "no path", examined=len(res), construct=f"testtools.matchers._impl:MismatchError.__str__::{kind} verbose={verbose == TRUE}")
