"""One module per property: ``run(ctx)`` instantiates the rules on ctx.repo."""
