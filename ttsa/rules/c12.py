"""C12 -- ThreadsafeForwardingResult: per-test atomicity under every interleaving.

The schedule quantifier is discharged by a lock discipline that is visible in
the code shape: the semaphore is paired on all paths, every access to the
shared target happens while it is held, nothing acquires twice, the block sent
to the target has the documented order, and the forwarder shares no other
mutable state.
"""

import ast

from ..alias import Aliases
from ..astutil import FUNC_TYPES, attr_chain, dotted, norm, walk_shallow
from ..cfg import live_nodes, node_calls, node_exprs
from ..flow import explore
from ..loader import AnalysisError
from .common import REAL, cfg_of, module_function, nodes_calling

EXPLANATION = (
    "Lock-discipline analysis of testtools.testresult.real.ThreadsafeForwardingResult on "
    "the exceptional CFG of each method: R-LOCK-PAIR (typestate Unheld/Held: every acquire "
    "is followed by exactly one release on every normal and exceptional path, no release "
    "without acquire, exits Unheld), R-TARGET-UNDER-LOCK (every call or attribute read on "
    "the wrapped target, including bound methods handed to the helper and invoked there, "
    "happens in state Held; wasSuccessful is the one frozen read-only exception), "
    "R-NO-NESTED-ACQUIRE (call graph: nothing reachable while Held acquires again), "
    "R-BLOCK-ORDER (dominance/post-dominance inside the held region: start time, startTest, "
    "end time, global then test tags, outcome, stopTest in finally; per-test buffer cleared), "
    "R-NO-SHARED-STATE (only instance attributes are written) and purity of _merge_tags. "
    "Because no target access exists outside the lock, the per-test block is contiguous for "
    "every interleaving; schedules are not enumerated."
)

TFR = "ThreadsafeForwardingResult"


def lock_receivers(func):
    out = set()
    for n in walk_shallow(func, include_self=False):
        if isinstance(n, ast.Call) and isinstance(n.func, ast.Attribute):
            if n.func.attr == "acquire":
                d = dotted(n.func.value)
                if d:
                    out.add(d)
    for n in walk_shallow(func, include_self=False):
        if isinstance(n, (ast.With, ast.AsyncWith)):
            for i in n.items:
                d = dotted(i.context_expr)
                if d and ("semaphore" in d or "lock" in d.lower()):
                    out.add(d)
    return out


def _node_lock_ops(node, locks):
    """('acquire'|'release', lockname) operations a CFG node performs."""
    ops = []
    if node.kind == "with_enter":
        for i in node.ast.items:
            d = dotted(i.context_expr)
            if d in locks:
                ops.append(("acquire", d))
        return ops
    if node.kind == "with_exit":
        for i in node.ast.items:
            d = dotted(i.context_expr)
            if d in locks:
                ops.append(("release", d))
        return ops
    for c in node_calls(node):
        if isinstance(c.func, ast.Attribute) and c.func.attr in ("acquire", "release"):
            d = dotted(c.func.value)
            if d in locks:
                ops.append((c.func.attr, d))
    return ops


def lock_typestate(cfg, locks):
    """Explore with state 'U'/'H'; returns (exploration, errors)."""
    errors = []

    def transfer(node, st, kind, target, exp, pair):
        ops = _node_lock_ops(node, locks)
        for op, _ in ops:
            if op == "acquire":
                if kind == "exc" and node.kind != "with_exit":
                    # acquire itself failed: state unchanged
                    continue
                if st == "H":
                    errors.append((pair, "acquire while the semaphore is already held"))
                st = "H"
            else:
                if st == "U":
                    errors.append((pair, "release without a preceding acquire"))
                st = "U"
        return st

    exp = explore(cfg, "U", transfer)
    return exp, errors


def run(ctx):
    classes = ctx.classes
    tfr = classes.get(REAL, TFR)
    ctx.rule("R-LOCK-PAIR", "every semaphore acquire is released exactly once on all paths; exits are Unheld")
    ctx.rule("R-TARGET-UNDER-LOCK", "every access to the wrapped target happens while the semaphore is held")
    ctx.rule("R-NO-NESTED-ACQUIRE", "nothing executed while the semaphore is held acquires it again")
    ctx.rule("R-BLOCK-ORDER", "held region sends: start time, startTest, end time, tags, outcome, stopTest(finally)")
    ctx.rule("R-NO-SHARED-STATE", "forwarder methods write only instance attributes")
    ctx.rule("R-MERGE-PURE", "_merge_tags builds new sets and mutates neither argument")

    # -- lock discipline and block shape, on abstract runs (rules/tfrmodel.py) ---------------------------
    from . import tfrmodel as tm
    from .. import effects
    from ..absint import NONE as A_NONE
    methods = dict(tfr.methods)
    init = tfr.own_method("__init__")
    if init is None:
        raise AnalysisError("anchor vanished: ThreadsafeForwardingResult.__init__")
    ENTRY = [("startTestRun", {}, "startTestRun"), ("stopTestRun", {}, "stopTestRun"), ("stop", {}, "stop"), ("done", {}, "done"), ("shouldStop", {}, "shouldStop:read")]
    for m in tm.OUTCOMES:
        f_ = methods.get(m)
        if f_ is None:
            raise AnalysisError(f"anchor vanished: {TFR}.{m}")
        params = [a_.arg for a_ in f_.args.args][1:]
        argv = {"test": tm.T_}
        for p_ in params[1:]:
            argv[p_] = ("arg", p_) if p_ != "details" else ("arg", "details")
        if "err" in argv and "details" in argv:
            argv["err"] = "None"
        if "reason" in argv and "details" in argv:
            argv["reason"] = "None"
        ENTRY.append((m, argv, m))
    n_target_uses = 0
    for m, argv, forwards in ENTRY:
        f_, res = tm.run_method(ctx, m, argv)
        pair, under, nested = set(), set(), set()
        forwarded = False
        for r in res:
            log = effects.calls(r)
            n_target_uses = max(n_target_uses, 0)
            for pr in tm.lock_problems(log):
                (nested if "acquired again" in pr else under if "not held" in pr and "target" in pr else pair).add(pr)
            if r.kind == "val" and any(e[0] == "t." + forwards and e[3] == "ok" for e in log):
                forwarded = True
        where = f"{TFR}.{m}"
        ctx.check("R-LOCK-PAIR", where, f_, not pair and bool(res), "; ".join(sorted(pair)) or "no path explored", examined=len(res), construct=f"{REAL}:{where}::lock-pair")
        ctx.check("R-TARGET-UNDER-LOCK", f"{where}: every use of the target happens while the semaphore is held, and the call is forwarded", f_, not under and forwarded,
                  "; ".join(sorted(under)) or f"no normal path forwards {forwards} to the target", examined=len(res), construct=f"{REAL}:{where}::under-lock")
        ctx.check("R-NO-NESTED-ACQUIRE", f"{where}: the semaphore is never acquired while held", f_, not nested, "; ".join(sorted(nested)), construct=f"{REAL}:{where}::nested")
    ctx.floor("R-LOCK-PAIR", 6, "methods that take the semaphore")
    ctx.floor("R-TARGET-UNDER-LOCK", 11, "entry points")

    # the per-test block: start time, startTest, end time, run-level tags, test tags, outcome, stopTest
    for m, argv, _ in ENTRY[5:]:
        f_, res = tm.run_method(ctx, m, argv)
        problems = set()
        n_normal = 0
        for r in res:
            calls_ = tm.target_calls(effects.calls(r))
            names = [c_[0] for c_ in calls_]
            want_prefix = ["time", "startTest", "time"]
            body = [x for x in names[3:] if x != "tags"]
            tags = [c_ for c_ in calls_[3:] if c_[0] == "tags"]
            if r.kind == "val":
                n_normal += 1
                if names[:3] != want_prefix or body != [m, "stopTest"] or len(tags) > 2:
                    problems.add(f"the block sent to the target is {names}; documented: time, startTest, time, [tags], [tags], {m}, stopTest")
                    continue
                if calls_[0][1] != (tm.START,) or calls_[2][1] != (tm.NOW,):
                    problems.add("the first time() is not the test's own start time or the second not the time of the outcome")
                if calls_[1][1] != (tm.T_,) or calls_[-1][1] != (tm.T_,):
                    problems.add("startTest / stopTest do not carry the test")
                ti = [i for i, c_ in enumerate(calls_) if c_[0] == "tags"]
                if any(i > names.index(m) for i in ti):
                    problems.add("tags are sent after the outcome")
                tag_args = [c_[1] for c_ in tags]
                if any(a_ not in ((tm.G_NEW, tm.G_GONE), (tm.L_NEW, tm.L_GONE)) for a_ in tag_args) or (len(tag_args) == 2 and tag_args != [(tm.G_NEW, tm.G_GONE), (tm.L_NEW, tm.L_GONE)]):
                    problems.add(f"tags replayed as {tag_args}: expected the run-level buffer, then the test's own buffer, unmerged")
                oc = calls_[names.index(m)]
                if not oc[1] or oc[1][0] != tm.T_:
                    problems.add("the outcome does not receive the test first")
                given = [v for k_, v in argv.items() if k_ != "test" and v != "None"]
                got_vals = list(oc[1][1:]) + [v for _, v in oc[2]]
                if any(v not in got_vals for v in given):
                    problems.add("an argument of the outcome is not passed on to the target")
                if r.state.get("self._test_tags") != ("tuple", ("set", ("empty",)), ("set", ("empty",))):
                    problems.add("the per-test tag buffer is not reset to fresh empty sets (tags would leak into the next test)")
                if r.state.get("self._global_tags") != ("tuple", tm.G_NEW, tm.G_GONE):
                    problems.add("the block overwrites the run-level tag buffer")
                if r.state.get("self._test_start") != A_NONE:
                    problems.add("the start time is not reset after the block")
            else:
                # a target call raised: what was sent is a prefix of the block, and once the outcome was attempted stopTest is too
                if m in names and "stopTest" not in names[names.index(m):]:
                    problems.add("when the outcome call raises, stopTest is not sent (the target keeps a test open)")
                if "stopTest" in names and m not in names:
                    problems.add("stopTest is sent although the outcome was never attempted")
                if m in names and r.state.get("self._test_tags") != ("tuple", ("set", ("empty",)), ("set", ("empty",))):
                    problems.add("when the outcome (or stopTest) raises in the target, the per-test tag buffer is not reset: the finished test's tags are replayed inside the forwarder's next test")
        if n_normal == 0:
            problems.add("no normal path")
        ctx.check("R-BLOCK-ORDER", f"{TFR}.{m}: block = start time, startTest, end time, tags, outcome, stopTest (also when the target raises)", f_, not problems,
                  "; ".join(sorted(problems)), examined=len(res), construct=f"{REAL}:{TFR}.{m}::block")
    f_, res = tm.run_method(ctx, "startTest", {"test": tm.T_}, st=tm.initial_state(open_test=False))
    ok = bool(res) and all(r.kind == "val" and r.state.get("self._test_start") == tm.NOW and not tm.target_calls(effects.calls(r)) for r in res)
    ctx.check("R-BLOCK-ORDER", f"{TFR}.startTest records the test's own start time and does not touch the target", f_, ok,
              "startTest does not store self._now() as the test's start time, or talks to the shared target outside a block", construct=f"{REAL}:{TFR}.startTest::start-time")

    # -- R-NO-SHARED-STATE ---------------------------------------------------------------------
    for name, f in sorted(methods.items()):
        bad = None
        own_functions = {n_.name for n_ in ast.walk(f) if isinstance(n_, FUNC_TYPES) and n_ is not f}   # objects made here: not shared
        for n in walk_shallow(f, include_self=False):
            if isinstance(n, (ast.Global, ast.Nonlocal)):
                bad = (n, f"{norm(n)}")
            if isinstance(n, (ast.Assign, ast.AugAssign)):
                targets = n.targets if isinstance(n, ast.Assign) else [n.target]
                for t in targets:
                    for sub in ast.walk(t):
                        if isinstance(sub, ast.Attribute) and isinstance(sub.ctx, ast.Store):
                            ch = attr_chain(sub)
                            if ch and len(ch) == 2 and ch[0] in own_functions:
                                continue
                            if not ch or ch[0] != "self" or len(ch) != 2:
                                bad = (n, f"store to {norm(sub)}")
        ctx.check("R-NO-SHARED-STATE", f"{TFR}.{name}", f, bad is None, f"writes shared state: {bad[1] if bad else ''}", construct=f"{REAL}:{TFR}.{name}::writes")
    for aname, v in tfr.attrs.items():
        mutable = isinstance(v, (ast.List, ast.Dict, ast.Set)) or (isinstance(v, ast.Call) and dotted(v.func) in ("list", "dict", "set"))
        ctx.check("R-NO-SHARED-STATE", f"{TFR}.{aname} (class attribute)", v, not mutable, "class-level mutable shared by all forwarders")

    # -- R-MERGE-PURE -------------------------------------------------------------------------------
    mt = module_function(ctx, REAL, "_merge_tags")
    a = Aliases(mt, is_method=False)
    n_mut = 0
    for site, tgt, how in a.mutations():
        owned = a.caller_owned(a.of(tgt))
        n_mut += 1
        ctx.check("R-MERGE-PURE", f"_merge_tags: {norm(tgt)}{how}", site, not owned, f"mutates an argument of _merge_tags in place ({sorted(owned)})")
    rets = [n for n in walk_shallow(mt, include_self=False) if isinstance(n, ast.Return)]
    for r in rets:
        vals = r.value.elts if isinstance(r.value, ast.Tuple) else [r.value]
        owned = set()
        for v in vals:
            owned |= a.caller_owned(a.of(v))
        ctx.check("R-MERGE-PURE", f"_merge_tags: {norm(r)}", r, not owned, f"returns an argument object itself ({sorted(owned)}): buffers would alias the caller's sets")
    ctx.floor("R-MERGE-PURE", 3)

    if ctx.tier == "thorough":
        # whole-package sweep: every function that acquires anything pairs it
        ctx.rule("R-LOCK-PAIR-SWEEP", "every acquire()/release() in the package is paired on all paths")
        for m in ctx.repo.modules.values():
            for f in ast.walk(m.tree):
                if not isinstance(f, FUNC_TYPES):
                    continue
                if getattr(f, "_class", None) is tfr.node:
                    continue
                lr = lock_receivers(f)
                if not lr:
                    continue
                ctx.repo.module(m.name)
                cfg = cfg_of(ctx, f)
                exp, errors = lock_typestate(cfg, lr)
                held_exit = any("H" in exp.states_at(ex) for ex in cfg.exits)
                ctx.check("R-LOCK-PAIR-SWEEP", f"{m.name}:{f.name}", f, not errors and not held_exit, "unpaired acquire/release", examined=exp.size)
    ctx.assume("threading.Semaphore(1) is non-reentrant and release() after acquire() does not raise")
    ctx.assume("the wrapped target is reached only through the attribute assigned from the 'target' parameter in __init__")
