"""C12 -- ThreadsafeForwardingResult: per-test atomicity under every interleaving.

The schedule quantifier is discharged by a lock discipline that is visible in
the code shape: the semaphore is paired on all paths, every access to the
shared target happens while it is held, nothing acquires twice, the block sent
to the target has the documented order, and the forwarder shares no other
mutable state.
"""

import ast

from ..alias import Aliases
from ..astutil import FUNC_TYPES, attr_chain, dotted, norm, walk_shallow
from ..cfg import live_nodes, node_calls, node_exprs
from ..flow import explore
from ..loader import AnalysisError
from .common import REAL, cfg_of, module_function, nodes_calling

EXPLANATION = (
    "Lock-discipline analysis of testtools.testresult.real.ThreadsafeForwardingResult on "
    "the exceptional CFG of each method: R-LOCK-PAIR (typestate Unheld/Held: every acquire "
    "is followed by exactly one release on every normal and exceptional path, no release "
    "without acquire, exits Unheld), R-TARGET-UNDER-LOCK (every call or attribute read on "
    "the wrapped target, including bound methods handed to the helper and invoked there, "
    "happens in state Held; wasSuccessful is the one frozen read-only exception), "
    "R-NO-NESTED-ACQUIRE (call graph: nothing reachable while Held acquires again), "
    "R-BLOCK-ORDER (dominance/post-dominance inside the held region: start time, startTest, "
    "end time, global then test tags, outcome, stopTest in finally; per-test buffer cleared), "
    "R-NO-SHARED-STATE (only instance attributes are written) and purity of _merge_tags. "
    "Because no target access exists outside the lock, the per-test block is contiguous for "
    "every interleaving; schedules are not enumerated."
)

TFR = "ThreadsafeForwardingResult"


def lock_receivers(func):
    out = set()
    for n in walk_shallow(func, include_self=False):
        if isinstance(n, ast.Call) and isinstance(n.func, ast.Attribute):
            if n.func.attr == "acquire":
                d = dotted(n.func.value)
                if d:
                    out.add(d)
    for n in walk_shallow(func, include_self=False):
        if isinstance(n, (ast.With, ast.AsyncWith)):
            for i in n.items:
                d = dotted(i.context_expr)
                if d and ("semaphore" in d or "lock" in d.lower()):
                    out.add(d)
    return out


def _node_lock_ops(node, locks):
    """('acquire'|'release', lockname) operations a CFG node performs."""
    ops = []
    if node.kind == "with_enter":
        for i in node.ast.items:
            d = dotted(i.context_expr)
            if d in locks:
                ops.append(("acquire", d))
        return ops
    if node.kind == "with_exit":
        for i in node.ast.items:
            d = dotted(i.context_expr)
            if d in locks:
                ops.append(("release", d))
        return ops
    for c in node_calls(node):
        if isinstance(c.func, ast.Attribute) and c.func.attr in ("acquire", "release"):
            d = dotted(c.func.value)
            if d in locks:
                ops.append((c.func.attr, d))
    return ops


def lock_typestate(cfg, locks):
    """Explore with state 'U'/'H'; returns (exploration, errors)."""
    errors = []

    def transfer(node, st, kind, target, exp, pair):
        ops = _node_lock_ops(node, locks)
        for op, _ in ops:
            if op == "acquire":
                if kind == "exc" and node.kind != "with_exit":
                    # acquire itself failed: state unchanged
                    continue
                if st == "H":
                    errors.append((pair, "acquire while the semaphore is already held"))
                st = "H"
            else:
                if st == "U":
                    errors.append((pair, "release without a preceding acquire"))
                st = "U"
        return st

    exp = explore(cfg, "U", transfer)
    return exp, errors


def run(ctx):
    classes = ctx.classes
    tfr = classes.get(REAL, TFR)
    ctx.rule("R-LOCK-PAIR", "every semaphore acquire is released exactly once on all paths; exits are Unheld")
    ctx.rule("R-TARGET-UNDER-LOCK", "every access to the wrapped target happens while the semaphore is held")
    ctx.rule("R-NO-NESTED-ACQUIRE", "nothing executed while the semaphore is held acquires it again")
    ctx.rule("R-BLOCK-ORDER", "held region sends: start time, startTest, end time, tags, outcome, stopTest(finally)")
    ctx.rule("R-NO-SHARED-STATE", "forwarder methods write only instance attributes")
    ctx.rule("R-MERGE-PURE", "_merge_tags builds new sets and mutates neither argument")

    # -- slots filled from the repository -----------------------------------------
    init = tfr.own_method("__init__")
    if init is None:
        raise AnalysisError("anchor vanished: ThreadsafeForwardingResult.__init__")
    pnames = [a.arg for a in init.args.args[1:]]
    if len(pnames) < 2:
        raise AnalysisError("ThreadsafeForwardingResult.__init__ no longer takes (target, semaphore)")
    target_param, sem_param = pnames[0], pnames[1]
    target_attr = sem_attr = None
    for n in walk_shallow(init, include_self=False):
        if isinstance(n, ast.Assign) and len(n.targets) == 1:
            ch = attr_chain(n.targets[0])
            if ch and ch[0] == "self" and len(ch) == 2:
                names = {x.id for x in ast.walk(n.value) if isinstance(x, ast.Name)}
                if target_param in names:
                    target_attr = ch[1]
                if sem_param in names:
                    sem_attr = ch[1]
    if not target_attr or not sem_attr:
        raise AnalysisError("cannot find the attributes holding the target / the semaphore")
    locks = {f"self.{sem_attr}"}
    target = f"self.{target_attr}"

    methods = {name: f for name, f in tfr.methods.items()}
    # which TFR methods invoke one of their parameters (bound target methods)
    invokes_param = {}
    for name, f in methods.items():
        ps = {a.arg for a in f.args.args[1:]}
        for c in walk_shallow(f, include_self=False):
            if isinstance(c, ast.Call) and isinstance(c.func, ast.Name) and c.func.id in ps:
                idx = [a.arg for a in f.args.args].index(c.func.id) - 1
                invokes_param[name] = (c.func.id, idx)

    # -- R-LOCK-PAIR ------------------------------------------------------------------
    explorations = {}
    for name, f in sorted(methods.items()):
        lr = lock_receivers(f)
        cfg = cfg_of(ctx, f)
        exp, errors = lock_typestate(cfg, locks)
        explorations[name] = (cfg, exp)
        ctx.stats["states"] += exp.size
        if not (lr & locks):
            # a method that never touches the lock must also not release it
            continue
        bad = None
        msg = ""
        if errors:
            bad, msg = errors[0]
        else:
            for ex in cfg.exits:
                if "H" in exp.states_at(ex):
                    bad = (ex, "H")
                    kind = "returns" if ex == cfg.exit_return else "raises"
                    msg = f"a path {kind} out of {name}() with the semaphore still held"
                    break
        ctx.check(
            "R-LOCK-PAIR",
            f"{TFR}.{name}",
            f,
            bad is None,
            msg,
            examined=exp.size,
            path=exp.describe(bad) if bad else None,
            construct=f"{REAL}:{TFR}.{name}::lock-pairing",
        )
    ctx.floor("R-LOCK-PAIR", 6, "methods that take the semaphore")

    # -- R-TARGET-UNDER-LOCK -----------------------------------------------------------
    def entry_states(name, astnode):
        cfg, exp = explorations[name]
        live = live_nodes(cfg)
        sts = set()
        found = False
        for nid in cfg.nodes_for(astnode):
            if nid in live:
                found = True
                sts |= exp.states_at(nid)
        return sts if found else None

    exempt_reads = {"wasSuccessful": "read-only delegation; not one of the guarded operations of the property"}
    n_access = 0
    for name, f in sorted(methods.items()):
        if name == "__init__" or name == "__repr__":
            continue
        for n in walk_shallow(f, include_self=False):
            if not isinstance(n, ast.Attribute):
                continue
            ch = attr_chain(n)
            if not ch or ch[:2] != ["self", target_attr] or len(ch) != 3:
                continue
            if not isinstance(n.ctx, ast.Load):
                continue
            parent = getattr(n, "_parent", None)
            # bound method handed to a helper that invokes it under the lock
            if isinstance(parent, ast.Call) and n in parent.args:
                callee = attr_chain(parent.func)
                if callee and callee[0] == "self" and len(callee) == 2 and callee[1] in invokes_param:
                    pname, idx = invokes_param[callee[1]]
                    if parent.args.index(n) == idx:
                        n_access += 1
                        ctx.check(
                            "R-TARGET-UNDER-LOCK",
                            f"{TFR}.{name}: {norm(n)} handed to {callee[1]}()",
                            n,
                            True,
                            examined=1,
                        )
                        continue
            if name in exempt_reads:
                ctx.note(f"R-TARGET-UNDER-LOCK frozen exception: {TFR}.{name} ({exempt_reads[name]})")
                continue
            sts = entry_states(name, n)
            ok = sts is not None and sts == {"H"}
            n_access += 1
            ctx.check(
                "R-TARGET-UNDER-LOCK",
                f"{TFR}.{name}: {norm(n)}",
                n,
                ok,
                f"target access {norm(n)} can execute while the semaphore is not held (states {sorted(sts or [])})",
                examined=len(sts or ()),
            )
    # the parameter invoked on behalf of callers must be invoked under the lock
    for name, (pname, idx) in sorted(invokes_param.items()):
        f = methods[name]
        for c in walk_shallow(f, include_self=False):
            if isinstance(c, ast.Call) and isinstance(c.func, ast.Name) and c.func.id == pname:
                sts = entry_states(name, c)
                ctx.check(
                    "R-TARGET-UNDER-LOCK",
                    f"{TFR}.{name}: {pname}(...) [bound target method]",
                    c,
                    sts == {"H"},
                    f"the target method passed in as {pname!r} can be invoked without the semaphore (states {sorted(sts or [])})",
                    examined=len(sts or ()),
                )
    ctx.floor("R-TARGET-UNDER-LOCK", 18, "target accesses")

    # -- R-NO-NESTED-ACQUIRE -------------------------------------------------------------
    acquirers = set()
    mro = [c for c in classes.mro(tfr) if not c.external]
    all_methods = {}
    for c in reversed(mro):
        for mname, mf in c.methods.items():
            all_methods[mname] = mf
    prop_getters = {}
    for c in reversed(mro):
        for pname, (g, s) in c.properties.items():
            if isinstance(g, ast.Name):
                prop_getters[pname] = g.id
            elif isinstance(g, FUNC_TYPES):
                prop_getters[pname] = g.name
    for mname, mf in all_methods.items():
        if lock_receivers(mf) & locks:
            acquirers.add(mname)
    changed = True
    while changed:
        changed = False
        for mname, mf in all_methods.items():
            if mname in acquirers:
                continue
            for c in walk_shallow(mf, include_self=False):
                if isinstance(c, ast.Call):
                    ch = attr_chain(c.func)
                    if ch and ch[0] in ("self", "super()") and len(ch) == 2 and ch[1] in acquirers:
                        acquirers.add(mname)
                        changed = True
    acquiring_props = {p for p, g in prop_getters.items() if g in acquirers}
    held_sites = 0
    for name, f in sorted(methods.items()):
        cfg, exp = explorations[name]
        live = live_nodes(cfg)
        for node in cfg.nodes:
            if node.id not in live or "H" not in exp.states_at(node.id):
                continue
            ops = _node_lock_ops(node, locks)
            if any(o == "acquire" for o, _ in ops) and exp.states_at(node.id) == {"U"}:
                continue
            for e in node_exprs(node):
                for sub in walk_shallow(e):
                    bad = None
                    if isinstance(sub, ast.Call):
                        ch = attr_chain(sub.func)
                        if ch and ch[0] in ("self", "super()") and len(ch) == 2:
                            held_sites += 1
                            if ch[1] in acquirers:
                                bad = f"{norm(sub.func)}() acquires the semaphore and is called while it is held (deadlock on a non-reentrant semaphore)"
                            ctx.check("R-NO-NESTED-ACQUIRE", f"{TFR}.{name}: {norm(sub.func)}()", sub, bad is None, bad or "")
                    elif isinstance(sub, ast.Attribute) and isinstance(sub.ctx, ast.Load):
                        ch = attr_chain(sub)
                        if ch and ch[0] == "self" and len(ch) == 2 and ch[1] in acquiring_props:
                            ctx.check(
                                "R-NO-NESTED-ACQUIRE",
                                f"{TFR}.{name}: read of property {ch[1]}",
                                sub,
                                False,
                                f"property {ch[1]} acquires the semaphore and is read while it is held",
                            )
    ctx.check(
        "R-NO-NESTED-ACQUIRE",
        f"{TFR}: acquiring methods = {sorted(acquirers)}",
        tfr.node,
        len(acquirers) >= 6,
        "fewer acquiring methods than confirmed by hand",
        examined=len(acquirers),
        construct=f"{REAL}:{TFR}::acquirers",
    )

    # -- R-BLOCK-ORDER ---------------------------------------------------------------------
    if len(invokes_param) != 1:
        raise AnalysisError(f"expected exactly one helper invoking a bound target method, found {sorted(invokes_param)}")
    helper_name = next(iter(invokes_param))
    helper = methods[helper_name]
    pname, _ = invokes_param[helper_name]
    cfg, exp = explorations[helper_name]
    live = live_nodes(cfg)

    def tcall(method, argpred=None):
        def pred(c):
            ch = attr_chain(c.func)
            if not (ch and ch == ["self", target_attr, method]):
                return False
            return argpred is None or argpred(c)
        return pred

    test_param = helper.args.args[2].arg if len(helper.args.args) > 2 else "test"
    now_locals = set()
    for n in walk_shallow(helper, include_self=False):
        if isinstance(n, ast.Assign) and isinstance(n.value, ast.Call) and dotted(n.value.func) == "self._now":
            for t in n.targets:
                if isinstance(t, ast.Name):
                    now_locals.add(t.id)
    T1 = nodes_calling(cfg, tcall("time", lambda c: c.args and dotted(c.args[0]) == "self._test_start"), live)
    S = nodes_calling(cfg, tcall("startTest", lambda c: c.args and dotted(c.args[0]) == test_param), live)
    T2 = nodes_calling(cfg, tcall("time", lambda c: c.args and isinstance(c.args[0], ast.Name) and c.args[0].id in now_locals), live)
    GG = nodes_calling(cfg, tcall("tags", lambda c: c.args and isinstance(c.args[0], ast.Starred) and dotted(c.args[0].value) == "self._global_tags"), live)
    GT = nodes_calling(cfg, tcall("tags", lambda c: c.args and isinstance(c.args[0], ast.Starred) and dotted(c.args[0].value) == "self._test_tags"), live)

    def is_method_call(c):
        return isinstance(c.func, ast.Name) and c.func.id == pname

    M = nodes_calling(cfg, is_method_call, live)
    E = nodes_calling(cfg, tcall("stopTest", lambda c: c.args and dotted(c.args[0]) == test_param), live)
    REL = [n.id for n in cfg.nodes if n.id in live and any(o == "release" for o, _ in _node_lock_ops(n, locks))]

    def order(name_, ok, msg, node=None, path=None):
        ctx.check("R-BLOCK-ORDER", f"{TFR}.{helper_name}: {name_}", node or helper, ok, msg, path=path,
                  construct=f"{REAL}:{TFR}.{helper_name}::{name_}")

    order("start-time call present", len(T1) == 1, "expected exactly one self.result.time(self._test_start)")
    order("startTest call present", len(S) == 1, "expected exactly one self.result.startTest(test)")
    order("end-time call present", len(T2) == 1, "expected exactly one self.result.time(<local taken from self._now()>)")
    order("outcome call present", len(M) == 1, f"expected exactly one {pname}(test, ...)")
    order("stopTest present", len(E) >= 1, "expected self.result.stopTest(test)")
    order("global and test tags replayed", len(GG) == 1 and len(GT) == 1, "expected tags(*self._global_tags) and tags(*self._test_tags)")
    if T1 and S and T2 and M and E and GG and GT:
        order("start time before startTest", cfg.dominated_by(S[0], set(T1)), "startTest is reachable without the start time having been sent")
        order("startTest before end time", cfg.dominated_by(T2[0], set(S)), "end time can be sent before startTest")
        order("end time before tags", all(cfg.dominated_by(g, set(T2)) for g in GG + GT), "tags can be sent before the end time")
        order("global tags before test tags", not (set(cfg.reach(cfg.after(GT[0]))) & set(GG)), "global tags can follow the test's own tags")
        order("tags before outcome", not (set(cfg.reach(cfg.after(M[0], exclude=()))) & set(GG + GT)), "tags can be sent after the outcome")
        order("startTest/end time before outcome", cfg.dominated_by(M[0], set(S)) and cfg.dominated_by(M[0], set(T2)), "outcome reachable without startTest / end time")
        esc = cfg.escape_path(cfg.after(M[0], exclude=()), set(E))
        order("stopTest on every path out of the outcome", esc is None, "a path leaves the outcome call (normally or exceptionally) without stopTest", path=cfg.describe_path(esc) if esc else None)
        order("stopTest only after the outcome", all(cfg.dominated_by(e, set(M)) for e in E), "stopTest reachable without the outcome call")
        order("stopTest before release", all(not (set(cfg.reach(cfg.after(r, exclude=()))) & set(E)) for r in REL), "stopTest can run after the semaphore was released")
        # outcome call passes the test and the caller's arguments through
        mcall = [c for c in node_calls(cfg.nodes[M[0]]) if is_method_call(c)][0]
        va = helper.args.vararg.arg if helper.args.vararg else None
        kw = helper.args.kwarg.arg if helper.args.kwarg else None
        ok_args = (
            mcall.args
            and dotted(mcall.args[0]) == test_param
            and any(isinstance(a, ast.Starred) and dotted(a.value) == va for a in mcall.args)
            and any(k.arg is None and dotted(k.value) == kw for k in mcall.keywords)
        )
        order("outcome receives test, *args, **kwargs", bool(ok_args), f"{norm(mcall)} does not pass test, *{va}, **{kw}", node=mcall)
    # per-test tag buffer cleared inside the held region, after it was replayed; global kept
    clear_nodes = []
    global_writes = []
    for n in cfg.nodes:
        if n.id not in live or n.kind != "stmt" or not isinstance(n.ast, ast.Assign):
            continue
        for t in n.ast.targets:
            d = dotted(t)
            if d == "self._test_tags":
                clear_nodes.append(n.id)
            if d == "self._global_tags":
                global_writes.append(n.id)
    acq = [n.id for n in cfg.nodes if n.id in live and any(o == "acquire" for o, _ in _node_lock_ops(n, locks))]
    if acq:
        esc = cfg.escape_path(cfg.after(acq[0]), set(clear_nodes), targets=[cfg.exit_return])
        order("per-test tag buffer cleared", bool(clear_nodes) and esc is None, "a normal path through the block leaves the per-test tag buffer uncleared (tags would leak into the next test)", path=cfg.describe_path(esc) if esc else None)
        if clear_nodes and GT:
            order("buffer cleared only after it was replayed", not (set(cfg.reach(cfg.after(clear_nodes[0]))) & set(GT)), "the per-test tag buffer is cleared before it is sent")
            a = Aliases(helper)
            fresh = all(a.of(cfg.nodes[c].ast.value) <= {("fresh",)} for c in clear_nodes)
            order("buffer reset to fresh sets", fresh, "per-test tag buffer reset to a shared / non-fresh object")
        order("clear happens while held", all(exp.states_at(c) == {"H"} for c in clear_nodes), "per-test tag buffer cleared outside the held region")
    order("global tag buffer survives the block", not global_writes, "the block overwrites the run-level tag buffer")
    # startTest records the start time and does not touch the target
    st = methods.get("startTest")
    if st is None:
        raise AnalysisError("anchor vanished: ThreadsafeForwardingResult.startTest")
    rec = [n for n in walk_shallow(st, include_self=False) if isinstance(n, ast.Assign) and any(dotted(t) == "self._test_start" for t in n.targets) and isinstance(n.value, ast.Call) and dotted(n.value.func) == "self._now"]
    ctx.check("R-BLOCK-ORDER", f"{TFR}.startTest records the test's own start time", st, len(rec) == 1, "startTest no longer stores self._now() in self._test_start",
              construct=f"{REAL}:{TFR}.startTest::records-start")
    reset = [n for n in walk_shallow(helper, include_self=False) if isinstance(n, ast.Assign) and any(dotted(t) == "self._test_start" for t in n.targets) and isinstance(n.value, ast.Constant) and n.value.value is None]
    ctx.check("R-BLOCK-ORDER", f"{TFR}.{helper_name} resets the start time", helper, len(reset) >= 1, "the start time is not reset after the block (tags() would keep routing to the per-test buffer)",
              construct=f"{REAL}:{TFR}.{helper_name}::resets-start")

    # -- R-NO-SHARED-STATE ---------------------------------------------------------------------
    for name, f in sorted(methods.items()):
        bad = None
        for n in walk_shallow(f, include_self=False):
            if isinstance(n, (ast.Global, ast.Nonlocal)):
                bad = (n, f"{norm(n)}")
            if isinstance(n, (ast.Assign, ast.AugAssign)):
                targets = n.targets if isinstance(n, ast.Assign) else [n.target]
                for t in targets:
                    for sub in ast.walk(t):
                        if isinstance(sub, ast.Attribute) and isinstance(sub.ctx, ast.Store):
                            ch = attr_chain(sub)
                            if not ch or ch[0] != "self" or len(ch) != 2:
                                bad = (n, f"store to {norm(sub)}")
        ctx.check("R-NO-SHARED-STATE", f"{TFR}.{name}", f, bad is None, f"writes shared state: {bad[1] if bad else ''}", construct=f"{REAL}:{TFR}.{name}::writes")
    for aname, v in tfr.attrs.items():
        mutable = isinstance(v, (ast.List, ast.Dict, ast.Set)) or (isinstance(v, ast.Call) and dotted(v.func) in ("list", "dict", "set"))
        ctx.check("R-NO-SHARED-STATE", f"{TFR}.{aname} (class attribute)", v, not mutable, "class-level mutable shared by all forwarders")

    # -- R-MERGE-PURE -------------------------------------------------------------------------------
    mt = module_function(ctx, REAL, "_merge_tags")
    a = Aliases(mt, is_method=False)
    n_mut = 0
    for site, tgt, how in a.mutations():
        owned = a.caller_owned(a.of(tgt))
        n_mut += 1
        ctx.check("R-MERGE-PURE", f"_merge_tags: {norm(tgt)}{how}", site, not owned, f"mutates an argument of _merge_tags in place ({sorted(owned)})")
    rets = [n for n in walk_shallow(mt, include_self=False) if isinstance(n, ast.Return)]
    for r in rets:
        vals = r.value.elts if isinstance(r.value, ast.Tuple) else [r.value]
        owned = set()
        for v in vals:
            owned |= a.caller_owned(a.of(v))
        ctx.check("R-MERGE-PURE", f"_merge_tags: {norm(r)}", r, not owned, f"returns an argument object itself ({sorted(owned)}): buffers would alias the caller's sets")
    ctx.floor("R-MERGE-PURE", 3)

    if ctx.tier == "thorough":
        # whole-package sweep: every function that acquires anything pairs it
        ctx.rule("R-LOCK-PAIR-SWEEP", "every acquire()/release() in the package is paired on all paths")
        for m in ctx.repo.modules.values():
            for f in ast.walk(m.tree):
                if not isinstance(f, FUNC_TYPES):
                    continue
                if getattr(f, "_class", None) is tfr.node:
                    continue
                lr = lock_receivers(f)
                if not lr:
                    continue
                ctx.repo.module(m.name)
                cfg = cfg_of(ctx, f)
                exp, errors = lock_typestate(cfg, lr)
                held_exit = any("H" in exp.states_at(ex) for ex in cfg.exits)
                ctx.check("R-LOCK-PAIR-SWEEP", f"{m.name}:{f.name}", f, not errors and not held_exit, "unpaired acquire/release", examined=exp.size)
    ctx.assume("threading.Semaphore(1) is non-reentrant and release() after acquire() does not raise")
    ctx.assume("the wrapped target is reached only through the attribute assigned from the 'target' parameter in __init__")
