"""C19 -- suite utilities preserve the test set: filter keeps chosen ids, sort permutes."""

import ast

from ..absint import NONE, NOTNONE, TOP, DefaultDomain, Interp, Result, State, exc, val
from ..astutil import FUNC_TYPES, attr_chain, dotted, norm, walk_shallow
from ..cfg import live_nodes, node_calls
from ..loader import AnalysisError
from .common import TESTSUITE, cfg_of, kw_value, module_function, nodes_calling, own_method, str_const

EXPLANATION = (
    "R-DUP-CHECK-FIRST: in sorted_tests the duplicate-id ValueError dominates flattening and sorting and "
    "counts ids over iterate_tests of the whole argument. R-SORTKEY-NONNULL: nullness abstract interpretation "
    "of _flatten_tests -- every value that becomes the sort key (first component) of an element of the list "
    "that sorted_tests sorts is non-None on all paths. R-RESULT-USED: the value returned by filter_by_ids and "
    "sorted_tests is used at every call site (the contract allows returning a new object). "
    "R-FILTER-OBLIGATIONS: filter_by_ids dispatches custom filter_by_ids, then objects with id(), then "
    "TestSuite, else unchanged; in the TestSuite arm every child is passed to exactly one recursive call whose "
    "result is appended in iteration order to the list that replaces _tests. R-ITERATE: iterate_tests yields "
    "non-iterables and recurses into every element in order. R-LIST-LOAD: --load-list ids are stripped and "
    "decoded per line and reach filter_by_ids before runTests; --list prints the ids of iterate_tests / "
    "list_test of the (filtered) suite. Tree-shape semantics of flattening and sorting are value properties "
    "and are not decided."
)

RUN = "testtools.run"


class KeyDomain(DefaultDomain):
    def __init__(self):
        self.returns = []

    def is_none(self, v):
        if v == ("id",):
            return "F"
        return super().is_none(v)

    def call(self, interp, call, st, fr):
        d = dotted(call.func)
        out = []
        for r in interp.eval_list([a.value if isinstance(a, ast.Starred) else a for a in call.args] + [k.value for k in call.keywords], st, fr):
            if r.kind == "exc":
                out.append(r)
                continue
            if d and d.endswith(".id") and not call.args:
                out.append(val(("id",), r.state))
            elif d == "getattr" and len(call.args) == 3 and isinstance(call.args[2], ast.Constant) and call.args[2].value is None:
                out.append(val(TOP, r.state))
                out.append(val(NONE, r.state))
            elif d == "iter":
                out.append(val(TOP, r.state))
                out.append(exc(("raised", "TypeError"), r.state))
            else:
                out.append(val(TOP, r.state))
        return out

    def match(self, handler_type, excvalue, st):
        if handler_type is not None and isinstance(excvalue, tuple) and len(excvalue) == 2 and excvalue[1] in norm(handler_type):
            return "yes"
        return "maybe"

    _busy = False

    def exec_hook(self, interp, s, st, fr):
        if isinstance(s, ast.Assign) and len(s.targets) == 1 and isinstance(s.targets[0], ast.Name) and not self._busy:
            # remember which assignment defined each local (part of a finding's identity)
            self._busy = True
            try:
                outs = interp.exec(s, st, fr)
            finally:
                self._busy = False
            return [(k, p_, (s2.set("def:" + s.targets[0].id, norm(s)) if k == "next" else s2)) for k, p_, s2 in outs]
        if isinstance(s, ast.Return) and isinstance(s.value, ast.List) and fr.depth == 0:
            out = []
            for e in s.value.elts:
                if isinstance(e, ast.Tuple) and e.elts:
                    for r in interp.eval(e.elts[0], st, fr):
                        if r.kind == "val":
                            self.returns.append((s, e.elts[0], r.value, r.state))
            return None
        return None


def run(ctx):
    ctx.rule("R-DUP-CHECK-FIRST", "duplicate ids are rejected before anything is flattened or sorted")
    ctx.rule("R-SORTKEY-NONNULL", "every sort key produced by _flatten_tests is a test id, never None")
    ctx.rule("R-RESULT-USED", "results of filter_by_ids / sorted_tests are used by their callers")
    ctx.rule("R-FILTER-OBLIGATIONS", "filter_by_ids: documented dispatch order; every child filtered once, in order, result kept")
    ctx.rule("R-ITERATE", "iterate_tests yields every leaf once, in suite order")
    ctx.rule("R-LIST-LOAD", "--load-list ids reach filter_by_ids before the run; --list prints the ids of the filtered suite")
    classes = ctx.classes
    mod = ctx.repo.module(TESTSUITE)

    # ------------------------------------------------------------------ duplicate check first
    st_f = module_function(ctx, TESTSUITE, "sorted_tests")
    g = cfg_of(ctx, st_f)
    lv = live_nodes(g)
    raises = [n.id for n in g.nodes if n.id in lv and n.kind == "raise" and isinstance(n.ast, ast.Raise) and n.ast.exc is not None and "ValueError" in norm(n.ast.exc)]
    flat = nodes_calling(g, lambda c: dotted(c.func) == "_flatten_tests", lv)
    sorts = nodes_calling(g, lambda c: isinstance(c.func, ast.Attribute) and c.func.attr == "sort" or dotted(c.func) == "sorted", lv)
    ok = len(raises) == 1 and bool(flat) and bool(sorts)
    if ok:
        rn = g.nodes[raises[0]].ast
        guard = getattr(rn, "_parent", None)
        gt = [n.id for n in g.nodes if n.id in lv and n.kind == "test" and n.ast is guard]
        ok = isinstance(guard, ast.If) and bool(gt) and all(g.dominated_by(x, set(gt)) for x in flat + sorts)
    ctx.check("R-DUP-CHECK-FIRST", "the duplicate-id check dominates flattening and sorting", st_f, ok,
              "tests can be flattened / sorted before duplicate ids are rejected (TypeError from comparing tests instead of ValueError)", construct=f"{TESTSUITE}:sorted_tests::check-first")
    counted = [c for c in walk_shallow(st_f, include_self=False) if isinstance(c, ast.Call) and dotted(c.func) == "Counter"]
    ok = len(counted) == 1 and "iterate_tests(%s)" % st_f.args.args[0].arg in norm(counted[0]) and ".id()" in norm(counted[0])
    ctx.check("R-DUP-CHECK-FIRST", "ids are counted over iterate_tests of the whole argument", st_f, ok, "duplicate detection does not look at every leaf test's id", construct=f"{TESTSUITE}:sorted_tests::count-all")
    dup = [n for n in walk_shallow(st_f, include_self=False) if isinstance(n, ast.Assign) and isinstance(n.value, ast.DictComp)]
    ok = len(dup) == 1 and any(isinstance(i, ast.Compare) and isinstance(i.ops[0], ast.Gt) and isinstance(i.comparators[0], ast.Constant) and i.comparators[0].value == 1 for i in dup[0].value.generators[0].ifs)
    ctx.check("R-DUP-CHECK-FIRST", "an id is a duplicate precisely when it occurs more than once", st_f, ok, "the duplicate predicate is not `count > 1`", construct=f"{TESTSUITE}:sorted_tests::predicate")
    rets = [r for r in walk_shallow(st_f, include_self=False) if isinstance(r, ast.Return)]
    ok = len(rets) == 1 and "unittest.TestSuite(" in norm(rets[0].value) and "for (sort_key, test) in tests" in norm(rets[0].value).replace("for sort_key, test in", "for (sort_key, test) in") and not any(
        isinstance(x, ast.comprehension) and x.ifs for x in ast.walk(rets[0].value))
    ctx.check("R-DUP-CHECK-FIRST", "sorted_tests returns a suite of every flattened test", st_f, ok, "sorted_tests drops or filters tests when rebuilding the suite", construct=f"{TESTSUITE}:sorted_tests::returns-all")

    # ------------------------------------------------------------------ sort key non-null
    ft = module_function(ctx, TESTSUITE, "_flatten_tests")
    dom = KeyDomain()
    it = Interp(dom, max_depth=2)
    it.analyze(ft, {}, State(), receiver=None, name="_flatten_tests")
    ctx.stats["states"] += it.steps
    ctx.analysed(ft)
    seen = {}
    for stmt, expr, value, state in dom.returns:
        key = (stmt.lineno, norm(expr), value == NONE or value == TOP and False)
        null = dom.is_none(value) != "F"
        origin = state.get("def:" + norm(expr), "") if isinstance(expr, ast.Name) else ""
        seen.setdefault((stmt.lineno, norm(expr) + (f" (from `{origin}`)" if origin and null else ""), null), (stmt, expr, value))
    for (line, etxt, null), (stmt, expr, value) in sorted(seen.items()):
        ctx.check("R-SORTKEY-NONNULL", f"_flatten_tests: `{norm(stmt)[:50]}` key {etxt} is {'possibly None' if null else 'a test id'}", stmt, not null,
                  f"the sort key `{etxt}` can be None here (value {value}): an empty custom suite yields (None, suite) and sorted_tests' sort() raises TypeError "
                  "comparing None with str instead of keeping the suite", construct=f"{TESTSUITE}:_flatten_tests::key {etxt} null={null}")
    ctx.floor("R-SORTKEY-NONNULL", 2, "returned sort keys")

    # ------------------------------------------------------------------ results used
    n_sites = 0
    for modname, m in ctx.repo.modules.items():
        for c in ast.walk(m.tree):
            if isinstance(c, ast.Call) and dotted(c.func) in ("filter_by_ids", "sorted_tests", "testtools.testsuite.filter_by_ids", "testtools.testsuite.sorted_tests"):
                ctx.repo.module(modname)
                p = getattr(c, "_parent", None)
                used = not isinstance(p, ast.Expr)
                how = type(p).__name__
                if isinstance(p, ast.Call) and isinstance(p.func, ast.Attribute) and p.func.attr == "append":
                    how = "appended"
                n_sites += 1
                ctx.check("R-RESULT-USED", f"{modname.split('.')[-1]}:{getattr(getattr(c, '_func', None), 'name', '<module>')}: {norm(c)[:50]} ({how})", c, used,
                          f"the result of `{norm(c)[:60]}` is discarded: the contract allows filter_by_ids/sorted_tests to return a NEW object, so the caller would keep the unfiltered/unsorted suite",
                          construct=f"{modname}:{getattr(getattr(c, '_func', None), 'name', '<module>')}::{dotted(c.func)}")
    ctx.floor("R-RESULT-USED", 4, "call sites")
    ds = own_method(ctx, RUN, "TestProgram", "_do_discovery")
    ok = any(isinstance(n, ast.Assign) and dotted(n.targets[0]) == "self.test" and norm(n.value) == "sorted_tests(self.test)" for n in ast.walk(ds))
    ctx.check("R-RESULT-USED", "discovered tests are replaced by the sorted suite", ds, ok, "self.test is not reassigned from sorted_tests(self.test)", construct=f"{RUN}:TestProgram._do_discovery::assign")
    fs = own_method(ctx, TESTSUITE, "FixtureSuite", "sort_tests")
    ok = any(isinstance(n, ast.Assign) and dotted(n.targets[0]) == "self._tests" and isinstance(n.value, ast.Call) and dotted(n.value.func) == "sorted_tests" for n in ast.walk(fs))
    ctx.check("R-RESULT-USED", "FixtureSuite.sort_tests keeps the sorted tests", fs, ok, "FixtureSuite.sort_tests discards the sorted result", construct=f"{TESTSUITE}:FixtureSuite.sort_tests::assign")

    # ------------------------------------------------------------------ filter obligations
    fb = module_function(ctx, TESTSUITE, "filter_by_ids")
    ctx.analysed(fb)
    tops = [s for s in fb.body if isinstance(s, ast.If)]
    p0, p1 = (a.arg for a in fb.args.args[:2])
    order = []
    for s in tops:
        t = norm(s.test).replace('"', "'")
        if t == f"hasattr({p0}, 'filter_by_ids')":
            order.append("custom")
        elif t == f"hasattr({p0}, 'id')":
            order.append("id")
        elif t.startswith(f"isinstance({p0}, ") and "TestSuite" in t:
            order.append("suite")
        else:
            order.append("?" + t)
    ctx.check("R-FILTER-OBLIGATIONS", "dispatch order: custom filter_by_ids, object with id(), TestSuite, else unchanged", fb, order == ["custom", "id", "suite"],
              f"dispatch order is {order}", construct=f"{TESTSUITE}:filter_by_ids::dispatch-order")
    if order == ["custom", "id", "suite"]:
        cu, idn, su = tops
        ok = len(cu.body) == 1 and isinstance(cu.body[0], ast.Return) and norm(cu.body[0].value) == f"{p0}.filter_by_ids({p1})"
        ctx.check("R-FILTER-OBLIGATIONS", "custom arm returns what the object's own filter_by_ids returns", cu, ok, "the custom arm does not return suite.filter_by_ids(test_ids)", construct=f"{TESTSUITE}:filter_by_ids::custom")
        inner = [s for s in idn.body if isinstance(s, ast.If)]
        ok = (len(inner) == 1 and norm(inner[0].test) == f"{p0}.id() in {p1}" and isinstance(inner[0].body[0], ast.Return) and dotted(inner[0].body[0].value) == p0
              and isinstance(inner[0].orelse[0], ast.Return) and norm(inner[0].orelse[0].value) == "unittest.TestSuite()")
        ctx.check("R-FILTER-OBLIGATIONS", "a test is kept iff its id is in test_ids, else replaced by an empty suite", idn, ok, "the id arm does not keep exactly the tests whose id is listed", construct=f"{TESTSUITE}:filter_by_ids::id-arm")
        loops = [l for l in su.body if isinstance(l, ast.For)]
        ok = False
        if len(loops) == 1 and dotted(loops[0].iter) == p0 and isinstance(loops[0].target, ast.Name):
            v = loops[0].target.id
            calls = [c for c in walk_shallow(loops[0]) if isinstance(c, ast.Call) and dotted(c.func) == "filter_by_ids"]
            ok = (len(calls) == 1 and [dotted(a) for a in calls[0].args] == [v, p1] and isinstance(calls[0]._parent, ast.Call) and isinstance(calls[0]._parent.func, ast.Attribute)
                  and calls[0]._parent.func.attr == "append" and not any(isinstance(x, (ast.If, ast.Break, ast.Continue, ast.Return, ast.Try)) for x in walk_shallow(loops[0])))
            if ok:
                lst = dotted(calls[0]._parent.func.value)
                repl = [n for n in su.body if isinstance(n, ast.Assign) and norm(n.targets[0]) in (f"{p0}._tests[:]", f"{p0}._tests") and dotted(n.value) == lst]
                init = [n for n in su.body if isinstance(n, ast.Assign) and dotted(n.targets[0]) == lst and isinstance(n.value, ast.List) and not n.value.elts]
                ok = len(repl) == 1 and len(init) == 1 and su.body.index(init[0]) < su.body.index(loops[0]) < su.body.index(repl[0])
        ctx.check("R-FILTER-OBLIGATIONS", "TestSuite arm: each child filtered once, results appended in order, list replaces _tests", su, ok,
                  "a child can be skipped / filtered twice / the filtered children do not replace suite._tests in iteration order", construct=f"{TESTSUITE}:filter_by_ids::suite-arm")
        tail = [s for s in fb.body if isinstance(s, ast.Return)]
        ok = len(tail) == 1 and dotted(tail[0].value) == p0 and fb.body[-1] is tail[0]
        ctx.check("R-FILTER-OBLIGATIONS", "anything else (and a filtered suite) is returned itself", fb, ok, "filter_by_ids does not end with `return suite_or_case`", construct=f"{TESTSUITE}:filter_by_ids::tail")

    # ------------------------------------------------------------------ iterate_tests
    itf = module_function(ctx, TESTSUITE, "iterate_tests")
    p = itf.args.args[0].arg
    tries = [t for t in itf.body if isinstance(t, ast.Try)]
    ok = False
    if len(tries) == 1:
        t = tries[0]
        ok = (any("TypeError" in norm(h.type) and any(isinstance(y, ast.Yield) and dotted(y.value) == p for s in h.body for y in walk_shallow(s)) for h in t.handlers if h.type is not None)
              and any(isinstance(l, ast.For) and isinstance(l.body[0], ast.Expr) and isinstance(l.body[0].value, ast.YieldFrom) and norm(l.body[0].value.value) == f"iterate_tests({dotted(l.target)})"
                      and not any(isinstance(x, (ast.If, ast.Break, ast.Continue)) for x in walk_shallow(l)) for l in t.orelse))
    ctx.check("R-ITERATE", "iterate_tests: non-iterable -> yield it; else recurse into every element in order", itf, ok,
              "iterate_tests no longer yields each leaf exactly once in suite order", construct=f"{TESTSUITE}:iterate_tests::shape")

    # ------------------------------------------------------------------ list / load-list
    init = own_method(ctx, RUN, "TestProgram", "__init__")
    g = cfg_of(ctx, init)
    lv = live_nodes(g)
    filt = nodes_calling(g, lambda c: dotted(c.func) == "filter_by_ids", lv)
    runs = nodes_calling(g, lambda c: dotted(c.func) == "self.runTests", lv)
    lists = nodes_calling(g, lambda c: dotted(c.func) in ("runner.list", "iterate_tests"), lv)
    parse = nodes_calling(g, lambda c: dotted(c.func) == "self.parseArgs", lv)
    ok = len(filt) == 1 and bool(runs) and bool(parse) and g.dominated_by(filt[0], set(parse)) and not (set(g.reach(g.after(runs[0]))) & set(filt)) and all(
        f not in g.reach(g.after(x)) for x in runs + lists for f in filt)
    ctx.check("R-LIST-LOAD", "--load-list filtering happens after argument parsing and before running / listing", init, ok,
              "the suite can be run or listed before the --load-list filter is applied", construct=f"{RUN}:TestProgram.__init__::filter-before-run")
    guard_ok = False
    for nid in filt:
        c = [c for c in node_calls(g.nodes[nid]) if dotted(c.func) == "filter_by_ids"][0]
        stmt = g.nodes[nid].ast
        guard_ok = isinstance(stmt, ast.Assign) and dotted(stmt.targets[0]) == "self.test" and [norm(a) for a in c.args] == ["self.test", "test_ids"] and any(
            isinstance(p_, ast.If) and norm(p_.test) == "self.load_list" for p_ in _ancestors(stmt, init))
    ctx.check("R-LIST-LOAD", "self.test is replaced by filter_by_ids(self.test, test_ids) iff --load-list was given", init, guard_ok,
              "the filtered suite does not replace self.test under `if self.load_list`", construct=f"{RUN}:TestProgram.__init__::assign")
    ids = [n for n in walk_shallow(init, include_self=False) if isinstance(n, ast.Assign) and dotted(n.targets[0]) == "test_ids"]
    ok = len(ids) == 1 and isinstance(ids[0].value, (ast.SetComp, ast.ListComp)) and "strip()" in norm(ids[0].value.elt) and "decode(" in norm(ids[0].value.elt) and not ids[0].value.generators[0].ifs and norm(
        ids[0].value.generators[0].iter) == "lines"
    ctx.check("R-LIST-LOAD", "every line of the list file becomes one stripped, decoded id", init, ok, "list-file lines are not each stripped and decoded into test_ids", construct=f"{RUN}:TestProgram.__init__::ids")
    ok = any(isinstance(n, ast.Assign) and dotted(n.targets[0]) == "lines" and norm(n.value) == "source.readlines()" for n in walk_shallow(init, include_self=False))
    ctx.check("R-LIST-LOAD", "the whole list file is read", init, ok, "not all lines of the list file are read", construct=f"{RUN}:TestProgram.__init__::readlines")
    fallback = [l for l in walk_shallow(init, include_self=False) if isinstance(l, ast.For) and norm(l.iter) == "iterate_tests(self.test)"]
    ok = len(fallback) == 1 and any(isinstance(c, ast.Call) and dotted(c.func) == "self.stdout.write" and "test.id()" in norm(c) for c in walk_shallow(fallback[0]))
    ctx.check("R-LIST-LOAD", "--list fallback prints the id of every test of iterate_tests(self.test)", init, ok, "the listing fallback does not print every id", construct=f"{RUN}:TestProgram.__init__::list-fallback")
    rl = own_method(ctx, RUN, "TestToolsTestRunner", "list")
    ok = any(isinstance(n, ast.Assign) and norm(n.value) == "list_test(test)" for n in walk_shallow(rl, include_self=False)) and any(
        isinstance(l, ast.For) and dotted(l.iter) == "test_ids" and any(isinstance(c, ast.Call) and dotted(c.func) == "self.stdout.write" for c in walk_shallow(l)) and not any(
            isinstance(x, (ast.If, ast.Break, ast.Continue)) for x in walk_shallow(l)) for l in walk_shallow(rl, include_self=False))
    ctx.check("R-LIST-LOAD", "TestToolsTestRunner.list prints every id list_test returns", rl, ok, "the runner's list() skips ids", construct=f"{RUN}:TestToolsTestRunner.list::all")
    lt = module_function(ctx, RUN, "list_test")
    loops = [l for l in lt.body if isinstance(l, ast.For)]
    ok = len(loops) == 1 and norm(loops[0].iter) == f"iterate_tests({lt.args.args[0].arg})" and any(
        isinstance(c, ast.Call) and dotted(c.func) == "test_ids.append" and norm(c.args[0]) == "test.id()" for c in ast.walk(loops[0]))
    ctx.check("R-LIST-LOAD", "list_test collects test.id() for every test of iterate_tests", lt, ok, "list_test does not walk iterate_tests(test) collecting ids", construct=f"{RUN}:list_test::collect")
    ctx.assume("test ids are strings (never None)")


def _ancestors(node, stop):
    out = []
    n = getattr(node, "_parent", None)
    while n is not None and n is not stop:
        out.append(n)
        n = getattr(n, "_parent", None)
    return out
