"""C19 -- suite utilities preserve the test set: filter keeps chosen ids, sort permutes.

The recursive utilities (iterate_tests, filter_by_ids, _flatten_tests) are decided by an inductive step on one
symbolic node: the function is interpreted abstractly for every kind of node (test case, plain TestSuite, custom
suite with or without sort_tests / filter_by_ids, empty suite, foreign object) with its recursive calls replaced
by symbolic results, so that "every child is handled exactly once, in order, and the result kept" is read off
the run.  sorted_tests, the --list / --load-list plumbing of testtools.run and the listing helpers are interpreted
against symbolic suites, runners and files.
"""

import ast

from .. import effects
from ..objects import ObjectDomain
from ..absint import FALSE, NONE, TOP, TRUE, State, exc, val
from ..astutil import FUNC_TYPES, dotted, norm
from ..loader import AnalysisError
from .common import TESTSUITE, module_function, own_method

EXPLANATION = (
    "Inductive steps on a symbolic node (abstract runs with recursive calls replaced by symbolic results) for "
    "every kind of node -- test case, plain TestSuite, custom suite with / without sort_tests or filter_by_ids, "
    "empty suites, a foreign object. R-ITERATE: iterate_tests yields a non-iterable itself and, for a suite, the "
    "leaves of every child once, in order. R-FILTER-OBLIGATIONS: filter_by_ids delegates to an object's own "
    "filter_by_ids, keeps a case iff its id is listed (else an empty TestSuite), filters every child of a suite "
    "exactly once and replaces the suite's tests by the results in order, returns anything else unchanged. "
    "R-SORTKEY-NONNULL / R-DUP-CHECK-FIRST: _flatten_tests gives a case (id, case), concatenates the flattened "
    "children of a plain suite in order, keeps a custom suite whole under the id of its first test and calls its "
    "sort_tests once; sorted_tests rejects duplicate ids with ValueError before anything is flattened (sort_tests "
    "has side effects) and otherwise returns a TestSuite of the flattened tests ordered by key. R-RESULT-USED: the "
    "value returned by filter_by_ids / sorted_tests is used at every call site (the contract allows a new object). "
    "R-LIST-LOAD: TestProgram.__init__ for --load-list / --list on and off, runners with and without list(): the ids "
    "of the list file (every line, stripped, decoded) reach filter_by_ids whose result replaces self.test before "
    "anything runs or is listed; --list uses runner.list(self.test[, loader]) or prints the id of every test of "
    "iterate_tests(self.test), and does not run; list_test / TestToolsTestRunner.list print every id. Whole-tree "
    "permutation properties follow from these steps by induction and are not re-derived on concrete trees."
)

RUN = "testtools.run"
IDS_HIT, IDS_MISS = ("tuple", ("const", "the.case.id"), ("const", "x")), ("tuple", ("const", "x"))
X, Y = ("sym", "child-1"), ("sym", "child-2")
NODE = ("wobj", "node")
SUITE_CLASS = ("class", "unittest.TestSuite")
KINDS = {
    # kind: (is a TestSuite, exactly unittest.TestSuite, has id(), has filter_by_ids, has sort_tests)
    "a test case": (False, False, True, False, False),
    "a test case with its own filter_by_ids": (False, False, True, True, False),
    "a plain TestSuite": (True, True, False, False, False),
    "a custom suite": (True, False, False, False, False),
    "a custom suite with sort_tests": (True, False, False, False, True),
    "a custom suite with filter_by_ids": (True, False, False, True, False),
    "a foreign object": (False, False, False, False, False),
}


class NodeDomain(ObjectDomain):
    """One symbolic node of a suite tree; recursive calls of the utilities are answered symbolically."""

    # The recursive utilities are generators over a symbolic tree: a recursive call is answered by the induction
    # hypothesis (what it yields for a child), which needs the whole body of a generator run at its call.
    lazy_generators = False
    strict_comprehensions = False   # (the nodes are symbolic: a comprehension over one is "some ids", which the rules read as such)

    def __init__(self, classes, kind, children=(X, Y), stubs=None, **kw):
        suite, plain, has_id, has_filter, has_sort = KINDS[kind]
        lacks = set(kw.pop("lacks", ()))
        if not has_id:
            lacks.add(("node", "id"))
        if not has_filter:
            lacks.add(("node", "filter_by_ids"))
        if not has_sort:
            lacks.add(("node", "sort_tests"))
        attrs = {"unittest.TestSuite": SUITE_CLASS}
        attrs.update(kw.pop("attrs", {}))
        super().__init__(classes, attrs=attrs, lacks=lacks, oracle=kw.pop("oracle", None) or self._oracle, ctors={"unittest.TestSuite", "TestSuite"}, log_cap=24, **kw)
        self.kind, self.suite, self.plain, self.children = kind, suite, plain, tuple(children)
        self.stubs = dict(stubs or {})

    def _oracle(self, n, pos, kw):
        if n == "node.id":
            return [("val", ("const", "the.case.id"))]
        if n == "node.filter_by_ids":
            return [("val", ("sym", "what-its-own-filter-returns"))]
        if n == "node.sort_tests":
            return [("val", NONE)]
        if n.endswith(".id") and n.startswith("leaf"):
            return [("val", ("const", n.split(".")[0] + ".id"))]
        return None

    def compare(self, op, left, right):
        if isinstance(op, (ast.Eq, ast.NotEq, ast.Is, ast.IsNot)) and all(isinstance(v, tuple) and v[:1] == ("class",) for v in (left, right)):
            return "T" if (left == right) == isinstance(op, (ast.Eq, ast.Is)) else "F"
        if isinstance(op, (ast.In, ast.NotIn)) and isinstance(left, tuple) and left[:1] == ("class",) and isinstance(right, tuple) and right[:1] == ("tuple",) \
                and all(isinstance(v, tuple) and v[:1] == ("class",) for v in right[1:]):
            return "T" if (left in right[1:]) == isinstance(op, ast.In) else "F"
        return super().compare(op, left, right)

    def iter_exact(self, value):
        if value == NODE and self.suite:
            return list(self.children)
        return super().iter_exact(value)

    def _callee(self, interp, call, st, fr):
        target = interp.resolve_callee(call, st, fr, self.classes)
        if target is None and isinstance(call.func, ast.Name) and call.func.id == getattr(fr.func, "name", None) and not st.has(fr.local(call.func.id)):
            return (fr.func, None, False)   # a function calling itself by name
        return target

    def _on_stack(self, f, fr):
        c = fr
        while c is not None:
            if c.func is f:
                return True
            c = c.caller
        return False

    def call(self, interp, call, st, fr):
        d = dotted(call.func) or ""
        entry = getattr(self, "entry_name", None)
        through_helper = False
        if d not in self.stubs and entry in self.stubs and isinstance(call.func, ast.Name):
            # a helper of the analysed utility that calls itself on a child: that is the recursion of the utility -- the inductive hypothesis answers
            target = self._callee(interp, call, st, fr)
            if target is not None and self._on_stack(target[0], fr):
                d = entry
                through_helper = True
        if d in self.stubs:
            from ..absint import heap_key, is_handle, unbox_deep
            out = []
            exprs = [a.value if isinstance(a, ast.Starred) else a for a in call.args] + [k.value for k in call.keywords]
            share = [through_helper and not isinstance(a, ast.Starred) for a in call.args] + [through_helper and k.arg is not None for k in call.keywords]
            for r in interp.eval_list(exprs, st, fr, share=share):
                if r.kind == "exc":
                    out.append(r)
                    continue
                # a list the helper fills for its caller (an accumulator handed down the recursion): by the inductive
                # hypothesis the recursive call appends what the utility yields for that child
                accs = [v for v in r.value if is_handle(v) and isinstance(r.state.get(heap_key(v), None), tuple) and r.state.get(heap_key(v))[:1] == ("tuple",)]
                plain = [None if is_handle(v) and v in accs else unbox_deep(v, r.state) for v in r.value]
                pos = tuple(v for v in plain[: len(call.args)] if v is not None)
                kw = tuple((k.arg, v) for k, v in zip(call.keywords, plain[len(call.args):]) if v is not None)
                target = self._callee(interp, call, r.state, fr)
                if target is not None and not accs:
                    pos, kw = self._positional(target[0], pos, kw, strip=(d == entry))
                elif accs and getattr(self, "entry", None) is not None:
                    pos, kw = self._positional(self.entry, pos, kw, strip=True)
                log = r.state.get("ev.calls", ())
                answer = self.stubs[d](pos, kw)
                s2 = r.state.set("ev.calls", log + ((d, pos, kw, "ok"),))
                if len(accs) == 1 and isinstance(answer, tuple) and answer[:1] == ("tuple",):
                    out.append(val(NONE, s2.set(heap_key(accs[0]), s2.get(heap_key(accs[0])) + answer[1:])))
                else:
                    out.append(val(answer, s2))
            return out
        if d in ("iter", "type", "isinstance") and call.args:
            out = []
            for r in interp.eval_list(list(call.args), st, fr):
                if r.kind == "exc":
                    out.append(r)
                elif r.value[0] != NODE:
                    return super().call(interp, call, st, fr)
                elif d == "iter":
                    out.append(val(("iter", ("tuple",) + self.children), r.state) if self.suite else exc(("exc", "TypeError"), r.state))
                elif d == "type":
                    out.append(val(SUITE_CLASS if self.plain else ("class", "a subclass or something else"), r.state))
                else:
                    types = r.value[1][1:] if isinstance(r.value[1], tuple) and r.value[1][:1] == ("tuple",) else (r.value[1],)
                    out.append(val(TRUE if (self.suite and SUITE_CLASS in types) else FALSE, r.state))
            return out
        return super().call(interp, call, st, fr)

    def _positional(self, f, pos, kw, strip=False):
        """Keyword arguments that name the next positional parameters of ``f`` moved to their positions; trailing
        arguments that merely restate the defaults of the analysed utility dropped."""
        names = [a.arg for a in f.args.posonlyargs + f.args.args]
        given = dict(kw)
        pos = list(pos)
        for n_ in names[len(pos):]:
            if n_ not in given:
                break
            pos.append(given.pop(n_))
        entry = getattr(self, "entry", None)
        if strip and entry is not None and not given:
            eparams = entry.args.posonlyargs + entry.args.args
            defaults = dict(zip([a.arg for a in eparams][len(eparams) - len(entry.args.defaults):], entry.args.defaults))
            while len(pos) > 1 and len(pos) <= len(eparams):
                dflt = defaults.get(eparams[len(pos) - 1].arg)
                if isinstance(dflt, ast.Constant) and self.constant(dflt) == pos[-1]:
                    pos.pop()
                else:
                    break
        return tuple(pos), tuple((k, v) for k, v in kw if k in given)

    def apply(self, interp, fn, pos, kw, st, fr):
        # a stubbed utility handed around as a value (map(iterate_tests, suite), partial(filter_by_ids, ...)): the same symbolic answer
        entry = getattr(self, "entry_name", None)
        recursive = isinstance(fn, tuple) and fn[:1] == ("func",) and entry in self.stubs and getattr(fn[1], "name", None) not in self.stubs and self._on_stack(fn[1], fr)
        if recursive or (isinstance(fn, tuple) and fn[:1] == ("func",) and getattr(fn[1], "name", None) in self.stubs and isinstance(getattr(fn[1], "_parent", None), ast.Module)):
            from ..absint import unbox_deep
            d = entry if recursive else fn[1].name
            pos, kw = tuple(unbox_deep(v, st) for v in pos), tuple((k, unbox_deep(v, st)) for k, v in kw)
            pos, kw = self._positional(fn[1], pos, kw, strip=(d == entry))
            log = st.get("ev.calls", ())
            return [val(self.stubs[d](pos, kw), st.set("ev.calls", log + ((d, pos, kw, "ok"),)))]
        return super().apply(interp, fn, pos, kw, st, fr)

    def store_subscript(self, target, value, st, fr, interp):
        # node._tests[:] = <list>: the suite's tests are replaced in place
        if isinstance(target.value, ast.Attribute) and target.value.attr == "_tests" and isinstance(target.value.value, ast.Name) \
                and st.get(fr.local(target.value.value.id), None) == NODE and isinstance(target.slice, ast.Slice) and target.slice.lower is None and target.slice.upper is None:
            return st.set("ev.tests_replaced", value)
        return super().store_subscript(target, value, st, fr, interp)

    def store_attr_on(self, base, attr, value, st, fr):
        if base == NODE and attr == "_tests":
            return st.set("ev.tests_replaced", value)
        return None


def _run(ctx, dom, f, argv):
    dom.entry_name = f.name
    dom.entry = f
    return effects.run(ctx, dom, f, None, argv, state=State(), depth=6)


def check_iterate(ctx):
    f = module_function(ctx, TESTSUITE, "iterate_tests")
    p = f.args.args[0].arg
    stub = {"iterate_tests": lambda pos, kw: ("tuple", ("leaf-of", pos[0], 1), ("leaf-of", pos[0], 2))}
    for kind, children in (("a test case", ()), ("a foreign object", ()), ("a plain TestSuite", (X, Y)), ("a custom suite", (X, Y)), ("a plain TestSuite", ())):
        dom = NodeDomain(ctx.classes, kind, children, stubs=stub)
        res = _run(ctx, dom, f, {p: NODE})
        suite = KINDS[kind][0]
        want = [x for c in children for x in (("leaf-of", c, 1), ("leaf-of", c, 2))] if suite else [NODE]
        problems = set()
        for r in res:
            got = list(r.state.get("gen.0", ()))
            if r.kind != "val" or got != want:
                problems.add(f"for {kind} with children {list(children)} iterate_tests yields {got} ({r.kind}); expected {'the leaves of each child once, in order' if suite else 'the object itself'}")
            rec = [e[1] for e in r.state.get("ev.calls", ()) if e[0] == "iterate_tests"]
            if suite and rec != [(c,) for c in children]:
                problems.add(f"the children recursed into are {rec}; expected each child once, in order")
        ctx.check("R-ITERATE", f"iterate_tests on {kind}" + (" without children" if suite and not children else ""), f, bool(res) and not problems, "; ".join(sorted(problems)) or "no path", examined=len(res),
                  construct=f"{TESTSUITE}:iterate_tests::{kind}{'' if children or not suite else ' (empty)'}")


def check_filter(ctx):
    f = module_function(ctx, TESTSUITE, "filter_by_ids")
    p = [a.arg for a in f.args.args]
    stub = {"filter_by_ids": lambda pos, kw: ("filtered", pos[0])}
    for kind in KINDS:
        for ids, listed in ((IDS_HIT, True), (IDS_MISS, False)):
            suite, plain, has_id, has_filter, has_sort = KINDS[kind]
            dom = NodeDomain(ctx.classes, kind, (X, Y), stubs=stub)
            res = _run(ctx, dom, f, {p[0]: NODE, p[1]: ids})
            problems = set()
            for r in res:
                log = r.state.get("ev.calls", ())
                own = [e for e in log if e[0] == "node.filter_by_ids"]
                rec = [e[1] for e in log if e[0] == "filter_by_ids"]
                replaced = r.state.get("ev.tests_replaced", None)
                if r.kind != "val":
                    problems.add(f"filter_by_ids raises {r.value!r}")
                    continue
                if has_filter:
                    if len(own) != 1 or own[0][1] != (ids,) or r.value != ("sym", "what-its-own-filter-returns") or rec or replaced is not None:
                        problems.add("an object with its own filter_by_ids is not simply asked (once, with the ids) and its answer returned")
                elif has_id:
                    want = NODE if listed else None
                    if listed and r.value != NODE:
                        problems.add(f"a case whose id is listed is not returned itself ({r.value!r})")
                    if not listed and not (isinstance(r.value, tuple) and r.value[:2] == ("new", "TestSuite") and r.value[2] in ((), (("tuple",),))):
                        problems.add(f"a case whose id is not listed is replaced by {r.value!r} instead of an empty TestSuite")
                    if rec or replaced is not None:
                        problems.add("a test case is treated like a suite")
                elif suite:
                    if rec != [(X, ids), (Y, ids)]:
                        problems.add(f"the children filtered are {rec}; expected each child once, in order, with the same ids")
                    if replaced != ("tuple", ("filtered", X), ("filtered", Y)):
                        problems.add(f"the suite's tests become {replaced!r}; expected the filtered children, in order (filter_by_ids may return new objects: the results must be kept)")
                    if r.value != NODE:
                        problems.add("the suite itself is not returned")
                else:
                    if r.value != NODE or rec or replaced is not None or own:
                        problems.add(f"an object that is neither case nor suite is not returned unchanged ({r.value!r})")
            ctx.check("R-FILTER-OBLIGATIONS", f"filter_by_ids on {kind}, id {'listed' if listed else 'not listed'}", f, bool(res) and not problems, "; ".join(sorted(problems)) or "no path", examined=len(res),
                      construct=f"{TESTSUITE}:filter_by_ids::{kind} {'listed' if listed else 'not listed'}")


def check_flatten(ctx):
    f = module_function(ctx, TESTSUITE, "_flatten_tests")
    p = [a.arg for a in f.args.args]
    L1, L2 = ("wobj", "leaf1"), ("wobj", "leaf2")
    all_nullkeys = set()
    for kind in ("a test case", "a plain TestSuite", "a custom suite", "a custom suite with sort_tests"):
        for unpack in (FALSE, TRUE):
            for leaves in ((L1, L2), ()):
                suite = KINDS[kind][0]
                if not suite and (unpack == TRUE or not leaves):
                    continue
                stubs = {"_flatten_tests": lambda pos, kw: ("tuple", ("tuple", ("key-of", pos[0]), pos[0])), "iterate_tests": lambda pos, kw, leaves=leaves: ("iter", ("tuple",) + leaves)}
                dom = NodeDomain(ctx.classes, kind, (X, Y) if leaves else (), stubs=stubs)
                res = _run(ctx, dom, f, {p[0]: NODE, p[1]: unpack})
                problems, nullkey = set(), set()
                flat = (suite and KINDS[kind][1]) or (suite and unpack == TRUE)
                for r in res:
                    log = r.state.get("ev.calls", ())
                    sorts = [e for e in log if e[0] == "node.sort_tests"]
                    if r.kind != "val":
                        problems.add(f"_flatten_tests raises {r.value!r}")
                        continue
                    if not suite:
                        if r.value != ("tuple", ("tuple", ("const", "the.case.id"), NODE)):
                            problems.add(f"a test case is flattened to {r.value!r} instead of [(its id, the case)]")
                    elif flat:
                        kids = (X, Y) if leaves else ()
                        if r.value != ("tuple",) + tuple(("tuple", ("key-of", c), c) for c in kids):
                            problems.add(f"the suite is flattened to {r.value!r}; expected the flattened children, in order")
                        if sorts:
                            problems.add("sort_tests is called on a suite that is being unpacked")
                    else:
                        want_key = ("const", "leaf1.id") if leaves else NONE
                        ok_shape = isinstance(r.value, tuple) and r.value[:1] == ("tuple",) and len(r.value) == 2 and isinstance(r.value[1], tuple) and r.value[1][:1] == ("tuple",) and len(r.value[1]) == 3 and r.value[1][2] == NODE
                        if not ok_shape:
                            problems.add(f"a custom suite is flattened to {r.value!r} instead of being kept whole as [(key, suite)]")
                        elif r.value[1][1] == NONE:
                            nullkey.add("an empty custom suite gets the sort key None: sorting it among tests raises TypeError ('<' not supported between str and NoneType) instead of keeping the suite")
                        elif r.value[1][1] != want_key:
                            problems.add(f"the custom suite's key is {r.value[1][1]!r}; expected the id of its first test")
                        if len(sorts) != (1 if KINDS[kind][4] else 0):
                            problems.add(f"sort_tests is called {len(sorts)} times on {kind}")
                        names_ = [e[0] for e in log]
                        if sorts and leaves and any(n_.endswith(".id") for n_ in names_) and names_.index("node.sort_tests") < min(i for i, n_ in enumerate(names_) if n_.endswith(".id")):
                            problems.add("the suite sorts itself before its first test is looked at: it is placed by its smallest id, not by the test it had first")
                label = f"{kind}{', unpack_outer' if unpack == TRUE else ''}{'' if leaves or not suite else ', empty'}"
                ctx.check("R-SORTKEY-NONNULL", f"_flatten_tests on {label}", f, bool(res) and not problems, "; ".join(sorted(problems)) or "no path", examined=len(res),
                          construct=f"{TESTSUITE}:_flatten_tests::{label}")
                if suite and not flat and not leaves:
                    all_nullkeys.update(nullkey)
    ctx.check("R-SORTKEY-NONNULL", "_flatten_tests on an empty custom suite: the sort key is a test id, never None", f, not all_nullkeys, "; ".join(sorted(all_nullkeys)),
              construct=f"{TESTSUITE}:_flatten_tests::empty custom suite gets sort key None")


def _suite_contents(dom, r):
    """The tests of the TestSuite a run returns: those handed to the constructor, then those added with addTest / addTests."""
    v = r.value
    if not (isinstance(v, tuple) and v[:2] == ("new", "TestSuite")):
        return None
    got = []
    if v[2]:
        first = dom._set_elements(v[2][0]) if isinstance(v[2][0], tuple) and v[2][0][:1] == ("set",) else None
        els = list(v[2][0][1:]) if isinstance(v[2][0], tuple) and v[2][0][:1] == ("tuple",) else first
        if els is None or len(v[2]) > 1:
            return None
        got.extend(els)
    for e in r.state.get("ev.calls", ()):
        if e[0] in ("<TestSuite>.addTest", "<TestSuite>.addTests") and e[1][:1] == (v,):
            if e[0].endswith("addTest") and len(e[1]) == 2:
                got.append(e[1][1])
            elif len(e[1]) == 2 and isinstance(e[1][1], tuple) and e[1][1][:1] == ("tuple",):
                got.extend(e[1][1][1:])
            else:
                return None
    return got


def check_sorted(ctx):
    f = module_function(ctx, TESTSUITE, "sorted_tests")
    p = [a.arg for a in f.args.args]
    O1, O2, O3 = ("sym", "obj-b"), ("sym", "obj-a"), ("sym", "obj-c")
    pairs = ("tuple", ("tuple", ("const", "b"), O1), ("tuple", ("const", "a"), O2), ("tuple", ("const", "c"), O3))
    for label, leaf_ids, dup in (("unique ids", ("b", "a", "c"), False), ("a duplicated id", ("b", "a", "b"), True), ("no tests", (), False)):
        leaves = tuple(("wobj", f"leaf{i}") for i in range(len(leaf_ids)))

        def oracle(n, pos, kw, leaf_ids=leaf_ids):
            if n.startswith("leaf") and n.endswith(".id"):
                return [("val", ("const", leaf_ids[int(n[4:].split(".")[0])]))]
            return None

        stubs = {"iterate_tests": lambda pos, kw, leaves=leaves: ("iter", ("tuple",) + leaves), "_flatten_tests": lambda pos, kw, leaf_ids=leaf_ids: pairs if leaf_ids else ("tuple",)}
        for unpack in (FALSE, TRUE):
            dom = NodeDomain(ctx.classes, "a plain TestSuite", (X, Y), stubs=stubs, oracle=oracle, results={"pformat": [("const", "<the duplicates>")]})
            res = _run(ctx, dom, f, {p[0]: NODE, p[1]: unpack})
            problems = set()
            for r in res:
                log = r.state.get("ev.calls", ())
                flat = [e for e in log if e[0] == "_flatten_tests"]
                walked = [e for e in log if e[0] == "iterate_tests"]
                if not walked or any(e[1] != (NODE,) for e in walked):
                    problems.add("the ids are not collected over iterate_tests of the whole argument")
                if dup:
                    if not (r.kind == "exc" and r.value == ("exc", "ValueError")):
                        problems.add(f"with a duplicated id sorted_tests gives {r.kind} {r.value!r} instead of raising ValueError")
                    if flat:
                        problems.add("the suite is flattened (custom suites' sort_tests already ran) before the duplicate ids are rejected")
                    continue
                if r.kind != "val":
                    problems.add(f"with {label} sorted_tests raises {r.value!r}")
                    continue
                if len(flat) != 1 or flat[0][1][:1] != (NODE,) or unpack not in list(flat[0][1][1:]) + [v for _, v in flat[0][2]]:
                    problems.add("_flatten_tests is not called once with the argument and the given unpack_outer")
                want = [O2, O1, O3] if leaf_ids else []
                got = _suite_contents(dom, r)
                if got != want:
                    problems.add(f"sorted_tests returns {r.value!r}" + (f" holding {got!r}" if got is not None else "") + "; expected TestSuite of every flattened test ordered by its key")
            ctx.check("R-DUP-CHECK-FIRST", f"sorted_tests with {label}{', unpack_outer' if unpack == TRUE else ''}", f, bool(res) and not problems, "; ".join(sorted(problems)) or "no path", examined=len(res),
                      construct=f"{TESTSUITE}:sorted_tests::{label}{' unpack' if unpack == TRUE else ''}")


class ProgramDomain(ObjectDomain):
    """TestProgram.__init__: argument parsing is replaced by its effect on the three attributes it decides."""

    enter_returns_self = True

    def __init__(self, classes, listtests, load_list, **kw):
        super().__init__(classes, **kw)
        self.parsed = (("self.listtests", TRUE if listtests else FALSE), ("self.load_list", ("const", "ids.txt") if load_list else NONE), ("self.test", ("sym", "loaded-tests")))

    def call(self, interp, call, st, fr):
        if (dotted(call.func) or "") == "self.parseArgs":
            out = []
            for r in interp.eval_list(list(call.args), st, fr):
                if r.kind == "exc":
                    out.append(r)
                    continue
                s = r.state
                for k, v in self.parsed:
                    s = s.set(k, v)
                log = s.get("ev.calls", ())
                out.append(val(NONE, s.set("ev.calls", log + (("self.parseArgs", tuple(r.value), (), "ok"),))))
            return out
        return super().call(interp, call, st, fr)


def check_program(ctx):
    cls = ctx.classes.get(RUN, "TestProgram")
    init = own_method(ctx, RUN, "TestProgram", "__init__")
    FILTERED = ("sym", "filtered-tests")
    LEAVES = (("wobj", "leaf0"), ("wobj", "leaf1"))
    for listtests in (False, True):
        for load_list in (False, True):
            for runner in (("has list(test, loader)",) if listtests else ("-",)) if False else (("list(test, loader)", "list(test)", "no list") if listtests else ("-",)):
                def oracle(n, pos, kw, runner=runner):
                    if n == "file.readlines":
                        return [("val", ("tuple", ("const", b"pkg.mod.Test.test_a\n"), ("const", b"  pkg.mod.Test.test_b \r\n")))]
                    if n == "runner.list":
                        if runner == "list(test)" and (len(pos) > 1 or kw):
                            return [("exc", ("exc", "TypeError"))]
                        return [("val", NONE)]
                    if n.startswith("leaf") and n.endswith(".id"):
                        return [("val", ("const", n.split(".")[0] + ".id"))]
                    if n.startswith(("file.", "runner.", "out.")):
                        return [("val", NONE)]
                    return None
                lacks = {("runner", "list")} if runner == "no list" else set()
                dom = ProgramDomain(ctx.classes, listtests, load_list, attrs={"self": ("self",), "self.stdout": ("wobj", "out")}, oracle=oracle, lacks=lacks,
                                    results={"open": [("wobj", "file")], "filter_by_ids": [FILTERED], "self.runTests": [NONE], "self._get_runner": [("wobj", "runner")],
                                             "iterate_tests": [("tuple",) + LEAVES]},
                                    track=lambda d: d in ("open", "filter_by_ids", "self.runTests", "iterate_tests"), log_cap=30)
                argv = {"stdout": ("wobj", "out"), "argv": ("tuple", ("const", "prog")), "module": ("const", "some.module"), "testLoader": ("wobj", "loader")}
                res = effects.run(ctx, dom, init, cls, argv, state=State(), depth=4)
                problems = set()
                label = f"--list {'on' if listtests else 'off'}, --load-list {'given' if load_list else 'absent'}" + (f", runner with {runner}" if listtests else "")
                normal = [r for r in res if r.kind == "val"]
                if not normal:
                    problems.add("no path of TestProgram.__init__ returns normally")
                for r in normal:
                    log = r.state.get("ev.calls", ())
                    names = [e[0] for e in log]
                    filt = [e for e in log if e[0] == "filter_by_ids"]
                    acted = [i for i, e in enumerate(log) if e[0] in ("self.runTests", "runner.list", "iterate_tests", "out.write")]
                    final_test = FILTERED if load_list else ("sym", "loaded-tests")
                    if load_list:
                        want_ids = {"pkg.mod.Test.test_a", "pkg.mod.Test.test_b"}
                        got_ids = dom._set_elements(filt[0][1][1]) if len(filt) == 1 and len(filt[0][1]) == 2 else None   # a list, a tuple or a set -- whatever supports `in`
                        ok_ids = got_ids is not None and filt[0][1][:1] == (("sym", "loaded-tests"),) and \
                            {x[1] for x in got_ids if isinstance(x, tuple) and x[:1] == ("const",)} == want_ids and len(got_ids) == len(want_ids)
                        if not ok_ids:
                            problems.add(f"filter_by_ids receives {[e[1] for e in filt]!r}; expected once (the loaded tests, the ids of every line of the list file, stripped and decoded)")
                        if r.state.get("self.test") != FILTERED:
                            problems.add("the filtered suite does not replace self.test (filter_by_ids may return a new object)")
                        if filt and acted and names.index("filter_by_ids") > acted[0]:
                            problems.add("the tests are run or listed before the --load-list filter is applied")
                        opens = [e for e in log if e[0] == "open"]
                        if len(opens) != 1 or opens[0][1][:1] != (("const", "ids.txt"),):
                            problems.add("the list file given with --load-list is not the one opened")
                        if "file.close" not in names and "file.__exit__" not in names:
                            problems.add("the list file is not closed")
                    elif filt:
                        problems.add("the tests are filtered although no --load-list was given")
                    runs = [e for e in log if e[0] == "self.runTests"]
                    if not listtests:
                        if len(runs) != 1 or "runner.list" in names or "out.write" in names:
                            problems.add(f"without --list the tests are run {len(runs)} time(s)" + (" and listed" if "runner.list" in names or "out.write" in names else ""))
                    else:
                        if runs:
                            problems.add("with --list the tests are run as well")
                        lists = [e for e in log if e[0] == "runner.list" and e[3] == "ok"]
                        writes = [e[1] for e in log if e[0] == "out.write"]
                        if runner == "no list":
                            walked = [e for e in log if e[0] == "iterate_tests"]
                            if len(walked) != 1 or walked[0][1] != (final_test,) or writes != [(("const", "leaf0.id\n"),), (("const", "leaf1.id\n"),)]:
                                problems.add(f"the fallback listing writes {writes!r} for iterate_tests{[e[1] for e in walked]!r}; expected one line per test id of the (filtered) suite")
                        else:
                            if len(lists) != 1 or lists[0][1][:1] != (final_test,):
                                problems.add(f"runner.list is called successfully {len(lists)} time(s) with {[e[1] for e in lists]!r}; expected once with the (filtered) suite")
                            elif runner == "list(test, loader)" and ("wobj", "loader") not in list(lists[0][1][1:]) + [v for _, v in lists[0][2]]:
                                problems.add("a runner whose list() takes the loader is not given it")
                            if writes:
                                problems.add("ids are printed by the fallback although the runner lists them")
                ctx.check("R-LIST-LOAD", f"TestProgram.__init__: {label}", init, not problems, "; ".join(sorted(problems)), examined=len(res), construct=f"{RUN}:TestProgram.__init__::{label}")
    # the listing helpers
    lt = module_function(ctx, RUN, "list_test")
    leaf_ids = {"leaf0": "pkg.a", "leaf1": "unittest.loader.ModuleImportFailure.broken_mod", "leaf2": "pkg.b"}

    def oracle(n, pos, kw):
        if n.endswith(".id") and n.split(".")[0] in leaf_ids:
            return [("val", ("const", leaf_ids[n.split(".")[0]]))]
        return None

    dom = ObjectDomain(ctx.classes, oracle=oracle, results={"iterate_tests": [("tuple",) + tuple(("wobj", k) for k in leaf_ids)]}, track=lambda d: d == "iterate_tests", log_cap=30)
    T = ("sym", "the-suite")
    res = effects.run(ctx, dom, lt, None, {lt.args.args[0].arg: T}, state=State(), depth=2)
    want = ("tuple", ("tuple", ("const", "pkg.a"), ("const", "pkg.b")), ("tuple", ("const", "broken_mod")))
    problems = set()
    for r in res:
        walked = [e[1] for e in r.state.get("ev.calls", ()) if e[0] == "iterate_tests"]
        if r.kind != "val" or r.value != want or walked != [(T,)]:
            problems.add(f"list_test gives {r.value!r} for iterate_tests{walked!r}; expected every id in order, import failures separated")
    ctx.check("R-LIST-LOAD", "list_test collects the id of every test of iterate_tests, import failures apart", lt, bool(res) and not problems, "; ".join(sorted(problems)) or "no path", examined=len(res),
              construct=f"{RUN}:list_test::collect")
    rcls = ctx.classes.get(RUN, "TestToolsTestRunner")
    rl = own_method(ctx, RUN, "TestToolsTestRunner", "list")
    problems = set()
    n = 0
    for errors in (("tuple",), ("tuple", ("const", "broken_mod"))):
        dom = ObjectDomain(ctx.classes, attrs={"self": ("self",), "self.stdout": ("wobj", "out"), "loader.errors": errors}, oracle=lambda n_, pos, kw: [("val", NONE)] if n_.startswith("out.") else None,
                                   results={"list_test": [("tuple", ("tuple", ("const", "pkg.a"), ("const", "pkg.b")), ("tuple",))], "sys.exit": []}, raises={"sys.exit": [("exc", "SystemExit")]}, track=lambda d: d in ("list_test", "sys.exit"))
        params = [a.arg for a in rl.args.args[1:]]
        res = effects.run(ctx, dom, rl, rcls, {params[0]: T, params[1]: ("wobj", "loader")} if len(params) > 1 else {params[0]: T}, state=State(), depth=2)
        n += len(res)
        for r in res:
            writes = [e[1] for e in r.state.get("ev.calls", ()) if e[0] == "out.write"]
            want_w = [(("const", "pkg.a\n"),), (("const", "pkg.b\n"),)] + ([(("const", "broken_mod\n"),)] if len(errors) > 1 else [])
            if writes != want_w:
                problems.add(f"the runner's list() writes {writes!r}; expected one line per id" + (" and per import error" if len(errors) > 1 else ""))
            if (len(errors) > 1) != (r.kind == "exc" and r.value == ("exc", "SystemExit")):
                problems.add("list() exits iff the loader recorded import errors -- not so here")
    ctx.check("R-LIST-LOAD", "TestToolsTestRunner.list prints every id list_test returns", rl, n > 0 and not problems, "; ".join(sorted(problems)) or "no path", examined=n, construct=f"{RUN}:TestToolsTestRunner.list::all")


def check_callers(ctx):
    ds = own_method(ctx, RUN, "TestProgram", "_do_discovery")
    cls = ctx.classes.get(RUN, "TestProgram")
    SORTED = ("sym", "sorted-suite")
    dom = ObjectDomain(ctx.classes, attrs={"self": ("self",)}, results={"sorted_tests": [SORTED]}, track=lambda d: d == "sorted_tests")
    res = effects.run(ctx, dom, ds, cls, {}, state=State([("self.test", ("sym", "discovered"))]), depth=2)
    ok = bool(res) and all(r.kind == "val" and r.state.get("self.test") == SORTED and [e[1][:1] for e in r.state.get("ev.calls", ()) if e[0] == "sorted_tests"] == [(("sym", "discovered"),)] for r in res)
    ctx.check("R-RESULT-USED", "discovered tests are replaced by the sorted suite", ds, ok, "self.test is not replaced by sorted_tests(self.test) after discovery", examined=len(res), construct=f"{RUN}:TestProgram._do_discovery::assign")
    fcls = ctx.classes.get(TESTSUITE, "FixtureSuite")
    fs = own_method(ctx, TESTSUITE, "FixtureSuite", "sort_tests")
    dom = ObjectDomain(ctx.classes, attrs={"self": ("self",)}, results={"sorted_tests": [SORTED]}, track=lambda d: d == "sorted_tests")
    res = effects.run(ctx, dom, fs, fcls, {}, state=State(), depth=2)
    problems = set()
    for r in res:
        calls_ = [e for e in r.state.get("ev.calls", ()) if e[0] == "sorted_tests"]
        if r.kind != "val" or r.state.get("self._tests") != SORTED:
            problems.add("the sorted tests do not replace the suite's own tests")
        if len(calls_) != 1 or calls_[0][1][:1] != (("self",),) or TRUE not in list(calls_[0][1][1:]) + [v for _, v in calls_[0][2]]:
            problems.add("sorted_tests is not called as sorted_tests(self, True): without unpack_outer the suite would be kept whole and sort_tests would recurse for ever")
    ctx.check("R-RESULT-USED", "FixtureSuite.sort_tests keeps the sorted tests of its own children", fs, bool(res) and not problems, "; ".join(sorted(problems)) or "no path", examined=len(res),
              construct=f"{TESTSUITE}:FixtureSuite.sort_tests::assign")


def run(ctx):
    ctx.rule("R-DUP-CHECK-FIRST", "duplicate ids are rejected before anything is flattened or sorted")
    ctx.rule("R-SORTKEY-NONNULL", "every sort key produced by _flatten_tests is a test id, never None")
    ctx.rule("R-RESULT-USED", "results of filter_by_ids / sorted_tests are used by their callers")
    ctx.rule("R-FILTER-OBLIGATIONS", "filter_by_ids: documented dispatch; every child filtered once, in order, result kept")
    ctx.rule("R-ITERATE", "iterate_tests yields every leaf once, in suite order")
    ctx.rule("R-LIST-LOAD", "--load-list ids reach filter_by_ids before the run; --list prints the ids of the filtered suite")
    check_iterate(ctx)
    check_filter(ctx)
    check_flatten(ctx)
    check_sorted(ctx)
    # ------------------------------------------------------------------ results used
    n_sites = 0
    for modname, m in ctx.repo.modules.items():
        for c in ast.walk(m.tree):
            if isinstance(c, ast.Call) and dotted(c.func) in ("filter_by_ids", "sorted_tests", "testtools.testsuite.filter_by_ids", "testtools.testsuite.sorted_tests"):
                ctx.repo.module(modname)
                p = getattr(c, "_parent", None)
                used = not isinstance(p, ast.Expr)
                how = type(p).__name__
                if isinstance(p, ast.Call) and isinstance(p.func, ast.Attribute) and p.func.attr == "append":
                    how = "appended"
                n_sites += 1
                ctx.check("R-RESULT-USED", f"{modname.split('.')[-1]}:{getattr(getattr(c, '_func', None), 'name', '<module>')}: {norm(c)[:50]} ({how})", c, used,
                          f"the result of `{norm(c)[:60]}` is discarded: the contract allows filter_by_ids/sorted_tests to return a NEW object, so the caller would keep the unfiltered/unsorted suite",
                          construct=f"{modname}:{getattr(getattr(c, '_func', None), 'name', '<module>')}::{dotted(c.func)}")
    ctx.floor("R-RESULT-USED", 4, "call sites")
    check_callers(ctx)
    check_program(ctx)
    ctx.floor("R-ITERATE", 5)
    ctx.floor("R-FILTER-OBLIGATIONS", 14)
    ctx.floor("R-SORTKEY-NONNULL", 8)
    ctx.floor("R-DUP-CHECK-FIRST", 6)
    ctx.floor("R-LIST-LOAD", 8)
    ctx.assume("test ids are strings (never None); a suite's iteration order is its order")
