"""C09 -- TestResult -> StreamResult -> TestResult conversion preserves every test."""

import ast

from ..absint import NONE, NOTNONE, TOP, DefaultDomain, Interp, Result, State, exc, val
from ..astutil import FUNC_TYPES, attr_chain, dotted, norm, walk_shallow
from ..cfg import live_nodes, node_calls
from ..loader import AnalysisError
from .common import REAL, TESTCASE, cfg_of, has_kw, kw_value, nodes_calling, own_method, str_const
from .streammodel import OUTCOMES, handle_status_table, method_to_status, module_const_set, status_map

EXPLANATION = (
    "R-STATUS-TABLES: the method->status map of ExtendedToStreamDecorator and the status->method map "
    "_status_map compose to the identity except error->failure; every final state other than 'exists' (and "
    "'inprogress') has a _status_map entry; StreamSummary's dispatch covers every key plus 'exists'; every "
    "emitted status is a member of STATES. R-CHUNK-OBLIGATIONS: abstract interpretation of "
    "ExtendedToStreamDecorator._convert with each value yielded by content.iter_bytes() an *obligation*: "
    "every chunk is passed to exactly one status(file_bytes=...) call before it is overwritten (so order is "
    "preserved), never twice; per detail exactly one event has eof=True and it is the last file event of that "
    "detail on every path, including the zero-chunk path (one empty eof chunk); the reason file and exactly "
    "one final status follow all file events. Loops are closed by the fixed point, so the result holds for any "
    "number of details and chunks. R-EVENT-FIELDS: every event carries test_id and timestamp, file events "
    "carry file_name/file_bytes/mime_type (mime = repr(content_type)), the final one test_tags; startTest "
    "emits 'inprogress' after the lazy startTestRun. R-REPLAY-ORDER: PlaceHolder.run replays start time, tags, "
    "startTest, stop time, the stored outcome with details=, stopTest, tag removal; "
    "StreamToExtendedDecorator runs each record's placeholder once against the adapted target. Identical "
    "bytes and MIME render/re-parse are runtime value properties and are not decided."
)


class ChunkDomain(DefaultDomain):
    """Chunks yielded by iter_bytes() are obligations: sent exactly once, in order."""

    def truth(self, v):
        if isinstance(v, tuple) and v and v[0] == "chunk":
            return "TF"  # a chunk may be empty bytes
        return super().truth(v)

    def is_none(self, v):
        if isinstance(v, tuple) and v and v[0] in ("chunk", "tuple", "name", "content", "details", "chunks"):
            return "F"
        return super().is_none(v)

    def iter_kind(self, v):
        return "unknown"

    def element(self, itervalue, st, node):
        if itervalue == ("details",):
            return ("tuple", ("name",), ("content",))
        if itervalue == ("chunks",):
            n = st.get("ev.chunk_n", 0)
            return ("chunk", n, "unsent")
        return TOP

    def iter_step_effect(self, interp, stmt, itervalue, st, fr):
        if itervalue == ("chunks",):
            return st.set("ev.chunk_n", (st.get("ev.chunk_n", 0) + 1) % 3)
        if itervalue == ("details",):
            return self._close_detail(st).set("ev.in_detail", 1)
        return None

    def for_done(self, interp, stmt, itervalue, st, fr):
        if itervalue == ("details",):
            return self._close_detail(st).set("ev.in_detail", 0)
        return st

    @staticmethod
    def _problem(st, msg):
        if st.has("ev.problem"):
            return st
        return st.set("ev.problem", msg)

    def _close_detail(self, st):
        if st.get("ev.in_detail", 0) == 1:
            eof = st.get("ev.eof", 0)
            if eof != 1:
                st = self._problem(st, f"a detail ends with {eof} eof=True events (must be exactly one, also when the content yields no chunk)")
            if st.get("ev.last_was_eof", 0) != 1:
                st = self._problem(st, "the last file event of a detail does not carry eof=True")
            for k, v in st.items:
                if isinstance(v, tuple) and v and v[0] == "chunk" and v[2] == "unsent":
                    st = self._problem(st, "a chunk yielded by iter_bytes() is never forwarded")
        st = st.set("ev.eof", 0).set("ev.last_was_eof", 0)
        # forget chunk values of the finished detail
        return State(frozenset((k, (NONE if isinstance(v, tuple) and v and v[0] == "chunk" else v)) for k, v in st.items), st.log)

    def rebound(self, old, st, fr):
        if isinstance(old, tuple) and old and old[0] == "chunk" and old[2] == "unsent":
            if not any(v == old for _, v in st.items):
                return self._problem(st, "a chunk is overwritten before it was forwarded (lost chunk)")
        return st

    def load_attr(self, chain, st, fr):
        if chain == ["self", "current_tags"]:
            return ("current-tags",)
        if len(chain) == 2 and chain[1] == "content_type" and st.get(fr.local(chain[0]), None) == ("content",):
            return ("ctype",)
        return None

    def call(self, interp, call, st, fr):
        d = dotted(call.func)
        argexprs = list(call.args) + [k.value for k in call.keywords]
        if d == "self._now" and not call.args:
            return [val(("now",), st)]
        if d == "repr" and len(call.args) == 1:
            return [r if r.kind == "exc" else val(("repr", r.value), r.state) for r in interp.eval(call.args[0], st, fr)]
        if isinstance(call.func, ast.Attribute) and call.func.attr == "id" and not call.args and st.get(fr.local(dotted(call.func.value) or "?"), None) == ("the-test",):
            return [val(("test-id",), st)]
        if d and d.endswith(".items") and not call.args:
            out = []
            for r in interp.eval(call.func.value, st, fr):
                out.append(r if r.kind == "exc" else val(("details",), r.state))
            return out
        if d and d.endswith(".iter_bytes"):
            return [val(("chunks",), st)]
        if d == "_b" or (d == "bytes" and not call.args):
            n = st.get("ev.chunk_n", 0)
            return [val(("chunk", "e%d" % n, "unsent"), st.set("ev.chunk_n", (n + 1) % 3))]
        if d == "self.status":
            out = []
            for r in interp.eval_list([k.value for k in call.keywords], st, fr):
                if r.kind == "exc":
                    out.append(r)
                    continue
                kws = {k.arg: v for k, v in zip(call.keywords, r.value)}
                s = r.state
                is_file = "file_name" in kws
                is_final = "test_status" in kws
                if call.args:
                    s = self._problem(s, "an event is sent with positional arguments")
                if kws.get("test_id") != ("test-id",):
                    s = self._problem(s, "an event does not carry test.id() as test_id")
                if kws.get("timestamp") != ("now",):
                    s = self._problem(s, "an event does not carry the timestamp taken from self._now() for this outcome")
                if is_file and s.get("ev.in_detail", 0) == 1:
                    if kws.get("file_name") != ("name",):
                        s = self._problem(s, "a file event of a detail does not carry the detail's own name")
                    if kws.get("mime_type") != ("repr", ("ctype",)):
                        s = self._problem(s, "the content type of a detail (repr(content.content_type)) is not sent with its chunks")
                if is_final:
                    if kws.get("test_status") != ("param-status",):
                        s = self._problem(s, "the final event does not carry the outcome's status")
                    if kws.get("test_tags") != ("current-tags",):
                        s = self._problem(s, "the final event does not carry the current tags")
                if is_file:
                    fb = kws.get("file_bytes", NONE)
                    if s.get("ev.final", 0) > 0:
                        s = self._problem(s, "a file event is emitted after the final status event")
                    if isinstance(fb, tuple) and fb and fb[0] == "chunk":
                        if fb[2] == "sent":
                            s = self._problem(s, "a chunk is forwarded twice")
                        else:
                            sent = ("chunk", fb[1], "sent")
                            s = State(frozenset((k, (sent if v == fb else v)) for k, v in s.items), s.log)
                    elif fb == NONE and s.get("ev.in_detail", 0) == 1:
                        s = self._problem(s, "a file event of a detail is emitted with file_bytes=None")
                    if s.get("ev.in_detail", 0) == 1:
                        if s.get("ev.eof", 0) >= 1:
                            s = self._problem(s, "a file event follows the eof event of the same detail")
                        eof = kws.get("eof", "False")
                        if eof == "True":
                            s = s.set("ev.eof", min(s.get("ev.eof", 0) + 1, 2)).set("ev.last_was_eof", 1)
                        elif eof == "False":
                            s = s.set("ev.last_was_eof", 0)
                        else:
                            s = self._problem(s, "eof is not a constant on a detail's file event")
                    s = s.note(("file-event", call.lineno))
                if is_final:
                    s = s.set("ev.final", min(s.get("ev.final", 0) + 1, 2)).note(("final-status", call.lineno))
                    if s.get("ev.in_detail", 0) == 1:
                        s = self._problem(s, "the final status is emitted while a detail is still being sent")
                out.append(val(NONE, s))
                out.append(exc(("target raised",), s))
            return out
        hit = interp.auto_inline(call, st, fr, getattr(self, "classes", None))
        if hit is not None:
            return hit
        out = []
        for r in interp.eval_list([a.value if isinstance(a, ast.Starred) else a for a in argexprs], st, fr):
            out.append(r if r.kind == "exc" else val(TOP, r.state))
        return out

    def store_subscript(self, target, value, st, fr, interp):
        return st


def run(ctx):
    ctx.rule("R-STATUS-TABLES", "method->status and status->method tables compose to the documented map; dispatch tables are exhaustive")
    ctx.rule("R-CHUNK-OBLIGATIONS", "every chunk forwarded exactly once in order; exactly one trailing eof per detail; reason and one final status last")
    ctx.rule("R-EVENT-FIELDS", "every event carries the fields the consumer needs")
    ctx.rule("R-REPLAY-ORDER", "PlaceHolder.run / StreamToExtendedDecorator replay each record once in protocol order")
    classes = ctx.classes
    m = ctx.repo.module(REAL)

    # ------------------------------------------------------------------ status tables
    m2s = method_to_status(ctx)
    s2m, smap_node = status_map(ctx)
    hs, hs_node = handle_status_table(ctx)
    states = module_const_set(m, "STATES")
    finals = module_const_set(m, "FINAL_STATES")
    interim = module_const_set(m, "INTERIM_STATES")
    if states is None or finals is None or interim is None:
        raise AnalysisError("anchor vanished: STATES / FINAL_STATES / INTERIM_STATES are no longer simple frozensets")
    documented = {"addError": "addFailure", "addFailure": "addFailure", "addSuccess": "addSuccess", "addSkip": "addSkip",
                  "addExpectedFailure": "addExpectedFailure", "addUnexpectedSuccess": "addUnexpectedSuccess"}
    for meth in OUTCOMES:
        status, call, f = m2s[meth]
        back = s2m.get(status)
        ctx.check("R-STATUS-TABLES", f"{meth} -> {status!r} -> {back}", call, back == documented[meth],
                  f"{meth} travels as {status!r} and is replayed as {back} (documented: {documented[meth]})",
                  construct=f"{REAL}:ExtendedToStreamDecorator.{meth}::round-trip")
        ctx.check("R-STATUS-TABLES", f"{meth} emits a member of STATES", call, status in states, f"{status!r} is not in STATES", construct=f"{REAL}:ExtendedToStreamDecorator.{meth}::in-states")
    need = (finals | {"inprogress"}) - {"exists"}
    ctx.check("R-STATUS-TABLES", "_status_map covers every final state but 'exists', plus 'inprogress'", smap_node, set(s2m) == set(need),
              f"_status_map keys {sorted(set(s2m))}; needed {sorted(need)}", construct=f"{REAL}:_status_map::keys")
    ctx.check("R-STATUS-TABLES", "_status_map values are outcome methods", smap_node, set(s2m.values()) <= set(OUTCOMES), f"{sorted(set(s2m.values()) - set(OUTCOMES))}",
              construct=f"{REAL}:_status_map::values")
    failing_statuses = {"fail", "unknown", "inprogress", "uxsuccess"}
    bad = {s: mm for s, mm in s2m.items() if (s in failing_statuses) != (mm in ("addFailure", "addError", "addUnexpectedSuccess"))}
    ctx.check("R-STATUS-TABLES", "failing / incomplete statuses replay as failing outcomes and only those", smap_node, not bad,
              f"{bad}: a failing or incomplete test would be replayed as passing (or vice versa)", construct=f"{REAL}:_status_map::failing")
    ctx.check("R-STATUS-TABLES", "StreamSummary dispatch covers every _status_map key plus 'exists'", hs_node, set(hs) == set(s2m) | {"exists"},
              f"_handle_status keys {sorted(hs)}", construct=f"{REAL}:StreamSummary._handle_status::keys")
    ss = classes.get(REAL, "StreamSummary")
    ctx.check("R-STATUS-TABLES", "every dispatch entry is a method of StreamSummary", hs_node, all(ss.own_method(v) is not None for v in hs.values()),
              f"{[v for v in hs.values() if ss.own_method(v) is None]}", construct=f"{REAL}:StreamSummary._handle_status::methods")
    st_f = own_method(ctx, REAL, "ExtendedToStreamDecorator", "startTest")
    lit = [str_const(kw_value(c, "test_status")) for c in walk_shallow(st_f, include_self=False) if isinstance(c, ast.Call) and dotted(c.func) == "self.status"]
    ctx.check("R-STATUS-TABLES", "startTest emits 'inprogress' (an interim state)", st_f, lit == ["inprogress"] and "inprogress" in interim, f"startTest emits {lit}",
              construct=f"{REAL}:ExtendedToStreamDecorator.startTest::inprogress")
    alias_ok = classes.get(REAL, "ExtendedToStreamDecorator").aliases.get("addFailure") is not None or "addFailure" in classes.get(REAL, "ExtendedToStreamDecorator").methods
    ctx.floor("R-STATUS-TABLES", 15)

    # ------------------------------------------------------------------ chunk obligations
    conv = own_method(ctx, REAL, "ExtendedToStreamDecorator", "_convert")
    dom = ChunkDomain()
    dom.classes = classes
    it = Interp(dom, max_depth=5)
    st0 = State([("ev.eof", 0), ("ev.final", 0), ("ev.in_detail", 0), ("ev.chunk_n", 0), ("ev.last_was_eof", 0)])
    cparams = [a.arg for a in conv.args.args][1:]
    cargs = {}
    if "test" in cparams:
        cargs["test"] = ("the-test",)
    if "status" in cparams:
        cargs["status"] = ("param-status",)
    res = it.analyze(conv, cargs, st0, receiver=classes.get(REAL, "ExtendedToStreamDecorator"), name="_convert")
    ctx.stats["states"] += it.steps
    ctx.analysed(conv)
    normal = [r for r in res if r.kind == "val"]
    problems = {}
    for r in normal:
        p = r.state.get("ev.problem", None)
        if p:
            problems.setdefault(p, r)
        fin = r.state.get("ev.final", 0)
        if fin != 1 and not p:
            problems.setdefault(f"{fin} final status events are emitted (must be exactly one)", r)
    ctx.check("R-CHUNK-OBLIGATIONS", f"_convert: {len(normal)} abstract exit states, all obligations discharged", conv, not problems and len(normal) >= 1,
              "; ".join(problems) if problems else "no abstract exit state", examined=len(res),
              path=[f"{e[0]} (line {e[1]})" for r in list(problems.values())[:1] for e in r.state.log], construct=f"{REAL}:ExtendedToStreamDecorator._convert::obligations")
    for p, r in problems.items():
        ctx.check("R-CHUNK-OBLIGATIONS", f"_convert: {p[:70]}", conv, False, f"ExtendedToStreamDecorator._convert: {p}",
                  path=[f"{e[0]} (line {e[1]})" for e in r.state.log], construct=f"{REAL}:ExtendedToStreamDecorator._convert::{p[:60]}")
    # structure: the eof call is outside the chunk loop, the look-ahead send inside it
    g = cfg_of(ctx, conv)
    lv = live_nodes(g)
    sends = [c for c in walk_shallow(conv, include_self=False) if isinstance(c, ast.Call) and dotted(c.func) == "self.status"]
    file_sends = [c for c in sends if has_kw(c, "file_name")]
    final_sends = [c for c in sends if has_kw(c, "test_status")]
    ctx.check("R-CHUNK-OBLIGATIONS", "one final status call, after every file event", conv,
              len(final_sends) == 1 and all(c.lineno < final_sends[0].lineno for c in file_sends) and not any(
                  isinstance(p, (ast.For, ast.While, ast.If)) for p in _ancestors(final_sends[0], conv)),
              "the final status event is conditional, repeated or precedes a file event", construct=f"{REAL}:ExtendedToStreamDecorator._convert::final-last")
    reason_sends = [c for c in file_sends if str_const(kw_value(c, "file_name")) == "reason"]
    ok = len(reason_sends) == 1 and str_const(kw_value(reason_sends[0], "mime_type")) is not None and "text/plain" in str_const(kw_value(reason_sends[0], "mime_type")) \
        and isinstance(kw_value(reason_sends[0], "eof"), ast.Constant) and kw_value(reason_sends[0], "eof").value is True and "encode" in norm(kw_value(reason_sends[0], "file_bytes"))
    ctx.check("R-CHUNK-OBLIGATIONS", "skip reason travels as a complete text/plain 'reason' file", conv, ok,
              "the reason is not sent as one eof=True text/plain file named 'reason'", construct=f"{REAL}:ExtendedToStreamDecorator._convert::reason")
    sk = own_method(ctx, REAL, "ExtendedToStreamDecorator", "addSkip")
    c = [c for c in walk_shallow(sk, include_self=False) if isinstance(c, ast.Call) and dotted(c.func) == "self._convert"]
    ok = len(c) == 1 and len(c[0].args) == 5 and dotted(c[0].args[4]) == "reason" and dotted(c[0].args[2]) == "details"
    ctx.check("R-CHUNK-OBLIGATIONS", "addSkip hands reason and details to _convert", sk, ok, "addSkip drops the reason or the details", construct=f"{REAL}:ExtendedToStreamDecorator.addSkip::args")
    for meth in OUTCOMES:
        status, call, f = m2s[meth]
        params = [a.arg for a in f.args.args[1:]]
        a2 = dotted(call.args[2]) if len(call.args) > 2 else None
        a1 = dotted(call.args[1]) if len(call.args) > 1 else None
        ok = dotted(call.args[0]) == "test" and a2 == "details" and (a1 == "err" if "err" in params else isinstance(call.args[1], ast.Constant))
        ctx.check("R-CHUNK-OBLIGATIONS", f"{meth} hands test, err and details to _convert", call, ok, f"{norm(call)[:70]} drops an argument", construct=f"{REAL}:ExtendedToStreamDecorator.{meth}::args")

    # ------------------------------------------------------------------ event fields
    # (ids, timestamps, names, mime types and the final event's status/tags are compared as values on the
    #  abstract run above: a missing or wrong field is one of the obligations' problems)
    field_problems = [p_ for p_ in problems if "event" in p_ and ("carry" in p_ or "positional" in p_ or "content type" in p_)]
    ctx.check("R-EVENT-FIELDS", "every event carries test.id(), one timestamp; file events the detail's name and repr(content_type); the final event status and current tags",
              conv, not field_problems and len(normal) >= 1, "; ".join(field_problems), construct=f"{REAL}:ExtendedToStreamDecorator._convert::field-values")
    tb = [n for n in walk_shallow(conv, include_self=False) if isinstance(n, ast.Assign) and isinstance(n.targets[0], ast.Subscript) and str_const(n.targets[0].slice) == "traceback"]
    ok = len(tb) == 1 and "TracebackContent(err, test)" in norm(tb[0].value) and any(isinstance(p, ast.If) and norm(p.test) == "err is not None" for p in _ancestors(tb[0], conv))
    ctx.check("R-EVENT-FIELDS", "an exc_info outcome is sent as a 'traceback' detail", conv, ok, "err is not converted into a traceback detail", construct=f"{REAL}:ExtendedToStreamDecorator._convert::traceback")
    g2 = cfg_of(ctx, st_f)
    lv2 = live_nodes(g2)
    lazy = [n.id for n in g2.nodes if n.id in lv2 and n.kind == "test" and norm(n.ast.test) == "not self._started"]
    emit = nodes_calling(g2, lambda c: dotted(c.func) == "self.status", lv2)
    ok = bool(lazy) and len(emit) == 1 and g2.dominated_by(emit[0], set(lazy)) and any(dotted(c.func) == "self.startTestRun" for s in g2.nodes[lazy[0]].ast.body for c in walk_shallow(s) if isinstance(c, ast.Call))
    ctx.check("R-EVENT-FIELDS", "startTest starts the run lazily before emitting 'inprogress'", st_f, ok, "inprogress can be emitted before startTestRun", construct=f"{REAL}:ExtendedToStreamDecorator.startTest::lazy-start")
    c = [c for c in walk_shallow(st_f, include_self=False) if isinstance(c, ast.Call) and dotted(c.func) == "self.status"]
    ok = len(c) == 1 and norm(kw_value(c[0], "test_id")) == "test.id()" and norm(kw_value(c[0], "timestamp")) == "self._now()"
    ctx.check("R-EVENT-FIELDS", "inprogress event carries test id and timestamp", st_f, ok, "inprogress event lacks id/timestamp", construct=f"{REAL}:ExtendedToStreamDecorator.startTest::fields")
    tm = own_method(ctx, REAL, "ExtendedToStreamDecorator", "time")
    nowf = own_method(ctx, REAL, "ExtendedToStreamDecorator", "_now")
    ok = any(isinstance(n, ast.Assign) and norm(n.targets[0]).endswith("__now") and dotted(n.value) == tm.args.args[1].arg for n in ast.walk(tm)) and any(
        isinstance(r, ast.Return) and norm(r.value).endswith("__now") for r in ast.walk(nowf))
    ctx.check("R-EVENT-FIELDS", "supplied time() values are used as event timestamps", tm, ok, "time() no longer feeds _now()", construct=f"{REAL}:ExtendedToStreamDecorator.time::feeds-now")
    ctx.floor("R-EVENT-FIELDS", 8)

    # ------------------------------------------------------------------ replay
    ph = own_method(ctx, TESTCASE, "PlaceHolder", "run")
    g = cfg_of(ctx, ph)
    lv = live_nodes(g)
    seq = []
    for n in sorted((n for n in g.nodes if n.id in lv and n.kind in ("stmt", "test")), key=lambda n: n.line):
        for c in sorted(node_calls(n), key=lambda c: (c.lineno, c.col_offset)):
            d = dotted(c.func)
            if d and d.startswith("result.") or d == "outcome" or d == "getattr":
                seq.append(d.split(".")[-1] if d != "getattr" else "getattr:" + norm(c.args[1]))
    want = ["time", "tags", "startTest", "time", "getattr:self._outcome", "outcome", "stopTest", "tags"]
    ctx.check("R-REPLAY-ORDER", "PlaceHolder.run: time, tags, startTest, time, outcome, stopTest, tags", ph, seq == want, f"PlaceHolder.run makes the calls {seq}",
              construct=f"{TESTCASE}:PlaceHolder.run::sequence")
    oc = [c for c in walk_shallow(ph, include_self=False) if isinstance(c, ast.Call) and dotted(c.func) == "outcome"]
    ok = len(oc) == 1 and dotted(oc[0].args[0]) == "self" and dotted(kw_value(oc[0], "details")) == "self._details"
    ctx.check("R-REPLAY-ORDER", "the stored outcome is reported with the stored details", ph, ok, "outcome(self, details=self._details) changed", construct=f"{TESTCASE}:PlaceHolder.run::outcome")
    times = [c for c in walk_shallow(ph, include_self=False) if isinstance(c, ast.Call) and dotted(c.func) == "result.time"]
    ok = len(times) == 2 and norm(times[0].args[0]) == "self._timestamps[0]" and norm(times[1].args[0]) == "self._timestamps[1]" and all(
        isinstance(t._parent._parent, ast.If) and "is not None" in norm(t._parent._parent.test) for t in times)
    ctx.check("R-REPLAY-ORDER", "start/stop timestamps are replayed when known", ph, ok, "timestamps are not replayed as time(first) ... time(last)", construct=f"{TESTCASE}:PlaceHolder.run::times")
    ht = own_method(ctx, REAL, "StreamToExtendedDecorator", "_handle_tests")
    calls = [norm(c) for c in walk_shallow(ht, include_self=False) if isinstance(c, ast.Call)]
    ok = calls == ["test_record.to_test_case()", "case.run(self.decorated)"] and not any(isinstance(x, (ast.If, ast.For, ast.While, ast.Try)) for x in walk_shallow(ht, include_self=False))
    ctx.check("R-REPLAY-ORDER", "each record's placeholder is run exactly once against the adapted target", ht, ok, f"_handle_tests does {calls}", construct=f"{REAL}:StreamToExtendedDecorator._handle_tests::once")
    init = own_method(ctx, REAL, "StreamToExtendedDecorator", "__init__")
    ok = any(isinstance(n, ast.Assign) and dotted(n.targets[0]) == "self.decorated" and norm(n.value) == "ExtendedToOriginalDecorator(decorated)" for n in ast.walk(init)) and any(
        isinstance(n, ast.Assign) and dotted(n.targets[0]) == "self.hook" and norm(n.value) == "_StreamToTestRecord(self._handle_tests)" for n in ast.walk(init))
    ctx.check("R-REPLAY-ORDER", "target adapted with ExtendedToOriginalDecorator; records come from _StreamToTestRecord", init, ok, "StreamToExtendedDecorator wiring changed", construct=f"{REAL}:StreamToExtendedDecorator.__init__::wiring")
    ttc = own_method(ctx, REAL, "_TestRecord", "to_test_case")
    ph_calls = [c for c in ast.walk(ttc) if isinstance(c, ast.Call) and dotted(c.func) == "PlaceHolder"]
    ok = False
    if len(ph_calls) == 1:
        c = ph_calls[0]
        kws = {k.arg: norm(k.value) for k in c.keywords}
        ok = norm(c.args[0]) == "self.id" and kws == {"outcome": "outcome", "details": "self.details", "tags": "self.tags", "timestamps": "self.timestamps"} and any(
            isinstance(n, ast.Assign) and dotted(n.targets[0]) == "outcome" and norm(n.value) == "_status_map[self.status]" for n in ast.walk(ttc))
    ctx.check("R-REPLAY-ORDER", "record -> PlaceHolder keeps id, mapped outcome, details, tags, timestamps", ttc, ok, "to_test_case drops or renames a field", construct=f"{REAL}:_TestRecord.to_test_case::fields")
    # ------------------------------------------------------------------ mime parameters pass through the re-parse
    from .common import module_function
    mct = module_function(ctx, REAL, "_make_content_type")
    ctx.analysed(mct)
    pvar = None
    for n in walk_shallow(mct, include_self=False):
        if isinstance(n, ast.Assign) and isinstance(n.targets[0], ast.Tuple) and "params" in norm(n.value):
            pvar = dotted(n.targets[0].elts[-1])
        if isinstance(n, ast.Assign) and isinstance(n.targets[0], ast.Name) and ".params" in norm(n.value):
            pvar = n.targets[0].id
    rets = [r for r in walk_shallow(mct, include_self=False) if isinstance(r, ast.Return)]
    ok = pvar is not None and len(rets) == 1 and isinstance(rets[0].value, ast.Call) and dotted(rets[0].value.func) == "ContentType" and len(rets[0].value.args) == 3 and dotted(rets[0].value.args[2]) == pvar
    ctx.check("R-EVENT-FIELDS", "_make_content_type rebuilds the ContentType with all parsed parameters", mct, ok,
              "the parameters parsed from the mime string are not all handed to ContentType", construct=f"{REAL}:_make_content_type::params-kept")
    rewrites = []
    for n in walk_shallow(mct, include_self=False):
        if isinstance(n, (ast.Assign, ast.AugAssign, ast.Delete)):
            for t in (n.targets if not isinstance(n, ast.AugAssign) else [n.target]):
                if isinstance(t, ast.Subscript) and dotted(t.value) == pvar:
                    rewrites.append((n, str_const(t.slice)))
        if isinstance(n, ast.Call) and isinstance(n.func, ast.Attribute) and dotted(n.func.value) == pvar and n.func.attr in ("pop", "clear", "update", "popitem", "setdefault"):
            rewrites.append((n, f".{n.func.attr}()"))
    bad = [k for _, k in rewrites if k != "charset"]
    ctx.check("R-EVENT-FIELDS", "the only parameter _make_content_type rewrites is the legacy 'charset' workaround", mct, not bad,
              f"_make_content_type rewrites parameter(s) {bad}: a content type parameter would not survive the conversion unchanged", construct=f"{REAL}:_make_content_type::only-charset")
    ctx.assume("sinks do not reorder events; the email parser's handling of the rendered MIME string is a value property and is not decided")


def _ancestors(node, stop):
    out = []
    n = getattr(node, "_parent", None)
    while n is not None and n is not stop:
        out.append(n)
        n = getattr(n, "_parent", None)
    return out
