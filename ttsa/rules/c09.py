"""C09 -- TestResult -> StreamResult -> TestResult conversion preserves every test."""

import ast

from ..absint import NONE, TRUE, State, val
from ..loader import AnalysisError
from .common import REAL
from . import streamobjects as so

EXPLANATION = (
    'ExtendedToStreamDecorator and StreamToExtendedDecorator are constructed through their real constructors and driven '
    'through histories of TestResult calls / stream events (ttsa.rules.streamobjects; everything they create -- records, '
    'contents, PlaceHolders, tag contexts -- is interpreted by ttsa.objects; symbolic are only the target stream, the '
    'decorated result, the test, the clock and details whose iter_bytes() hands out given chunks). R-CHUNK-OBLIGATIONS: for '
    "details of 0 / 1 / several chunks the events a test produces are one 'inprogress', then per detail its chunks once and "
    'in order with eof exactly on the last (an empty detail still gets its one eof event), then one final status event '
    'last. R-EVENT-FIELDS: every event carries the test id, the supplied (else the current) time, file name / bytes / MIME '
    'type, the final one the status and the tags current in the test. R-STATUS-TABLES: each of the six outcomes travels as '
    "its documented status (error and failure both as 'fail') and is replayed as the documented outcome; tests left "
    "'inprogress' / 'unknown' are replayed as failures when the run stops; 'exists' announcements are not tests. "
    'R-REPLAY-ORDER: the round trip of every outcome through both decorators gives one startTest / outcome / stopTest '
    'bracket with the same id, the supplied times, the tags, the skip reason and every non-empty detail with its bytes and '
    'content type.'
)


TEST_ID = ("const", "pkg.mod.Test.test_it")
TEST = ("wobj", "test")
C1, C2, C3 = ("const", b"first "), ("const", b"second"), ("const", b"other")
T_START, T_END = ("sym", "time-of-start"), ("sym", "time-of-outcome")
RUN_TAG, TEST_TAG = ("const", "run-tag"), ("const", "test-tag")
OUTCOMES = ["addSuccess", "addFailure", "addError", "addSkip", "addExpectedFailure", "addUnexpectedSuccess"]
TRAVELS_AS = {"addSuccess": "success", "addFailure": "fail", "addError": "fail", "addSkip": "skip", "addExpectedFailure": "xfail", "addUnexpectedSuccess": "uxsuccess"}
REPLAYED_AS = {"addSuccess": "addSuccess", "addFailure": "addFailure", "addError": "addFailure", "addSkip": "addSkip", "addExpectedFailure": "addExpectedFailure",
               "addUnexpectedSuccess": "addUnexpectedSuccess"}


def tagset(*els):
    return ("set", ("copy", ("tuple",) + els))


class ConversionDomain(so.StreamDomain):
    """The decorators run as written; the test, the byte sources of its details and the far end (a stream or a result)
    are symbolic."""

    def __init__(self, classes, accepting):
        def oracle(n, pos, kw):
            if n == "test.id":
                return [("val", TEST_ID)]
            if n.startswith("test."):
                return [("val", NONE)]
            return None
        super().__init__(classes, accepting=accepting, oracle=oracle, lacks={("stream", "current_tags"), ("result", "current_tags")}, log_cap=80,
                         results={"datetime.datetime.now": [("sym", "the-clock")]}, track=lambda d: d == "datetime.datetime.now")

    def apply(self, interp, fn, pos, kw, st, fr):
        if isinstance(fn, tuple) and fn[:2] == ("userfn", "chunks"):
            return [val(("tuple",) + tuple(fn[2]), st)]   # the byte source of a detail: hands out its chunks
        return super().apply(interp, fn, pos, kw, st, fr)


PLAIN = (("charset", ("const", "utf8")),)
ODD = (("charset", ("const", "utf8")), ("note", ("const", "a,b")))   # a parameter value with a comma in it


def _content(d, st, chunks, params=PLAIN):
    """A real Content (text/plain with parameters) whose byte source yields ``chunks`` -> (value, state)."""
    classes = d.ctx.classes
    ct = d.dom.instantiate(d.it, classes.get("testtools.content_type", "ContentType"), [("const", "text"), ("const", "plain"), ("kwdict", tuple(params))], [], st, d.fr)
    if len(ct) != 1 or ct[0].kind != "val":
        raise AnalysisError("anchor vanished: ContentType(primary, sub, parameters) cannot be constructed")
    c = d.dom.instantiate(d.it, classes.get("testtools.content", "Content"), [ct[0].value, ("userfn", "chunks", tuple(chunks))], [], ct[0].state, d.fr)
    if len(c) != 1 or c[0].kind != "val":
        raise AnalysisError("anchor vanished: Content(content_type, get_bytes) cannot be constructed")
    return c[0].value, c[0].state


def _drive(ctx, far_end, outcome, details_spec, reason=None, with_times=True):
    """Feed one bracketed test into ExtendedToStreamDecorator -> runs.  far_end: "stream" (a symbolic StreamResult) or
    "result" (the stream is consumed by a real StreamToExtendedDecorator over a symbolic TestResult)."""
    classes = ctx.classes
    etsd = classes.get(REAL, "ExtendedToStreamDecorator")
    dom = ConversionDomain(classes, accepting=("stream", "result"))
    d = so.Driver(ctx, etsd, dom, depth=30)
    st = State()
    if far_end == "stream":
        target = ("wobj", "stream")
    else:
        made = dom.instantiate(d.it, classes.get(REAL, "StreamToExtendedDecorator"), [("wobj", "result")], [], st, d.fr)
        if len(made) != 1 or made[0].kind != "val":
            raise AnalysisError("anchor vanished: StreamToExtendedDecorator(result) cannot be constructed")
        target, st = made[0].value, made[0].state
    details = NONE
    if details_spec is not None:
        items = []
        for name, chunks in details_spec:
            cv, st = _content(d, st, chunks, ODD if name == "last" else PLAIN)
            items.append((name, cv))
        details = ("kwdict", tuple(items))
    runs = d.construct([target], state=st)
    runs = d.call(runs, "startTestRun")
    runs = d.call(runs, "tags", [tagset(RUN_TAG), tagset()])
    if with_times:
        runs = d.call(runs, "time", [T_START])
    runs = d.call(runs, "startTest", [TEST])
    runs = d.call(runs, "tags", [tagset(TEST_TAG), tagset()])
    if with_times:
        runs = d.call(runs, "time", [T_END])
    kw = [("details", details)] if outcome != "addSkip" else [("reason", reason if reason is not None else NONE), ("details", details)]
    runs = d.call(runs, outcome, [TEST], kw)
    runs = d.call(runs, "stopTest", [TEST])
    runs = d.call(runs, "stopTestRun")
    d.done()
    return d, runs


def _events(r):
    return [dict(kw, **{"<positional>": pos} if pos else {}) for n, pos, kw, tag in so.logged(r, "stream.") if n == "status"]


def _tags_of(d, v):
    els = d.dom._set_elements(v) if isinstance(v, tuple) and v[:1] == ("set",) else None
    return None if els is None else sorted(x[1] for x in els if isinstance(x, tuple) and x[:1] == ("const",))


def check_stream_side(ctx):
    """What a StreamResult behind ExtendedToStreamDecorator receives for one test."""
    etsd = ctx.classes.get(REAL, "ExtendedToStreamDecorator")
    Q = f"{REAL}:ExtendedToStreamDecorator"
    MIME = ("const", 'text/plain; charset="utf8"')
    # ("framed": a detail whose first chunk is the very object its last chunk is -- a separator written before and after the body)
    spec = [("first", (C1, C2)), ("empty", ()), ("framed", (C1, C2, C1)), ("last", (C3,))]
    for outcome in OUTCOMES:
        d, runs = _drive(ctx, "stream", outcome, spec if outcome != "addSkip" else None, reason=("const", "not today"))
        chunks, fields, tables = set(), set(), set()
        for r in runs:
            if r.kind == "exc":
                tables.add(f"{outcome} raises {r.value!r}")
                continue
            evs = _events(r)
            if any("<positional>" in e for e in evs):
                fields.add("an event passes fields positionally")
            for e in evs:
                if e.get("test_id") != TEST_ID:
                    fields.add(f"an event carries test_id={e.get('test_id', 'nothing')!r} instead of test.id()")
            ip = [e for e in evs if e.get("test_status") == ("const", "inprogress")]
            finals = [e for e in evs if e.get("test_status") not in (None, NONE, ("const", "inprogress"))]
            files = [e for e in evs if e.get("file_name") not in (None, NONE)]
            if len(ip) != 1 or evs[:1] != ip:
                tables.add(f"the stream does not begin with exactly one 'inprogress' event for the test ({len(ip)} sent)")
            elif ip[0].get("timestamp") != T_START:
                fields.add(f"the 'inprogress' event carries timestamp={ip[0].get('timestamp', 'nothing')!r}; expected the time supplied before startTest")
            if len(finals) != 1 or evs[-1:] != finals:
                chunks.add(f"{len(finals)} final status events are sent and the last event of the test is {'not ' if evs[-1:] != finals else ''}the final one: expected exactly one, after every file event")
            else:
                fin = finals[0]
                if fin.get("test_status") != ("const", TRAVELS_AS[outcome]):
                    tables.add(f"{outcome} travels as {fin.get('test_status')!r}; documented: {TRAVELS_AS[outcome]!r}")
                if _tags_of(d, fin.get("test_tags")) != ["run-tag", "test-tag"]:
                    fields.add(f"the final event carries test_tags={fin.get('test_tags', 'nothing')!r}; expected the tags current at the outcome (run-tag, test-tag)")
                if fin.get("timestamp") != T_END:
                    fields.add(f"the final event carries timestamp={fin.get('timestamp', 'nothing')!r}; expected the time supplied before the outcome")
            want_files = [("first", C1, False), ("first", C2, True), ("empty", ("const", b""), True), ("framed", C1, False), ("framed", C2, False), ("framed", C1, True),
                          ("last", C3, True)] if outcome != "addSkip" else [("reason", ("const", b"not today"), True)]
            got_files = [(e.get("file_name")[1] if isinstance(e.get("file_name"), tuple) else e.get("file_name"), e.get("file_bytes"), e.get("eof") == TRUE) for e in files]
            if got_files != want_files:
                chunks.add(f"the file events are {got_files}; expected {want_files} (every chunk once, in order; eof exactly on the last chunk of each detail; an empty detail as one empty eof chunk)")
            for e in files:
                if e.get("timestamp") != T_END:
                    fields.add("a file event does not carry the time of the outcome")
                want_mime = (MIME if e.get("file_name") != ("const", "last") else ("const", 'text/plain; charset="utf8"; note="a,b"')) if outcome != "addSkip" else None
                if want_mime is not None and e.get("mime_type") != want_mime:
                    fields.add(f"a file event carries mime_type={e.get('mime_type', 'nothing')!r}; expected the detail's own content type {want_mime[1]!r}")
                if want_mime is None and not (isinstance(e.get("mime_type"), tuple) and e["mime_type"][:1] == ("const",) and str(e["mime_type"][1]).startswith("text/plain")):
                    fields.add(f"the skip reason travels with mime_type={e.get('mime_type', 'nothing')!r}; expected text/plain")
        where = f"{outcome} with three details" if outcome != "addSkip" else "addSkip with a reason"
        ctx.check("R-CHUNK-OBLIGATIONS", f"{where}: every chunk once and in order, eof on each detail's last chunk, one final status last", etsd.node, bool(runs) and not chunks,
                  "; ".join(sorted(chunks)) or "no path returns", examined=len(runs), construct=f"{Q}.{outcome}::chunks")
        ctx.check("R-EVENT-FIELDS", f"{where}: every event carries the test id, its time, name / bytes / content type; the final one the status and the current tags", etsd.node,
                  bool(runs) and not fields, "; ".join(sorted(fields)) or "no path returns", examined=len(runs), construct=f"{Q}.{outcome}::fields")
        ctx.check("R-STATUS-TABLES", f"{outcome} travels as {TRAVELS_AS[outcome]!r}, bracketed by one 'inprogress' event", etsd.node, bool(runs) and not tables,
                  "; ".join(sorted(tables)) or "no path returns", examined=len(runs), construct=f"{Q}.{outcome}::round-trip")
    # no supplied times: the clock is asked, and a test that was never started still gets its run started
    d, runs = _drive(ctx, "stream", "addSuccess", None, with_times=False)
    problems = set()
    for r in runs:
        if r.kind == "exc":
            problems.add(f"raises {r.value!r}")
            continue
        for e in _events(r):
            if e.get("timestamp") != ("sym", "the-clock"):
                problems.add(f"without time() calls an event carries timestamp={e.get('timestamp', 'nothing')!r} instead of the current time")
    ctx.check("R-EVENT-FIELDS", "without supplied times every event is stamped with the current time", etsd.node, bool(runs) and not problems, "; ".join(sorted(problems)) or "no path returns",
              examined=len(runs), construct=f"{Q}::clock")


def check_round_trip(ctx):
    """TestResult calls -> stream -> StreamToExtendedDecorator -> TestResult calls: one bracket, same everything."""
    sted = ctx.classes.get(REAL, "StreamToExtendedDecorator")
    Q = f"{REAL}:StreamToExtendedDecorator"
    spec = [("first", (C1, C2)), ("empty", ()), ("last", (C3,))]
    for outcome in OUTCOMES:
        d, runs = _drive(ctx, "result", outcome, spec if outcome != "addSkip" else None, reason=("const", "not today"))
        problems, tables = set(), set()
        for r in runs:
            if r.kind == "exc":
                tables.add(f"the round trip of {outcome} raises {r.value!r}")
                continue
            calls_ = so.logged(r, "result.")
            names = [c_[0] for c_ in calls_]
            core = [n for n in names if n in ("startTest", "stopTest") or n.startswith("add")]
            if core != ["startTest", REPLAYED_AS[outcome], "stopTest"]:
                (tables if len(core) == 3 and core[0] == "startTest" and core[2] == "stopTest" else problems).add(
                    f"the result sees {core}; expected one bracket startTest, {REPLAYED_AS[outcome]}, stopTest")
                continue
            i0, i1, i2 = names.index("startTest"), names.index(REPLAYED_AS[outcome]), names.index("stopTest")
            for c_ in (calls_[i0], calls_[i1], calls_[i2]):
                obj = d.dom.describe(d.it, c_[1][0], r.state, d.fr) if c_[1] else None
                fields = dict(obj[2]) if isinstance(obj, tuple) and obj[:1] == ("object",) else {}
                if fields.get("_test_id") != TEST_ID:
                    problems.add(f"{c_[0]} is replayed for a test with id {fields.get('_test_id', '?')!r} instead of the original id")
            times = [c_[1] for c_ in calls_ if c_[0] == "time"]
            if times != [(T_START,), (T_END,)] or not (names.index("time") < i0 < len(names) - 1 - names[::-1].index("time") < i1):
                problems.add(f"the times replayed are {times} at positions that do not bracket startTest: expected the start time before startTest and the time of the outcome before the outcome")
            tag_calls = [(i, c_) for i, c_ in enumerate(calls_) if c_[0] == "tags"]
            before = [_tags_of(d, c_[1][0]) for i, c_ in tag_calls if i < i0 and c_[1]]
            if before != [["run-tag", "test-tag"]]:
                problems.add(f"before startTest the result is told the tags {before}; expected the test's tags (run-tag, test-tag) once")
            after = [_tags_of(d, c_[1][1]) for i, c_ in tag_calls if i > i2 and len(c_[1]) > 1]
            if after != [["run-tag", "test-tag"]]:
                problems.add(f"after stopTest the tags removed are {after}; expected the same tags, so that they do not leak into the next test")
            det = d.dom.describe(d.it, dict(calls_[i1][2]).get("details", calls_[i1][1][1] if len(calls_[i1][1]) > 1 else None), r.state, d.fr)
            got = {}
            for k, v in (det[1] if isinstance(det, tuple) and det[:1] == ("kwdict",) else ()):
                ct = dict(v[1][2]) if isinstance(v, tuple) and v[:1] == ("content",) and isinstance(v[1], tuple) and v[1][:2] == ("object", "ContentType") else {}
                joined = b"".join(x[1] for x in (v[2] or ()) if isinstance(x, tuple) and x[:1] == ("const",) and isinstance(x[1], bytes)) if isinstance(v, tuple) and v[:1] == ("content",) else None
                got[k] = (ct.get("type"), ct.get("subtype"), ct.get("parameters"), joined)
            text_utf8 = (("const", "text"), ("const", "plain"), ("kwdict", PLAIN))
            want = {"first": text_utf8 + (b"first second",), "last": (("const", "text"), ("const", "plain"), ("kwdict", ODD), b"other")} if outcome != "addSkip" else {"reason": text_utf8 + (b"not today",)}
            got = {k: v[:2] + (("kwdict", tuple(sorted(v[2][1]))) if isinstance(v[2], tuple) and v[2][:1] == ("kwdict",) else v[2],) + v[3:] for k, v in got.items()}
            if got != want:
                problems.add(f"the outcome is replayed with the details {got}; expected every non-empty detail with the same bytes and the same content type: {want}")
        ctx.check("R-REPLAY-ORDER", f"round trip of {outcome}: one bracket with the same id, times, tags and details", sted.node, bool(runs) and not problems and not tables,
                  "; ".join(sorted(problems | tables)) or "no path returns", examined=len(runs), construct=f"{Q}::round-trip {outcome}")
        ctx.check("R-STATUS-TABLES", f"{outcome} is replayed as {REPLAYED_AS[outcome]}", sted.node, bool(runs) and not tables, "; ".join(sorted(tables)) or "no path returns", examined=len(runs),
                  construct=f"{REAL}:_status_map::{outcome}")


def check_incomplete_replay(ctx):
    """Tests a stream never finished (left 'inprogress', or only attachments seen) are replayed as failures when the run stops."""
    classes = ctx.classes
    sted = classes.get(REAL, "StreamToExtendedDecorator")
    dom = ConversionDomain(classes, accepting=("result",))
    d = so.Driver(ctx, sted, dom, depth=30)
    runs = d.call(d.construct([("wobj", "result")]), "startTestRun")
    runs = d.call(runs, "status", kw=so.event(("const", "pkg.hung"), status=("const", "inprogress"), ts=T_START))
    runs = d.call(runs, "status", kw=so.event(("const", "pkg.files-only"), file_name=("const", "log"), file_bytes=C1, mime=("const", "text/plain"), ts=T_START))
    runs = d.call(runs, "status", kw=so.event(("const", "pkg.announced"), status=("const", "exists"), ts=T_START))
    runs = d.call(runs, "stopTestRun")
    d.done()
    problems = set()
    for r in runs:
        if r.kind == "exc":
            problems.add(f"raises {r.value!r}")
            continue
        calls_ = so.logged(r, "result.")
        seen = {}
        for c_ in calls_:
            if c_[0].startswith("add") and c_[1]:
                obj = d.dom.describe(d.it, c_[1][0], r.state, d.fr)
                fields = dict(obj[2]) if isinstance(obj, tuple) and obj[:1] == ("object",) else {}
                seen[fields.get("_test_id")] = c_[0]
        want = {("const", "pkg.hung"): "addFailure", ("const", "pkg.files-only"): "addFailure"}
        if seen != want:
            problems.add(f"at stopTestRun the outcomes replayed are {seen}; expected the hung test and the attachments-only test as failures, the announcement not at all")
    ctx.check("R-STATUS-TABLES", "tests left 'inprogress' or 'unknown' are replayed as failures when the run stops; 'exists' announcements are not tests", sted.node, bool(runs) and not problems,
              "; ".join(sorted(problems)) or "no path returns", examined=len(runs), construct=f"{REAL}:_status_map::failing")


def run(ctx):
    ctx.rule("R-STATUS-TABLES", "method->status and status->method tables compose to the documented map; dispatch tables are exhaustive")
    ctx.rule("R-CHUNK-OBLIGATIONS", "every chunk forwarded exactly once in order; exactly one trailing eof per detail; reason and one final status last")
    ctx.rule("R-EVENT-FIELDS", "every event carries the fields the consumer needs")
    ctx.rule("R-REPLAY-ORDER", "PlaceHolder.run / StreamToExtendedDecorator replay each record once in protocol order")
    check_stream_side(ctx)
    check_round_trip(ctx)
    check_incomplete_replay(ctx)
    ctx.floor("R-STATUS-TABLES", 12)
    ctx.assume("the email package parses a MIME header the way it does in the analysing interpreter (constant headers are folded through it)")
