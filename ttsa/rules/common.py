"""Helpers shared by the rule modules."""

import ast

from ..astutil import FUNC_TYPES, attr_chain, dotted, find_function, norm, walk_shallow
from ..cfg import build_cfg, live_nodes, node_calls, node_exprs
from ..loader import AnalysisError

REAL = "testtools.testresult.real"
TESTCASE = "testtools.testcase"
RUNTEST = "testtools.runtest"
TWRUNTEST = "testtools.twistedsupport._runtest"
SPINNER = "testtools.twistedsupport._spinner"
TESTSUITE = "testtools.testsuite"


def own_method(ctx, modname, clsname, name, required=True):
    ci = ctx.classes.get(modname, clsname)
    f = ci.own_method(name)
    if f is None and required:
        raise AnalysisError(f"anchor vanished: {modname}:{clsname}.{name}")
    return f


def resolved_method(ctx, modname, clsname, name, required=True):
    """(defining ClassInfo, def) for clsname().name through the MRO."""
    ci = ctx.classes.get(modname, clsname)
    owner, f = ctx.classes.resolve_method(ci, name)
    if (f is None or not isinstance(f, FUNC_TYPES)) and required:
        raise AnalysisError(f"anchor vanished: {modname}:{clsname}.{name} does not resolve")
    return owner, f


def module_function(ctx, modname, qual, required=True):
    m = ctx.repo.module(modname)
    f = find_function(m.tree, qual)
    if f is None and required:
        raise AnalysisError(f"anchor vanished: {modname}:{qual}")
    return f


def cfg_of(ctx, func, **kw):
    g = build_cfg(func, **kw)
    ctx.analysed(func, g)
    return g


def nodes_calling(cfg, pred, live=None):
    """CFG node ids (live) that evaluate a Call satisfying pred(call)."""
    live = live_nodes(cfg) if live is None else live
    out = []
    for n in cfg.nodes:
        if n.id not in live:
            continue
        if any(pred(c) for c in node_calls(n)):
            out.append(n.id)
    return out


def call_is(call, *dotted_names):
    return dotted(call.func) in dotted_names


def self_attr_call(call, attr, method=None):
    """``self.<attr>.<method>(...)`` (any method when None) -> method name."""
    ch = attr_chain(call.func)
    if ch and len(ch) == 3 and ch[0] == "self" and ch[1] == attr:
        if method is None or ch[2] == method:
            return ch[2]
    return None


def describe_nodes(cfg, ids):
    return [cfg.nodes[i].describe() for i in ids]


def has_kw(call, name):
    return any(k.arg == name for k in call.keywords)


def kw_value(call, name):
    for k in call.keywords:
        if k.arg == name:
            return k.value
    return None


def str_const(node):
    if isinstance(node, ast.Constant) and isinstance(node.value, str):
        return node.value
    return None


# ---------------------------------------------------------------------------------------------
# _copy_content: the copy is a snapshot (shared by C05 R-EAGER-SNAPSHOT and C16 R-SNAPSHOT-COPY)
# ---------------------------------------------------------------------------------------------
EAGER_CALLS = {"list", "tuple", "bytes", "bytearray", "sorted"}
LAZY_CALLS = {"iter", "map", "filter", "zip", "reversed", "enumerate", "itertools.chain", "chain"}


def _materialised(expr, defs, seen=()):
    """'eager' | 'alias' | 'lazy' | 'unknown': was the value of expr created, fully evaluated, when
    the statement ran?  Names are followed through their definitions (defs: name -> [value exprs])."""
    if isinstance(expr, ast.Constant):
        return "eager"
    if isinstance(expr, (ast.ListComp, ast.SetComp, ast.DictComp)):
        return "eager"
    if isinstance(expr, ast.GeneratorExp):
        return "lazy"
    if isinstance(expr, (ast.List, ast.Tuple)):
        kinds = {_materialised(e, defs, seen) for e in expr.elts}
        return "eager" if kinds <= {"eager"} else sorted(kinds - {"eager"})[0]
    if isinstance(expr, ast.Call):
        d = dotted(expr.func) or ""
        if d in EAGER_CALLS:
            return "eager"
        if d in LAZY_CALLS:
            return "lazy"
        if isinstance(expr.func, ast.Attribute) and expr.func.attr == "join" and isinstance(expr.func.value, ast.Constant):
            return "eager"
        return "alias"  # whatever object the callee hands out (it may be the source's own buffer)
    if isinstance(expr, ast.Name):
        if expr.id in seen or expr.id not in defs:
            return "unknown"
        kinds = {_materialised(v, defs, seen + (expr.id,)) for v in defs[expr.id]}
        for k in ("alias", "lazy", "unknown"):
            if k in kinds:
                return k
        return "eager"
    if isinstance(expr, ast.IfExp):
        kinds = {_materialised(expr.body, defs, seen), _materialised(expr.orelse, defs, seen)}
        for k in ("alias", "lazy", "unknown"):
            if k in kinds:
                return k
        return "eager"
    return "unknown"


def check_copy_content_snapshot(ctx, rule):
    """_copy_content run as written against a source whose iter_bytes() hands out the source's *own* buffer (a list
    object on the abstract heap): afterwards the source's buffer grows, and only then are the bytes of the copy asked
    for.  The copy must still yield the bytes of copy time without going back to the source."""
    from .. import effects
    from ..absint import Frame, Interp, State, unbox_deep
    from ..objects import ObjectDomain
    cc = module_function(ctx, TESTCASE, "_copy_content")
    ctx.analysed(cc)
    p0 = cc.args.args[0].arg
    Q = f"{TESTCASE}:_copy_content"
    SRC, CT = ("wobj", "source"), ("sym", "the-source's-content-type")
    B1, B2, B3 = ("const", b"first-"), ("const", b"second"), ("const", b"-written-after-the-copy")

    def oracle(n, pos, kw):
        if n == "source.iter_bytes":
            return [("val", ("h", "source-buffer"))]
        return None

    dom = ObjectDomain(ctx.classes, attrs={"source.content_type": CT}, ctors={"Content", "content.Content"}, oracle=oracle, log_cap=30)
    dom.root_class = None
    it = Interp(dom, max_depth=6)
    it.round_cache = {}
    holder = ast.parse("def _gathering_details():\n    pass").body[0]
    holder._module, holder._parent, holder._class = cc._module, cc._module.tree, None
    fr = Frame(holder, 0, None, name="<gathering details>", is_method=False)
    later = ast.parse("def _reporting_later():\n    pass").body[0]
    later._module, later._parent, later._class = cc._module, cc._module.tree, None
    fr_later = Frame(later, 0, None, name="<reporting>", is_method=False)
    made = it.inline(cc, {p0: SRC}, State([("heap.source-buffer", ("tuple", B1, B2))]), fr, is_method=False)
    types, shape, back, stale = set(), set(), set(), set()
    n = 0
    for r in made:
        n += 1
        v = r.value
        if r.kind != "val" or not (isinstance(v, tuple) and v[:2] == ("new", "Content")):
            shape.add(f"_copy_content gives {r.kind} {unbox_deep(v, r.state)!r} instead of a Content")
            continue
        args = dict(zip(("content_type", "get_bytes"), v[2]))
        args.update(dict(v[3]))
        if args.get("content_type") != CT:
            types.add(f"the copy is built with the content type {args.get('content_type')!r} instead of the source's")
        cb = args.get("get_bytes")
        before = len([e for e in r.state.get("ev.calls", ()) if e[0].startswith("source.")])
        s1 = r.state.set("heap.source-buffer", ("tuple", B1, B2, B3))   # the source goes on being written to
        for r2 in dom.apply(it, cb, [], [], s1, fr_later):
            n += 1
            after = len([e for e in r2.state.get("ev.calls", ()) if e[0].startswith("source.")])
            if after != before:
                back.add("the callback of the copy goes back to the source when the bytes are asked for: the content is evaluated at reporting time, after the source may have changed or gone")
                continue
            if r2.kind != "val":
                shape.add(f"asking the copy for its bytes raises {r2.value!r}")
                continue
            got = unbox_deep(r2.value, r2.state)
            if isinstance(got, tuple) and got[:1] in (("lazyseq",), ("iter",), ("lazymap",)):
                stale.add("the copy hands out a generator / iterator object: its bytes can be read only once, and it reads the source's buffer when it is consumed, not when the copy was made")
                continue
            els = it._exact_elements(got)
            joined = b"".join(x[1] for x in els) if els is not None and all(isinstance(x, tuple) and x[:1] == ("const",) and isinstance(x[1], bytes) for x in els) else None
            if joined != B1[1] + B2[1]:
                stale.add(f"after the source's buffer grew the copy yields {els if els is not None else unbox_deep(r2.value, r2.state)!r}: the copy hands out the source's own buffer (or a lazy view of it) instead of bytes materialised when the copy was made")
    ctx.stats["states"] += it.steps
    for f_ in it.functions:
        ctx.analysed(f_)
    if not made:
        shape.add("no path of _copy_content returns")
    ctx.check(rule, "_copy_content returns a Content whose bytes can be asked for", cc, not shape, "; ".join(sorted(shape)), examined=n, construct=f"{Q}::callback")
    ctx.check(rule, "the copy carries the source's content type", cc, not types, "; ".join(sorted(types)), examined=n, construct=f"{Q}::content-type")
    ctx.check(rule, "the bytes callback does not go back to the source", cc, not back, "; ".join(sorted(back)), examined=n, construct=f"{Q}::callback-lazy")
    ctx.check(rule, "the copy holds the bytes of copy time whatever happens to the source's buffer afterwards", cc, not stale, "; ".join(sorted(stale)), examined=n, construct=f"{Q}::bytes materialised")


def literal_elements(expr, scope_node):
    """Elements of a list/tuple/set literal, following one local / class-level / module-level name."""
    if isinstance(expr, (ast.List, ast.Tuple, ast.Set)):
        return list(expr.elts)
    if isinstance(expr, (ast.Name, ast.Attribute)):
        name = expr.id if isinstance(expr, ast.Name) else expr.attr
        n = scope_node
        while n is not None:
            body = getattr(n, "body", None)
            if isinstance(body, list):
                for s in body:
                    tgts = s.targets if isinstance(s, ast.Assign) else ([s.target] if isinstance(s, ast.AnnAssign) and s.value is not None else [])
                    for t in tgts:
                        if (isinstance(t, ast.Name) and t.id == name) or (isinstance(t, ast.Attribute) and t.attr == name):
                            if isinstance(s.value, (ast.List, ast.Tuple, ast.Set)):
                                return list(s.value.elts)
                            if isinstance(s.value, ast.Call) and dotted(s.value.func) in ("frozenset", "set", "tuple", "list") and s.value.args and isinstance(s.value.args[0], (ast.List, ast.Tuple, ast.Set)):
                                return list(s.value.args[0].elts)
            n = getattr(n, "_parent", None)
    return None


PH_TAGS, PH_T0, PH_T1, PH_DETAILS = ("sym", "placeholder-tags"), ("sym", "t-first"), ("sym", "t-last"), ("sym", "placeholder-details")
EMPTY_SET = ("set", ("empty",))


def placeholder_runs(ctx, first=PH_T0, last=PH_T1, outcome="addSuccess"):
    """Abstract runs of PlaceHolder.run against a symbolic result: -> (function, [call log of the result per normal
    path], number of paths).  Entries are (method, positional values, keyword values)."""
    from .. import effects
    from ..absint import State
    cls = ctx.classes.get(TESTCASE, "PlaceHolder")
    f = cls.own_method("run")
    if not isinstance(f, FUNC_TYPES):
        raise AnalysisError("anchor vanished: PlaceHolder.run")
    from ..objects import ObjectDomain
    dom = ObjectDomain(ctx.classes, attrs={"self": ("self",), "self._tags": PH_TAGS, "self._timestamps": ("tuple", first, last), "self._outcome": ("const", outcome),
                                           "self._details": PH_DETAILS},
                       results={"self._result": [("wobj", "res")]}, log_cap=20)
    res = effects.run(ctx, dom, f, cls, {"result": ("sym", "given-result")}, state=State(), depth=4)
    logs = []
    for r in res:
        if r.kind == "val":
            logs.append([(n[4:],) + result_api_args(n[4:], pos, kw) for n, pos, kw, tag in r.state.get("ev.calls", ()) if n.startswith("res.")])
    return f, logs, len(res)


# the TestResult API: parameters a caller may also pass by keyword
RESULT_API = {"tags": ("new_tags", "gone_tags"), "time": ("a_datetime",), "startTest": ("test",), "stopTest": ("test",), "addSuccess": ("test",), "addError": ("test", "err"),
              "addFailure": ("test", "err"), "addSkip": ("test", "reason"), "addExpectedFailure": ("test", "err"), "addUnexpectedSuccess": ("test",)}


def result_api_args(method, pos, kw):
    """(positional, keyword) arguments of a TestResult API call with leading parameters given by keyword moved to their positions."""
    names = RESULT_API.get(method, ())
    given = dict(kw)
    pos = list(pos)
    for n_ in names[len(pos):]:
        if n_ not in given:
            break
        pos.append(given.pop(n_))
    return tuple(pos), tuple((k, v) for k, v in kw if k in given)
