"""Helpers shared by the rule modules."""

import ast

from ..astutil import FUNC_TYPES, attr_chain, dotted, find_function, norm, walk_shallow
from ..cfg import build_cfg, live_nodes, node_calls, node_exprs
from ..loader import AnalysisError

REAL = "testtools.testresult.real"
TESTCASE = "testtools.testcase"
RUNTEST = "testtools.runtest"
TWRUNTEST = "testtools.twistedsupport._runtest"
SPINNER = "testtools.twistedsupport._spinner"
TESTSUITE = "testtools.testsuite"


def own_method(ctx, modname, clsname, name, required=True):
    ci = ctx.classes.get(modname, clsname)
    f = ci.own_method(name)
    if f is None and required:
        raise AnalysisError(f"anchor vanished: {modname}:{clsname}.{name}")
    return f


def resolved_method(ctx, modname, clsname, name, required=True):
    """(defining ClassInfo, def) for clsname().name through the MRO."""
    ci = ctx.classes.get(modname, clsname)
    owner, f = ctx.classes.resolve_method(ci, name)
    if (f is None or not isinstance(f, FUNC_TYPES)) and required:
        raise AnalysisError(f"anchor vanished: {modname}:{clsname}.{name} does not resolve")
    return owner, f


def module_function(ctx, modname, qual, required=True):
    m = ctx.repo.module(modname)
    f = find_function(m.tree, qual)
    if f is None and required:
        raise AnalysisError(f"anchor vanished: {modname}:{qual}")
    return f


def cfg_of(ctx, func, **kw):
    g = build_cfg(func, **kw)
    ctx.analysed(func, g)
    return g


def nodes_calling(cfg, pred, live=None):
    """CFG node ids (live) that evaluate a Call satisfying pred(call)."""
    live = live_nodes(cfg) if live is None else live
    out = []
    for n in cfg.nodes:
        if n.id not in live:
            continue
        if any(pred(c) for c in node_calls(n)):
            out.append(n.id)
    return out


def call_is(call, *dotted_names):
    return dotted(call.func) in dotted_names


def self_attr_call(call, attr, method=None):
    """``self.<attr>.<method>(...)`` (any method when None) -> method name."""
    ch = attr_chain(call.func)
    if ch and len(ch) == 3 and ch[0] == "self" and ch[1] == attr:
        if method is None or ch[2] == method:
            return ch[2]
    return None


def describe_nodes(cfg, ids):
    return [cfg.nodes[i].describe() for i in ids]


def has_kw(call, name):
    return any(k.arg == name for k in call.keywords)


def kw_value(call, name):
    for k in call.keywords:
        if k.arg == name:
            return k.value
    return None


def str_const(node):
    if isinstance(node, ast.Constant) and isinstance(node.value, str):
        return node.value
    return None
