"""Helpers shared by the rule modules."""

import ast

from ..astutil import FUNC_TYPES, attr_chain, dotted, find_function, norm, walk_shallow
from ..cfg import build_cfg, live_nodes, node_calls, node_exprs
from ..loader import AnalysisError

REAL = "testtools.testresult.real"
TESTCASE = "testtools.testcase"
RUNTEST = "testtools.runtest"
TWRUNTEST = "testtools.twistedsupport._runtest"
SPINNER = "testtools.twistedsupport._spinner"
TESTSUITE = "testtools.testsuite"


def own_method(ctx, modname, clsname, name, required=True):
    ci = ctx.classes.get(modname, clsname)
    f = ci.own_method(name)
    if f is None and required:
        raise AnalysisError(f"anchor vanished: {modname}:{clsname}.{name}")
    return f


def resolved_method(ctx, modname, clsname, name, required=True):
    """(defining ClassInfo, def) for clsname().name through the MRO."""
    ci = ctx.classes.get(modname, clsname)
    owner, f = ctx.classes.resolve_method(ci, name)
    if (f is None or not isinstance(f, FUNC_TYPES)) and required:
        raise AnalysisError(f"anchor vanished: {modname}:{clsname}.{name} does not resolve")
    return owner, f


def module_function(ctx, modname, qual, required=True):
    m = ctx.repo.module(modname)
    f = find_function(m.tree, qual)
    if f is None and required:
        raise AnalysisError(f"anchor vanished: {modname}:{qual}")
    return f


def cfg_of(ctx, func, **kw):
    g = build_cfg(func, **kw)
    ctx.analysed(func, g)
    return g


def nodes_calling(cfg, pred, live=None):
    """CFG node ids (live) that evaluate a Call satisfying pred(call)."""
    live = live_nodes(cfg) if live is None else live
    out = []
    for n in cfg.nodes:
        if n.id not in live:
            continue
        if any(pred(c) for c in node_calls(n)):
            out.append(n.id)
    return out


def call_is(call, *dotted_names):
    return dotted(call.func) in dotted_names


def self_attr_call(call, attr, method=None):
    """``self.<attr>.<method>(...)`` (any method when None) -> method name."""
    ch = attr_chain(call.func)
    if ch and len(ch) == 3 and ch[0] == "self" and ch[1] == attr:
        if method is None or ch[2] == method:
            return ch[2]
    return None


def describe_nodes(cfg, ids):
    return [cfg.nodes[i].describe() for i in ids]


def has_kw(call, name):
    return any(k.arg == name for k in call.keywords)


def kw_value(call, name):
    for k in call.keywords:
        if k.arg == name:
            return k.value
    return None


def str_const(node):
    if isinstance(node, ast.Constant) and isinstance(node.value, str):
        return node.value
    return None


# ---------------------------------------------------------------------------------------------
# _copy_content: the copy is a snapshot (shared by C05 R-EAGER-SNAPSHOT and C16 R-SNAPSHOT-COPY)
# ---------------------------------------------------------------------------------------------
EAGER_CALLS = {"list", "tuple", "bytes", "bytearray", "sorted"}
LAZY_CALLS = {"iter", "map", "filter", "zip", "reversed", "enumerate", "itertools.chain", "chain"}


def _materialised(expr, defs, seen=()):
    """'eager' | 'alias' | 'lazy' | 'unknown': was the value of expr created, fully evaluated, when
    the statement ran?  Names are followed through their definitions (defs: name -> [value exprs])."""
    if isinstance(expr, ast.Constant):
        return "eager"
    if isinstance(expr, (ast.ListComp, ast.SetComp, ast.DictComp)):
        return "eager"
    if isinstance(expr, ast.GeneratorExp):
        return "lazy"
    if isinstance(expr, (ast.List, ast.Tuple)):
        kinds = {_materialised(e, defs, seen) for e in expr.elts}
        return "eager" if kinds <= {"eager"} else sorted(kinds - {"eager"})[0]
    if isinstance(expr, ast.Call):
        d = dotted(expr.func) or ""
        if d in EAGER_CALLS:
            return "eager"
        if d in LAZY_CALLS:
            return "lazy"
        if isinstance(expr.func, ast.Attribute) and expr.func.attr == "join" and isinstance(expr.func.value, ast.Constant):
            return "eager"
        return "alias"  # whatever object the callee hands out (it may be the source's own buffer)
    if isinstance(expr, ast.Name):
        if expr.id in seen or expr.id not in defs:
            return "unknown"
        kinds = {_materialised(v, defs, seen + (expr.id,)) for v in defs[expr.id]}
        for k in ("alias", "lazy", "unknown"):
            if k in kinds:
                return k
        return "eager"
    if isinstance(expr, ast.IfExp):
        kinds = {_materialised(expr.body, defs, seen), _materialised(expr.orelse, defs, seen)}
        for k in ("alias", "lazy", "unknown"):
            if k in kinds:
                return k
        return "eager"
    return "unknown"


def check_copy_content_snapshot(ctx, rule):
    """Every object the copy's bytes callback can hand out was created, fully evaluated, while
    _copy_content ran -- not the source's own buffer, not a lazy iterator over the source."""
    cc = module_function(ctx, TESTCASE, "_copy_content")
    ctx.analysed(cc)
    p0 = cc.args.args[0].arg
    Q = f"{TESTCASE}:_copy_content"
    rets = [r for r in walk_shallow(cc, include_self=False) if isinstance(r, ast.Return)]
    builds = [r.value for r in rets if isinstance(r.value, ast.Call) and (dotted(r.value.func) or "").split(".")[-1] == "Content" and len(r.value.args) == 2]
    if len(builds) != len(rets) or not builds:
        raise AnalysisError("anchor vanished: _copy_content no longer returns Content(<type>, <bytes callback>)")
    defs = {}
    for n in walk_shallow(cc, include_self=False):
        if isinstance(n, ast.Assign):
            for t in n.targets:
                if isinstance(t, ast.Name):
                    defs.setdefault(t.id, []).append(n.value)
        elif isinstance(n, ast.AnnAssign) and n.value is not None and isinstance(n.target, ast.Name):
            defs.setdefault(n.target.id, []).append(n.value)
        elif isinstance(n, ast.AugAssign) and isinstance(n.target, ast.Name):
            defs.setdefault(n.target.id, []).append(n.value)
    nested = {f.name: f for f in walk_shallow(cc, include_self=False) if isinstance(f, FUNC_TYPES)}
    for b in builds:
        a0, a1 = b.args
        ctx.check(rule, "the copy carries the source's content type", b, dotted(a0) == f"{p0}.content_type",
                  f"the copy is built with {norm(a0)} instead of {p0}.content_type", construct=f"{Q}::content-type")
        cb = a1 if isinstance(a1, ast.Lambda) else nested.get(dotted(a1) or "")
        if cb is None:
            ctx.check(rule, "the bytes callback of the copy resolves", b, False, f"cannot resolve the bytes callback {norm(a1)}", construct=f"{Q}::callback")
            continue
        touches = [n for n in ast.walk(cb) if isinstance(n, ast.Name) and n.id == p0]
        ctx.check(rule, "the bytes callback does not go back to the source", cb, not touches,
                  f"the callback of the copy reads {p0} when the bytes are asked for: the content is evaluated at reporting time, after the source may have changed or gone",
                  construct=f"{Q}::callback-lazy")
        outs = [cb.body] if isinstance(cb, ast.Lambda) else [r.value for r in ast.walk(cb) if isinstance(r, ast.Return) and r.value is not None]
        local_defs = dict(defs)
        if not isinstance(cb, ast.Lambda):
            for n in walk_shallow(cb, include_self=False):
                if isinstance(n, ast.Assign):
                    for t in n.targets:
                        if isinstance(t, ast.Name):
                            local_defs.setdefault(t.id, []).append(n.value)
        for o in outs:
            names = [o.id] if isinstance(o, ast.Name) else []
            sites = [v for nm in names for v in local_defs.get(nm, [])] or [o]
            for v in sites:
                kind = _materialised(v, local_defs)
                why = {"alias": f"`{norm(v)[:60]}` may be the source's own buffer (whatever object the call hands out): later appends or rewrites of it change the bytes of the gathered copy",
                       "lazy": f"`{norm(v)[:60]}` is evaluated lazily, when the bytes are asked for",
                       "unknown": f"cannot tell whether `{norm(v)[:60]}` was materialised when the copy was made"}.get(kind, "")
                ctx.check(rule, f"the callback hands out `{norm(v)[:50]}`: materialised when the copy was made", v, kind == "eager", why,
                          construct=f"{Q}::bytes {norm(v)[:60]}")


def literal_elements(expr, scope_node):
    """Elements of a list/tuple/set literal, following one local / class-level / module-level name."""
    if isinstance(expr, (ast.List, ast.Tuple, ast.Set)):
        return list(expr.elts)
    if isinstance(expr, (ast.Name, ast.Attribute)):
        name = expr.id if isinstance(expr, ast.Name) else expr.attr
        n = scope_node
        while n is not None:
            body = getattr(n, "body", None)
            if isinstance(body, list):
                for s in body:
                    tgts = s.targets if isinstance(s, ast.Assign) else ([s.target] if isinstance(s, ast.AnnAssign) and s.value is not None else [])
                    for t in tgts:
                        if (isinstance(t, ast.Name) and t.id == name) or (isinstance(t, ast.Attribute) and t.attr == name):
                            if isinstance(s.value, (ast.List, ast.Tuple, ast.Set)):
                                return list(s.value.elts)
                            if isinstance(s.value, ast.Call) and dotted(s.value.func) in ("frozenset", "set", "tuple", "list") and s.value.args and isinstance(s.value.args[0], (ast.List, ast.Tuple, ast.Set)):
                                return list(s.value.args[0].elts)
            n = getattr(n, "_parent", None)
    return None


PH_TAGS, PH_T0, PH_T1, PH_DETAILS = ("sym", "placeholder-tags"), ("sym", "t-first"), ("sym", "t-last"), ("sym", "placeholder-details")
EMPTY_SET = ("set", ("empty",))


def placeholder_runs(ctx, first=PH_T0, last=PH_T1, outcome="addSuccess"):
    """Abstract runs of PlaceHolder.run against a symbolic result: -> (function, [call log of the result per normal
    path], number of paths).  Entries are (method, positional values, keyword values)."""
    from .. import effects
    from ..absint import State
    cls = ctx.classes.get(TESTCASE, "PlaceHolder")
    f = cls.own_method("run")
    if not isinstance(f, FUNC_TYPES):
        raise AnalysisError("anchor vanished: PlaceHolder.run")
    dom = effects.EffectDomain(ctx.classes, attrs={"self": ("self",), "self._tags": PH_TAGS, "self._timestamps": ("tuple", first, last), "self._outcome": ("const", outcome),
                                                   "self._details": PH_DETAILS},
                               results={"self._result": [("wobj", "res")]}, log_cap=20)
    res = effects.run(ctx, dom, f, cls, {"result": ("sym", "given-result")}, state=State(), depth=4)
    logs = []
    for r in res:
        if r.kind == "val":
            logs.append([(n[4:], pos, kw) for n, pos, kw, tag in r.state.get("ev.calls", ()) if n.startswith("res.")])
    return f, logs, len(res)
