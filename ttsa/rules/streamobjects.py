"""Objects of the stream family run as written (shared by C09, C10, C11, C17, C18).

An object of a repository class is constructed through its real __init__ and then driven through a history of
method calls; everything it creates on the way (records, contents, routing tables, hook objects) is an instance
interpreted by ttsa.objects.  Only the outside world is symbolic: callbacks handed to the object (``on_test``),
the results / streams it decorates or forwards to, clocks, and MIME parsing through the email package.  What
those receive -- in order, with arguments described down to the bytes of attachments -- is what the rules read.
"""

import ast

from ..absint import NONE, TOP, Frame, Interp, Result, State, dedupe, exc, unbox_deep, val, without_heap
from ..astutil import FUNC_TYPES
from ..effects import DELETED  # noqa: F401  (re-exported: the state of an attribute removed from a wrapped object)
from ..loader import AnalysisError
from ..objects import ObjectDomain, is_inst

ON_TEST = ("userfn", "on_test")


class StreamDomain(ObjectDomain):
    """Wrapped objects accept every call (logged); ``on_test`` snapshots what it is given."""

    def __init__(self, classes, accepting=("target", "decorated", "queue", "sink", "fallback", "other"), **kw):
        self.accepting = tuple(accepting)
        oracle = kw.pop("oracle", None)

        def answer(n, pos, kw_, st=None):
            got = oracle(n, pos, kw_) if oracle is not None else None
            if got is not None:
                return got
            if n.split(".")[0].strip("<>") in self.accepting or n.startswith(tuple(a + "." for a in self.accepting)):
                return [("val", NONE)]
            return None
        ctors = set(kw.pop("ctors", ()))
        super().__init__(classes, attrs=kw.pop("attrs", {"self": ("self",)}), oracle=answer, ctors=ctors, log_cap=kw.pop("log_cap", 60), **kw)

    # -- the email package (MIME header parsing), folded on constant headers -----------------------------
    # email.message.EmailMessage() is an object with headers; get_content_type() and header.params are computed by the
    # standard library itself from the (constant) header text -- the environment's own semantics, not testtools code.
    @staticmethod
    def _parsed(header):
        import email.message
        msg = email.message.EmailMessage()
        msg["content-type"] = header
        return msg.get_content_type(), dict(msg["content-type"].params)

    def call(self, interp, call, st, fr):
        from ..astutil import dotted
        d = dotted(call.func) or ""
        if d.split(".")[-1] in ("EmailMessage",) and not call.args and not call.keywords:
            n = st.get("ev.email", 0)
            return [val(("emailmsg", n), st.set("ev.email", n + 1))]
        if isinstance(call.func, ast.Attribute) and call.func.attr == "get_content_type" and not call.args:
            got = interp.eval(call.func.value, st, fr)
            if got and all(r.kind == "exc" or (isinstance(r.value, tuple) and r.value[:1] == ("emailmsg",)) for r in got):
                out = []
                for r in got:
                    if r.kind == "exc":
                        out.append(r)
                        continue
                    header = r.state.get(f"em.{r.value[1]}.content-type", None)
                    if isinstance(header, tuple) and header[:1] == ("const",) and isinstance(header[1], str):
                        try:
                            out.append(val(("const", self._parsed(header[1])[0]), r.state))
                        except Exception as e_:   # the library rejects the header: so would it at run time
                            out.append(exc(("exc", type(e_).__name__), r.state))
                    else:
                        out.append(val(TOP, r.state))
                return out
        return super().call(interp, call, st, fr)

    def store_subscript(self, target, value, st, fr, interp):
        if isinstance(target.value, ast.Name) and st.has(fr.local(target.value.id)):
            base = st.get(fr.local(target.value.id))
            if isinstance(base, tuple) and base[:1] == ("emailmsg",) and isinstance(target.slice, ast.Constant) and isinstance(target.slice.value, str):
                return st.set(f"em.{base[1]}.{target.slice.value.lower()}", value)
        return super().store_subscript(target, value, st, fr, interp)

    def subscript(self, base, idx, st, fr):
        if isinstance(base, tuple) and base[:1] == ("emailmsg",) and isinstance(idx, tuple) and idx[:1] == ("const",) and isinstance(idx[1], str):
            return ("emailheader", base[1], idx[1].lower())
        return super().subscript(base, idx, st, fr)

    def attr_of_value(self, interp, value, attr, st, fr):
        if isinstance(value, tuple) and value[:1] == ("emailheader",) and attr == "params":
            header = st.get(f"em.{value[1]}.{value[2]}", None)
            if isinstance(header, tuple) and header[:1] == ("const",) and isinstance(header[1], str):
                try:
                    params = self._parsed(header[1])[1]
                except Exception as e_:
                    return [exc(("exc", type(e_).__name__), st)]
                return [val(("kwdict", tuple((k, ("const", v)) for k, v in params.items())), st)]
            return [val(TOP, st)]
        return super().attr_of_value(interp, value, attr, st, fr)

    # -- describing what a callback / a target receives -------------------------------------------------
    def describe(self, interp, v, st, fr, depth=0):
        """An abstract value with the objects of the model spelled out: a record as its fields, a Content as
        (content type, chunks), a PlaceHolder as its constructor arguments."""
        v = unbox_deep(v, st)
        if is_inst(v):
            name = v[2].name
            if name == "Content":
                ctype = st.get(f"inst.{v[1]}.content_type", None)
                chunks = None
                got = self.call_method(interp, v, "iter_bytes", [], [], st, fr) or []
                if len(got) == 1 and got[0].kind == "val":
                    els = interp._exact_elements(unbox_deep(got[0].value, got[0].state))
                    chunks = tuple(els) if els is not None else None
                return ("content", self.describe(interp, ctype, st, fr, depth + 1), chunks)
            prefix = f"inst.{v[1]}."
            fields = tuple(sorted((k[len(prefix):], self.describe(interp, x, st, fr, depth + 1)) for k, x in st.items if k.startswith(prefix) and "." not in k[len(prefix):]))
            return ("object", name, fields)
        if isinstance(v, tuple) and v[:1] == ("kwdict",) and depth < 6:
            return ("kwdict", tuple((k, self.describe(interp, x, st, fr, depth + 1)) for k, x in v[1])) + v[2:]
        if isinstance(v, tuple) and v[:1] == ("tuple",) and depth < 6:
            return ("tuple",) + tuple(self.describe(interp, x, st, fr, depth + 1) for x in v[1:])
        if isinstance(v, tuple) and v[:1] == ("set",):
            els = self._set_elements(v)
            return ("set-of", tuple(sorted(els, key=repr))) if els is not None else v
        return v

    def apply(self, interp, fn, pos, kw, st, fr):
        if fn == ON_TEST:
            rep = (tuple(self.describe(interp, v, st, fr) for v in pos), tuple((k, self.describe(interp, v, st, fr)) for k, v in kw))
            s2 = st.set("ev.reports", st.get("ev.reports", ()) + (rep,))
            for k, v in st.items:
                if k.endswith("._inprogress") or k == "self._inprogress":
                    v = unbox_deep(v, st)
                    if isinstance(v, tuple) and v[:1] == ("kwdict",) and any(x in pos for _, x in v[1]):
                        s2 = s2.set("ev.reported_while_tabled", 1)   # what is being reported is still filed as in progress
            return [val(NONE, s2)]
        return super().apply(interp, fn, pos, kw, st, fr)


class Driver:
    """One object of a repository class, constructed and then called method after method."""

    def __init__(self, ctx, cls, dom, depth=24):
        self.ctx, self.cls, self.dom = ctx, cls, dom
        dom.root_class = cls
        self.it = Interp(dom, max_depth=depth)
        self.it.round_cache = {}
        holder = ast.parse("def _a_client_of_the_object():\n    pass").body[0]
        holder._module, holder._parent, holder._class = cls.node._module, cls.node._module.tree, None
        self.fr = Frame(holder, 0, cls, name=f"<a client of {cls.name}>", is_method=False)

    def construct(self, pos=(), kw=(), state=None):
        st = state if state is not None else State()
        if self.dom._method(self.cls, "__init__") is None:
            return [val(NONE, st)]
        return self.dom.apply(self.it, ("method", "__init__"), list(pos), list(kw), st, self.fr)

    def call(self, runs, name, pos=(), kw=()):
        """Call the method on every surviving run; exceptions end a run (they are kept in the result list)."""
        out = []
        for r in runs:
            if r.kind == "exc":
                out.append(r)
                continue
            out.extend(self.dom.apply(self.it, ("method", name), list(pos), list(kw), r.state, self.fr))
        return out

    def read(self, runs, attr):
        out = []
        for r in runs:
            if r.kind == "exc":
                out.append(r)
                continue
            out.extend(self.dom._root_value_attr(self.it, attr, r.state, self.fr))
        return out

    def describe(self, r):
        return self.dom.describe(self.it, r.value, r.state, self.fr)

    def done(self):
        self.ctx.stats["states"] += self.it.steps
        for f_ in self.it.functions:
            self.ctx.analysed(f_)


def event(test_id=("const", "T"), status=None, tags=None, file_name=None, file_bytes=None, mime=None, ts=None, route=("const", "R"), eof=None, runnable=None):
    """Keyword arguments of one StreamResult.status() call."""
    kw = [("test_id", test_id)]
    for k, v in (("test_status", status), ("test_tags", tags), ("file_name", file_name), ("file_bytes", file_bytes), ("mime_type", mime), ("route_code", route), ("timestamp", ts),
                 ("eof", eof), ("runnable", runnable)):
        if v is not None:
            kw.append((k, v))
    return kw


def logged(r, prefix):
    return [(n[len(prefix):], pos, kw, tag) for n, pos, kw, tag in r.state.get("ev.calls", ()) if n.startswith(prefix)]
