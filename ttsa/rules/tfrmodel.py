"""Abstract runs of ThreadsafeForwardingResult (shared by C12 and C17).

The semaphore and the target are symbolic wrapped objects; every call on them (and every read of a data
attribute of the target) is logged in order, and every target call may raise.  The lock discipline, the shape of
the per-test block and the routing of tags are read off the logs and the forwarder's state, for the normal and
for every exceptional path -- whatever helpers, context managers or loops the code is organised into.
"""

from .. import effects
from ..absint import NONE, State
from ..astutil import FUNC_TYPES
from ..loader import AnalysisError
from .common import REAL

TFR = "ThreadsafeForwardingResult"
OUTCOMES = ["addError", "addExpectedFailure", "addFailure", "addSkip", "addSuccess", "addUnexpectedSuccess"]
T_, START, NOW = ("arg", "test"), ("arg", "start-time"), ("arg", "now")
G_NEW, G_GONE, L_NEW, L_GONE = ("arg", "g-new"), ("arg", "g-gone"), ("arg", "t-new"), ("arg", "t-gone")
DATA_ATTRS = {"shouldStop", "failfast", "testsRun", "errors", "failures"}


def initial_state(open_test=True):
    return State([("self._test_start", START if open_test else NONE), ("self._global_tags", ("tuple", G_NEW, G_GONE)),
                  ("self._test_tags", ("tuple", L_NEW, L_GONE)), ("ev.calls", ())])


def run_method(ctx, name, argv, st=None, may_raise=True):
    classes = ctx.classes
    tfr = classes.get(REAL, TFR)
    owner, f = classes.resolve_method(tfr, name)
    if not isinstance(f, FUNC_TYPES) or owner is None or owner.external:
        raise AnalysisError(f"anchor vanished: {TFR}.{name}")

    def oracle(n, pos, kw):
        if n.startswith("t."):
            return [("val", ("ret", n))] + ([("exc", ("exc", "TargetError"))] if may_raise else [])
        if n == "sem.acquire" and (any(k == "blocking" and v == "False" for k, v in kw) or (pos and pos[0] == "False")):
            return [("val", "True"), ("val", "False", "not-acquired")]   # a non-blocking acquire may fail
        if n.startswith("sem."):
            return [("val", "True" if n == "sem.acquire" else NONE)]
        return None

    dom = effects.EffectDomain(classes, attrs={"self.semaphore": ("wobj", "sem"), "self.result": ("wobj", "t"), "self": ("self",)},
                               results={"self._now": [NOW]}, oracle=oracle, log_reads=DATA_ATTRS, log_cap=24)
    return f, effects.run(ctx, dom, f, tfr, argv, state=st if st is not None else initial_state(), depth=7)


def lock_problems(log):
    """Problems of one call log with respect to the semaphore: target touched while not held, nested acquire,
    release while not held, held at the end."""
    out = []
    held = 0
    for name, pos, kw, tag in log:
        if name == "sem.acquire" and tag == "not-acquired":
            continue
        if name in ("sem.acquire", "sem.__enter__"):
            if held:
                out.append("the semaphore is acquired again while it is held (self-deadlock on a Semaphore(1))")
            held += 1
        elif name in ("sem.release", "sem.__exit__"):
            if not held:
                out.append("the semaphore is released although it is not held")
            held = max(0, held - 1)
        elif name.startswith("t."):
            if not held:
                out.append(f"the target's {name[2:].replace(':read', ' (read)')} is used while the semaphore is not held")
    if held:
        out.append("a path leaves with the semaphore still held: every other forwarder sharing the semaphore blocks for ever")
    return out


def target_calls(log):
    return [(n[2:], pos, kw, tag) for n, pos, kw, tag in log if n.startswith("t.")]
