"""Abstract runs of ThreadsafeForwardingResult (shared by C12 and C17).

The semaphore and the target are symbolic wrapped objects; every call on them (and every read of a data
attribute of the target) is logged in order, and every target call may raise.  The lock discipline, the shape of
the per-test block and the routing of tags are read off the logs and the forwarder's state, for the normal and
for every exceptional path -- whatever helpers, context managers or loops the code is organised into.
"""

from .. import effects
from ..absint import NONE, State
from ..astutil import FUNC_TYPES
from ..objects import ObjectDomain
from ..loader import AnalysisError
from .common import REAL

TFR = "ThreadsafeForwardingResult"
OUTCOMES = ["addError", "addExpectedFailure", "addFailure", "addSkip", "addSuccess", "addUnexpectedSuccess"]
T_, START, NOW = ("arg", "test"), ("arg", "start-time"), ("arg", "now")
G_NEW, G_GONE, L_NEW, L_GONE = ("arg", "g-new"), ("arg", "g-gone"), ("arg", "t-new"), ("arg", "t-gone")
DATA_ATTRS = {"shouldStop", "failfast", "testsRun", "errors", "failures"}


def initial_state(open_test=True):
    return State([("self._test_start", START if open_test else NONE), ("self._global_tags", ("tuple", G_NEW, G_GONE)),
                  ("self._test_tags", ("tuple", L_NEW, L_GONE)), ("ev.calls", ())])


class TfrDomain(ObjectDomain):
    """EffectDomain plus a table of truth values for the symbolic tag sets (is this buffer half empty?)."""

    truths = {}

    def truth(self, value):
        if value in self.truths:
            return self.truths[value]
        return super().truth(value)


def run_method(ctx, name, argv, st=None, may_raise=True, truths=None):
    classes = ctx.classes
    tfr = classes.get(REAL, TFR)
    owner, f = classes.resolve_method(tfr, name)
    made = None
    prop = ObjectDomain(classes)._declared_property(tfr, name)
    if prop is not None and isinstance(prop[0], FUNC_TYPES):
        owner, f = tfr, prop[0]   # a property (either spelling): reading it runs its getter
    elif prop is not None and isinstance(prop[0], tuple) and prop[0][:1] == ("made",):
        made = (prop[0][1], prop[0][2])   # ... a getter made by an expression (a factory, a lambda, an attrgetter)
        f = made[1]
    elif not isinstance(f, FUNC_TYPES) or owner is None or owner.external:
        # not a def: a method made in the class body (name = factory(...)) -- the class-body expression is evaluated and what it gives is called on self
        made = ObjectDomain(classes)._class_attr_expr(tfr, name)
        if made is None:
            raise AnalysisError(f"anchor vanished: {TFR}.{name}")
        f = made[1]

    def oracle(n, pos, kw):
        if n.startswith("t."):
            return [("val", ("ret", n))] + ([("exc", ("exc", "TargetError"))] if may_raise else [])
        if n == "sem.acquire" and (any(k == "blocking" and v == "False" for k, v in kw) or (pos and pos[0] == "False")):
            return [("val", "True"), ("val", "False", "not-acquired")]   # a non-blocking acquire may fail
        if n.startswith("sem."):
            return [("val", "True" if n == "sem.acquire" else NONE)]
        if n.startswith("own."):
            return [("val", NONE)]
        return None

    dom = TfrDomain(classes, attrs={"self.semaphore": ("wobj", "sem"), "self.result": ("wobj", "t"), "self._tags": ("wobj", "own"), "self": ("self",)},
                    results={"self._now": [NOW]}, oracle=oracle, log_reads=DATA_ATTRS, log_cap=24, ctors={"_merge_tags"})
    dom.truths = dict(truths or {})
    if made is None:
        return f, effects.run(ctx, dom, f, tfr, argv, state=st if st is not None else initial_state(), depth=7)
    import ast
    from ..absint import Frame, Interp, Result, dedupe, unbox_deep, without_heap
    dom.root_class = tfr
    it = Interp(dom, max_depth=8)
    it.round_cache = {}
    holder = ast.parse("def _calling_the_method():\n    pass").body[0]
    holder._module, holder._parent, holder._class = tfr.node._module, tfr.node._module.tree, None
    fr = Frame(holder, 0, tfr, name=f"<{TFR}.{name}>", is_method=False)
    out = []
    for r in dom._eval_class_expr(it, made[0], made[1], st if st is not None else initial_state(), fr):
        if r.kind == "exc":
            out.append(r)
            continue
        callee = r.value
        if isinstance(callee, tuple) and callee[:1] == ("property",) and not argv:
            callee = callee[1]   # a property object made by a helper: reading the attribute calls its getter
        out.extend(dom.apply(it, callee, [("self",)] + list(argv.values()), [], r.state, fr))
    ctx.stats["states"] += it.steps
    for fn_ in it.functions:
        ctx.analysed(fn_)
    return f, dedupe([Result(r.kind, unbox_deep(r.value, r.state), without_heap(r.state)) for r in out])


def lock_problems(log):
    """Problems of one call log with respect to the semaphore: target touched while not held, nested acquire,
    release while not held, held at the end."""
    out = []
    held = 0
    for name, pos, kw, tag in log:
        if name == "sem.acquire" and tag == "not-acquired":
            continue
        if name in ("sem.acquire", "sem.__enter__"):
            if held:
                out.append("the semaphore is acquired again while it is held (self-deadlock on a Semaphore(1))")
            held += 1
        elif name in ("sem.release", "sem.__exit__"):
            if not held:
                out.append("the semaphore is released although it is not held")
            held = max(0, held - 1)
        elif name.startswith("t."):
            if not held:
                out.append(f"the target's {name[2:].replace(':read', ' (read)')} is used while the semaphore is not held")
    if held:
        out.append("a path leaves with the semaphore still held: every other forwarder sharing the semaphore blocks for ever")
    return out


def target_calls(log):
    return [(n[2:], pos, kw, tag) for n, pos, kw, tag in log if n.startswith("t.")]


def tag_routing_problems(ctx):
    """tags() changes the per-test buffer iff a test is open, else the run-level buffer, and always the
    forwarder's own context; nothing is sent to the target (the change is replayed inside the block)."""
    n_, g_ = ("arg", "new"), ("arg", "gone")
    problems = set()
    f = None
    examined = 0
    for open_test in (True, False):
        f, res = run_method(ctx, "tags", {"new_tags": n_, "gone_tags": g_}, st=initial_state(open_test), may_raise=False)
        where = "with a test open" if open_test else "with no test open"
        normal = [r for r in res if r.kind == "val"]
        examined += len(res)
        if not normal or len(normal) != len(res):
            problems.add(f"tags() does not return normally {where}")
        g0, l0 = ("tuple", G_NEW, G_GONE), ("tuple", L_NEW, L_GONE)
        for r in normal:
            g1, l1 = r.state.get("self._global_tags", None), r.state.get("self._test_tags", None)
            changed, kept, (c0, c1), (k0, k1) = ("per-test", "run-level", (l0, l1), (g0, g1)) if open_test else ("run-level", "per-test", (g0, g1), (l0, l1))
            if k1 != k0:
                problems.add(f"{where} the change is written to the {kept} buffer")
            if c1 == c0:
                problems.add(f"{where} the change is not recorded in the {changed} buffer")
            elif isinstance(c1, tuple) and c1[:2] == ("new", "_merge_tags"):
                if tuple(c1[2]) != (c0, ("tuple", n_, g_)) or c1[3]:
                    problems.add(f"{where} the {changed} buffer becomes _merge_tags{tuple(c1[2])!r}: expected the merge of the old buffer with (new_tags, gone_tags)")
            log = r.state.get("ev.calls", ())
            if target_calls(log):
                problems.add(f"tags() talks to the shared target {where} (outside the per-test block)")
            own = [e for e in log if e[0] == "own.change_tags"]
            if len(own) != 1 or own[0][1] != (n_, g_):
                problems.add(f"{where} the forwarder's own context is not updated with (new_tags, gone_tags): current_tags would not reflect the change")
    return f, sorted(problems), examined


def tag_replay_problems(ctx, method="addSuccess"):
    """The block replays the run-level buffer, then the test's own buffer, each iff it is not empty, unmerged."""
    problems = set()
    f = None
    examined = 0
    halves = [("T", "F"), ("F", "T"), ("T", "T"), ("F", "F")]
    for gt in halves:
        for lt in halves:
            truths = {G_NEW: gt[0], G_GONE: gt[1], L_NEW: lt[0], L_GONE: lt[1]}
            f, res = run_method(ctx, method, {"test": T_}, may_raise=False, truths=truths)
            examined += len(res)
            want = ([(G_NEW, G_GONE)] if "T" in gt else []) + ([(L_NEW, L_GONE)] if "T" in lt else [])
            for r in res:
                if r.kind != "val":
                    continue
                calls_ = target_calls(r.state.get("ev.calls", ()))
                got = [c_[1] for c_ in calls_ if c_[0] == "tags"]
                if got != want:
                    def show(seq):
                        return [("run-level buffer" if a == (G_NEW, G_GONE) else "per-test buffer" if a == (L_NEW, L_GONE) else repr(a)) for a in seq]
                    problems.add(f"with run-level buffer {'non-empty' if 'T' in gt else 'empty'} and per-test buffer {'non-empty' if 'T' in lt else 'empty'} the block replays "
                                 f"{show(got)}; expected {show(want)}")
                names = [c_[0] for c_ in calls_]
                if "tags" in names and (method not in names or max(i for i, x in enumerate(names) if x == "tags") > names.index(method) or names.index("startTest") > names.index("tags")):
                    problems.add("tags are replayed outside startTest .. outcome: the target would attribute them to the wrong scope")
    return f, sorted(problems), examined
