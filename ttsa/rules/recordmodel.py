"""Abstract model of the stream consumer core (_StreamToTestRecord + _TestRecord), shared by C10 and C17.

One test key is followed through a short event history.  There is one record object (("rec",)):
its fields live in the state (rec.id / rec.tags / rec.details / rec.status / rec.timestamps), the
in-progress table is abstracted to "is the key present", attachments are a small map
file name -> (content type source, chunks...).  Everything the code does to a record -- through
`set()`/`transform()` helpers, direct attribute assignment, `setattr`, helper methods -- ends in the
same state updates, so the rules compare *what is reported* and do not look at the layout.
"""

import ast

from ..absint import EMPTY, FALSE, NONE, NONEMPTY, TOP, TRUE, DefaultDomain, Interp, Result, State, exc, val
from ..astutil import FUNC_TYPES, attr_chain, dotted, norm
from ..loader import AnalysisError
from .common import REAL

FIELDS = ("id", "tags", "details", "status", "timestamps")
KEY = ("key",)
REC = ("rec",)
OREC = ("other-rec",)


class RecordDomain(DefaultDomain):
    track_lists = False
    exact_lists = True

    def __init__(self, classes):
        self.classes = classes
        self.rec_cls = classes.get(REAL, "_TestRecord")
        self.reports = []

    # -- values -------------------------------------------------------------------------
    def constant(self, node):
        if node.value is None:
            return NONE
        if node.value is True:
            return TRUE
        if node.value is False:
            return FALSE
        return ("const", node.value)

    def truth(self, v):
        if isinstance(v, tuple) and v:
            if v[0] == "const":
                return "T" if v[1] else "F"
            if v[0] == "tbl":
                return "T" if (v[1] or v[2]) else "F"
            if v[0] == "tags":
                return "F" if v[1] == "empty" else "T"
            if v[0] in ("sym", "rec", "other-rec", "okey", "key", "tuple", "ctype", "content-of"):
                return "T" if v[0] != "tuple" or len(v) > 1 else "F"
            if v[0] == "bytes":
                return "T" if v[1] else "F"
            if v[0] == "files":
                return "T" if v[1] else "F"
            if v[0] == "kwdict":
                return "T" if v[1] else "F"
        return super().truth(v)

    def is_none(self, v):
        if isinstance(v, tuple) and v and v[0] in ("const", "tbl", "sym", "rec", "other-rec", "okey", "key", "tuple", "ctype", "content-of", "tags", "bytes", "files", "kwdict"):
            return "F"
        return super().is_none(v)

    def compare(self, op, left, right):
        if isinstance(op, (ast.In, ast.NotIn)):
            hit = None
            if isinstance(right, tuple) and right[:1] == ("tbl",):
                hit = bool(right[1])   # one key is followed: whatever is looked up in the table is that key
            if isinstance(right, tuple) and right[:1] == ("files",):
                hit = any(e[0] == left for e in right[1])
            if hit is not None:
                return "T" if hit == isinstance(op, ast.In) else "F"
        if isinstance(op, (ast.Eq, ast.NotEq)) and isinstance(left, tuple) and isinstance(right, tuple) and left[:1] == ("const",) and right[:1] == ("const",):
            return "T" if (left == right) == isinstance(op, ast.Eq) else "F"
        return None

    # -- the record's fields and the table -----------------------------------------------------
    def _is_rec_frame(self, fr):
        return fr.receiver is self.rec_cls and fr.selfname is not None

    def load_attr(self, chain, st, fr):
        if not all(isinstance(c, str) for c in chain):
            return None
        if chain == ["self", "_inprogress"]:
            return ("tbl", st.get("tbl", False), st.get("others", False))
        if len(chain) == 1 and chain[0] == "self" and self._is_rec_frame(fr):
            return REC
        if len(chain) == 2 and chain[1] in FIELDS:
            base_is_rec = (chain[0] == "self" and self._is_rec_frame(fr)) or st.get(fr.local(chain[0]), None) == REC
            if base_is_rec:
                return st.get("rec." + chain[1], TOP)
        if chain == ["_TestRecord"] or (len(chain) == 1 and chain[0] == "cls" and fr.receiver is self.rec_cls):
            return ("cls", "_TestRecord")
        return None

    def store_attr(self, key, value, st, fr):
        # key is "self.<attr>" for assignments through the frame's self
        if key.startswith("self.") and key[5:] in FIELDS and self._is_rec_frame(fr):
            if key[5:] == "details" and value == EMPTY:
                value = ("files", ())
            return st.set("rec." + key[5:], value)
        if key == "self._inprogress":
            return st.set("tbl", False)
        return None

    def store_attr_on(self, base, attr, value, st, fr):
        # <local holding the record>.<field> = value
        if base == REC and attr in FIELDS:
            if attr == "details" and value == EMPTY:
                value = ("files", ())
            return st.set("rec." + attr, value)
        return None

    def subscript(self, base, idx, st, fr):
        if isinstance(base, tuple) and base[:1] == ("tbl",):
            return REC
        if isinstance(base, tuple) and base[:1] == ("files",):
            return ("content-of", idx)
        if isinstance(base, tuple) and base[:1] == ("kwdict",) and isinstance(idx, tuple) and idx[:1] == ("const",):
            for k, v in base[1]:
                if k == idx[1]:
                    return v
        return None

    def store_subscript(self, target, value, st, fr, interp):
        for r in interp.eval_list([target.value, target.slice], st, fr):
            if r.kind != "val":
                continue
            base, idx = r.value
            if isinstance(base, tuple) and base[:1] == ("tbl",):
                s2 = r.state.set("ev.key", idx)
                return s2.set("tbl", True) if value == REC else s2.set("ev.problem", "something that is not the record is stored in the in-progress table")
            if isinstance(base, tuple) and base[:1] == ("files",):
                return self._put_file(r.state, idx, value)
            return r.state
        return st

    @staticmethod
    def _put_file(st, name, content):
        files = st.get("rec.details", ("files", ()))
        entries = tuple(e for e in files[1] if e[0] != name)
        mime = content[1] if isinstance(content, tuple) and content[:1] == ("content",) else ("?",)
        replaced = any(e[0] == name for e in files[1])
        st = st.set("rec.details", ("files", entries + ((name, mime, ()),)))
        if replaced:
            st = st.set("ev.replaced_file", 1)
        return st

    # -- calls --------------------------------------------------------------------------
    def iter_exact(self, value):
        if isinstance(value, tuple) and value[:1] == ("kwitems",):
            return [("tuple", ("const", k), v) for k, v in value[1]]
        return None

    def call(self, interp, call, st, fr):
        f = call.func
        d = dotted(f) or ""
        exprs = [a.value if isinstance(a, ast.Starred) else a for a in call.args] + [k.value for k in call.keywords]

        def with_args(k):
            out = []
            for r in interp.eval_list(exprs, st, fr):
                if r.kind == "exc":
                    out.append(r)
                else:
                    pos = list(r.value[: len(call.args)])
                    kw = {kk.arg: v for kk, v in zip(call.keywords, r.value[len(call.args):]) if kk.arg}
                    out.extend(k(r.state, pos, kw))
            return out

        if d == "self.on_test":
            def report(s, pos, kw):
                arg = pos[0] if pos else None
                if arg == OREC:
                    return [val(NONE, s.set("ev.other_reports", min(s.get("ev.other_reports", 0) + 1, 2)))]
                snap = ("report", s.get("rec.id", TOP), s.get("rec.status", TOP), s.get("rec.tags", TOP), s.get("rec.timestamps", TOP), s.get("rec.details", TOP),
                        "record" if arg == REC else repr(arg)[:40], s.get("tbl", False))
                return [val(NONE, s.set("ev.reports", s.get("ev.reports", ()) + (snap,)))]
            return with_args(report)
        if d == "_make_content_type":
            return with_args(lambda s, pos, kw: [val(("ctype", pos[0] if pos else TOP), s)])
        if d.split(".")[-1] == "Content" and len(call.args) == 2:
            return [r if r.kind == "exc" else val(("content", r.value), r.state) for r in interp.eval(call.args[0], st, fr)]
        if d in ("set", "dict", "list") and not call.args:
            return [val(("tags", "empty") if d == "set" else ("files", ()) if d == "dict" else EMPTY, st)]
        if d == "setattr" and len(call.args) == 3:
            def do_set(s, pos, kw):
                if pos[0] == REC and isinstance(pos[1], tuple) and pos[1][:1] == ("const",) and pos[1][1] in FIELDS:
                    return [val(NONE, s.set("rec." + pos[1][1], pos[2]))]
                return [val(NONE, s)]
            return with_args(do_set)
        if d == "getattr" and len(call.args) >= 2:
            def do_get(s, pos, kw):
                if pos[0] == REC and isinstance(pos[1], tuple) and pos[1][:1] == ("const",) and pos[1][1] in FIELDS:
                    return [val(s.get("rec." + pos[1][1], TOP), s)]
                return [val(TOP, s)]
            return with_args(do_get)
        if isinstance(f, ast.Attribute):
            # operations on the table, on attachments, on kwargs dicts, and method calls on the record
            out = []
            for r0 in interp.eval(f.value, st, fr):
                if r0.kind == "exc":
                    out.append(r0)
                    continue
                base = r0.value
                if isinstance(base, tuple) and base[:1] == ("tbl",):
                    for r in interp.eval_list(exprs, r0.state, fr):
                        if r.kind == "exc":
                            out.append(r)
                        elif f.attr == "pop":
                            out.append(val(REC, r.state.set("tbl", False)) if base[1] else exc(("exc", "KeyError"), r.state))
                        elif f.attr == "popitem":
                            # the followed key, or one of the other tests still in progress (after which more may or may not remain)
                            if base[1]:
                                out.append(val(("tuple", KEY, REC), r.state.set("tbl", False)))
                            if base[2]:
                                out.append(val(("tuple", ("okey",), OREC), r.state.set("others", False)))
                                out.append(val(("tuple", ("okey",), OREC), r.state))
                            if not base[1] and not base[2]:
                                out.append(exc(("exc", "KeyError"), r.state))
                        elif f.attr == "get":
                            out.append(val(REC if base[1] else (r.value[1] if len(r.value) > 1 else NONE), r.state))
                        elif f.attr == "setdefault":
                            out.append(val(REC, r.state.set("tbl", True)))
                        elif f.attr in ("values", "items", "keys"):
                            entries = ([(KEY, REC)] if base[1] else []) + ([(("okey",), OREC)] if base[2] else [])
                            pick = {"values": lambda e: e[1], "keys": lambda e: e[0], "items": lambda e: ("tuple", e[0], e[1])}[f.attr]
                            out.append(val(("tuple",) + tuple(pick(e) for e in entries), r.state))
                        elif f.attr == "clear":
                            out.append(val(NONE, r.state.set("tbl", False).set("others", False)))
                        else:
                            out.append(val(TOP, r.state))
                    continue
                if isinstance(base, tuple) and base[:1] == ("content-of",) and f.attr == "iter_bytes":
                    out.append(val(("chunks-of", base[1]), r0.state))
                    continue
                if isinstance(base, tuple) and base[:1] == ("chunks-of",) and f.attr == "append" and len(call.args) == 1:
                    for r in interp.eval(call.args[0], r0.state, fr):
                        if r.kind == "exc":
                            out.append(r)
                            continue
                        files = r.state.get("rec.details", ("files", ()))
                        new = tuple((e[0], e[1], e[2] + (r.value,)) if e[0] == base[1] else e for e in files[1])
                        out.append(val(NONE, r.state.set("rec.details", ("files", new))))
                    continue
                if isinstance(base, tuple) and base[:1] == ("kwdict",) and f.attr == "items":
                    out.append(val(("kwitems", base[1]), r0.state))
                    continue
                if base == OREC:
                    for r in interp.eval_list(exprs, r0.state, fr):
                        out.append(r if r.kind == "exc" else val(OREC, r.state))
                    continue
                if base == REC or (isinstance(base, tuple) and base[:1] == ("cls",)):
                    owner, m = self.classes.resolve_method(self.rec_cls, f.attr)
                    if isinstance(m, FUNC_TYPES) and owner is not None and not owner.external:
                        is_cm = any(dotted(x) == "classmethod" for x in m.decorator_list)
                        if is_cm:
                            out.extend(self._call_classmethod(interp, m, call, r0.state, fr))
                        else:
                            out.extend(interp.call_function(m, call, r0.state, fr, receiver=self.rec_cls, bind_self=True))
                        continue
                hit = interp.auto_inline(call, r0.state, fr, self.classes)
                if hit is not None:
                    out.extend(hit)
                else:
                    for r in interp.eval_list(exprs, r0.state, fr):
                        out.append(r if r.kind == "exc" else val(TOP, r.state))
            return out
        if isinstance(f, ast.Name):
            v = st.get(fr.local(f.id), None) if st.has(fr.local(f.id)) else self.load_attr([f.id], st, fr)
            if isinstance(v, tuple) and v[:1] == ("cls",):
                owner, init = self.classes.resolve_method(self.rec_cls, "__init__")
                if isinstance(init, FUNC_TYPES):
                    return [Result(r.kind, REC if r.kind == "val" else r.value, r.state) for r in interp.call_function(init, call, st, fr, receiver=self.rec_cls, bind_self=True)]
        hit = interp.auto_inline(call, st, fr, self.classes)
        if hit is not None:
            return hit
        return with_args(lambda s, pos, kw: [val(TOP, s)])

    def _call_classmethod(self, interp, m, call, st, fr):
        # bind cls explicitly: the first parameter of a classmethod
        params = [p.arg for p in m.args.args]
        out = []
        pos = [a for a in call.args if not isinstance(a, ast.Starred)]
        for r in interp.eval_list(pos + [k.value for k in call.keywords], st, fr):
            if r.kind == "exc":
                out.append(r)
                continue
            argv = {params[0]: ("cls", "_TestRecord")}
            for i, v in enumerate(r.value[: len(pos)]):
                if i + 1 < len(params):
                    argv[params[i + 1]] = v
            for k, v in zip(call.keywords, r.value[len(pos):]):
                if k.arg:
                    argv[k.arg] = v
            out.extend(interp.inline(m, argv, r.state, fr, receiver=self.rec_cls, is_method=False))
        return out


def _keep(st):
    return State([(k, v) for k, v in st.items if k.startswith(("rec.", "ev.")) or k in ("tbl", "others")])


def run_history(ctx, events, stop=True, others=False):
    """Feed ``events`` (dicts of status() keyword values) to a fresh _StreamToTestRecord, then
    stopTestRun if asked; -> list of final States (normal paths only) and the number of paths lost
    to exceptions."""
    classes = ctx.classes
    cons = classes.get(REAL, "_StreamToTestRecord")
    dom = RecordDomain(classes)

    def go(name, argv, st):
        owner, f = classes.resolve_method(cons, name)
        if not isinstance(f, FUNC_TYPES):
            raise AnalysisError(f"anchor vanished: _StreamToTestRecord.{name}")
        it = Interp(dom, max_depth=8)
        res = it.analyze(f, argv, st, receiver=cons, name=name)
        ctx.stats["states"] += it.steps
        for fn in it.functions:
            ctx.analysed(fn)
        return res

    states = [State([("tbl", False), ("ev.reports", ())])]
    lost = 0
    nxt = []
    for s in states:
        for r in go("startTestRun", {}, s):
            if r.kind == "val":
                nxt.append(_keep(r.state))
            else:
                lost += 1
    # other tests, not followed individually, may be in progress as well
    states = [s.set("others", True) for s in nxt] if others else nxt
    for ev in events:
        nxt = []
        for s in states:
            for r in go("status", dict(ev), s):
                if r.kind == "val":
                    nxt.append(_keep(r.state))
                else:
                    lost += 1
        states = list(dict.fromkeys(nxt))
    if stop:
        nxt = []
        for s in states:
            for r in go("stopTestRun", {}, s):
                if r.kind == "val":
                    nxt.append(_keep(r.state))
                else:
                    lost += 1
        states = list(dict.fromkeys(nxt))
    return states, lost


def event(test_id=("sym", "T"), status=NONE, tags=NONE, file_name=NONE, file_bytes=NONE, mime=NONE, ts=NONE, route=("sym", "R")):
    return {"test_id": test_id, "test_status": status, "test_tags": tags, "runnable": TRUE, "file_name": file_name, "file_bytes": file_bytes,
            "eof": FALSE, "mime_type": mime, "route_code": route, "timestamp": ts}
