"""Tables shared by C09 and C10: method -> status, status -> method, status -> bucket."""

import ast

from ..astutil import FUNC_TYPES, dotted, walk_shallow
from ..loader import AnalysisError
from .common import REAL, str_const

OUTCOMES = ["addError", "addFailure", "addSuccess", "addSkip", "addExpectedFailure", "addUnexpectedSuccess"]


def module_const_set(module, name):
    """Evaluate simple module-level frozenset([...]) / set algebra of string constants."""
    env = {}
    for s in module.tree.body:
        if isinstance(s, ast.Assign) and isinstance(s.targets[0], ast.Name):
            v = _eval(s.value, env)
            if v is not None:
                env[s.targets[0].id] = v
    return env.get(name)


def _eval(e, env):
    if isinstance(e, ast.Call) and dotted(e.func) in ("frozenset", "set") and len(e.args) == 1 and isinstance(e.args[0], (ast.List, ast.Tuple, ast.Set)):
        out = set()
        for x in e.args[0].elts:
            if isinstance(x, ast.Constant):
                out.add(x.value)
            else:
                return None
        return frozenset(out)
    if isinstance(e, ast.BinOp) and isinstance(e.op, ast.BitOr):
        l, r = _eval(e.left, env), _eval(e.right, env)
        if l is not None and r is not None:
            return l | r
    if isinstance(e, ast.Name):
        return env.get(e.id)
    return None


def method_to_status(ctx):
    """ExtendedToStreamDecorator: outcome method -> status literal passed to _convert."""
    classes = ctx.classes
    etsd = classes.get(REAL, "ExtendedToStreamDecorator")
    out = {}
    for m in OUTCOMES:
        owner, f = classes.resolve_method(etsd, m)
        if not isinstance(f, FUNC_TYPES):
            raise AnalysisError(f"anchor vanished: ExtendedToStreamDecorator.{m}")
        calls = [c for c in walk_shallow(f, include_self=False) if isinstance(c, ast.Call) and dotted(c.func) == "self._convert"]
        if len(calls) != 1 or len(calls[0].args) < 4:
            raise AnalysisError(f"ExtendedToStreamDecorator.{m} no longer makes one self._convert(test, err, details, status) call")
        out[m] = (str_const(calls[0].args[3]), calls[0], f)
    return out


def status_map(ctx):
    m = ctx.repo.module(REAL)
    for s in m.tree.body:
        if isinstance(s, ast.Assign) and dotted(s.targets[0]) == "_status_map" and isinstance(s.value, ast.Dict):
            return {str_const(k): str_const(v) for k, v in zip(s.value.keys, s.value.values)}, s
    raise AnalysisError("anchor vanished: real._status_map")


def handle_status_table(ctx):
    ss = ctx.classes.get(REAL, "StreamSummary")
    init = ss.own_method("__init__")
    for n in ast.walk(init):
        if isinstance(n, ast.Assign) and dotted(n.targets[0]) == "self._handle_status" and isinstance(n.value, ast.Dict):
            return {str_const(k): (dotted(v) or "").split(".")[-1] for k, v in zip(n.value.keys, n.value.values)}, n
    raise AnalysisError("anchor vanished: StreamSummary._handle_status")
