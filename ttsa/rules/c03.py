"""C03 -- reported outcome is sound: success means nothing raised; failures never masked."""

import ast

from ..astutil import FUNC_TYPES, attr_chain, dotted, norm, walk_shallow
from ..cfg import live_nodes, node_calls
from ..loader import AnalysisError
from . import runmodel
from .common import literal_elements, RUNTEST, TESTCASE, cfg_of, has_kw, kw_value, nodes_calling, own_method
from .runmodel import RERAISE, SENT, USER_EXC

EXPLANATION = (
    "R-SUCCESS-GUARD: in the abstract run of RunTest (see C01; user code symbolic) no exit state "
    "combines a delivered addSuccess with a caught user exception or a forced failure, and every "
    "non-framework exit on which user code raised reports through a handler. R-HANDLER-TABLE: the "
    "classes of TestCase.exception_handlers are resolved through the parsed class tables: no entry is "
    "shadowed by an earlier superclass entry, the last entry is exactly Exception (so other "
    "BaseExceptions fall to last_resort and are re-raised), each handler resolves to a _report_* whose "
    "body calls the result method of the same kind exactly once, last_resort is _report_error and "
    "onException's no-traceback list equals the three signal classes. R-FIRST-MATCH: the dispatch walks "
    "self.handlers in list order with isinstance and leaves at the first match. R-NEVER-MASKED: "
    "the dispatch must inspect the whole recorded list (one-element accessors let a later skip mask an "
    "earlier failure). R-EXPECT-FORCES: expectThat's mismatch arm sets force_failure and cannot raise; "
    "the forced failure is raised through the recorder before the success decision."
)

BUILTIN_BASES = {
    "Exception": "BaseException", "AssertionError": "Exception", "KeyboardInterrupt": "BaseException",
    "SystemExit": "BaseException", "ValueError": "Exception", "TypeError": "Exception", "BaseException": None,
}
KIND_OF_HANDLER = {
    "_report_skip": "addSkip", "_report_failure": "addFailure", "_report_expected_failure": "addExpectedFailure",
    "_report_unexpected_success": "addUnexpectedSuccess", "_report_error": "addError",
}


def run(ctx):
    ctx.rule("R-SUCCESS-GUARD", "addSuccess is never delivered on a path where user code raised or a failure was forced")
    ctx.rule("R-HANDLER-TABLE", "exception_handlers: no shadowing, Exception last, each handler reports the matching outcome once")
    ctx.rule("R-FIRST-MATCH", "handlers are tried in list order; the first isinstance match wins")
    ctx.rule("R-EXPECT-FORCES", "expectThat sets force_failure without raising; the forced failure is recorded before the success decision")
    classes = ctx.classes
    rt = classes.get(RUNTEST, "RunTest")
    tc = classes.get(TESTCASE, "TestCase")
    Q = f"{RUNTEST}:RunTest"

    # ------------------------------------------------------------------ success guard (abstract run with extra monitors)
    class Dom(runmodel.RunDomain):
        def _result_event(self, m, call, st):
            out = super()._result_event(m, call, st)
            if m == "addSuccess":
                out = [type(r)(r.kind, r.value, r.state.set("ev.success", min(r.state.get("ev.success", 0) + 1, 2))) if r.kind == "val" or True else r for r in out]
            return out

        def _inline_call(self, interp, f, call, st, fr, skip_self):
            if f.name == "_got_user_exception" and fr.name != "_got_user_exception":
                st = st.set("ev.raised", 1)
            return super()._inline_call(interp, f, call, st, fr, skip_self)

    owner, f = classes.resolve_method(rt, "_run_prepared_result")
    from ..absint import NOTNONE, Interp
    dom = Dom(classes, rt, record_stages=False)
    it = Interp(dom, max_depth=10 if ctx.tier == "quick" else 14)
    res = it.analyze(f, {"result": NOTNONE}, runmodel.initial_state(), receiver=rt, name="_run_prepared_result")
    for fn in it.functions:
        ctx.analysed(fn)
    ctx.stats["states"] += it.steps
    sigs = {}
    for r in res:
        d = r.state.as_dict()
        key = (r.kind == "val" or r.value == RERAISE, d.get("ev.success", 0), d.get("ev.raised", 0), d.get("ev.outcomes", 0), d.get("ev.phantom", 0))
        sigs.setdefault(key, r)
    for (clean, success, raised, outcomes, phantom), r in sorted(sigs.items(), key=lambda kv: repr(kv[0])):
        label = f"exit [{'normal' if clean else 'framework exception'} success={success} user-raised={raised} outcomes={outcomes}{' unrecorded-sentinel' if phantom else ''}]"
        if not clean:
            # a result method or an addOnException handler raised: documented to abort the
            # run; what is reported on the way out is outside the property's statement
            if success >= 1 and raised == 1:
                ctx.note("observation (not a violation): when an addOnException handler raises while a stage's failure is being "
                         "recorded, the remaining stages still run and addSuccess can be delivered before the handler's exception propagates")
            continue
        ok = not (success >= 1 and raised == 1) and success <= 1
        ctx.check("R-SUCCESS-GUARD", label, own_method(ctx, RUNTEST, "RunTest", "_run_core"), ok,
                  "a run can report addSuccess although a stage raised (or the failure was forced): a failure would be masked as success",
                  path=runmodel.fmt_log(r.state), construct=f"{Q}._run_core::success={success} raised={raised}")
        if clean and raised == 1 and not phantom:
            ctx.check("R-SUCCESS-GUARD", label + " reports through a handler", rt.node, outcomes == 1 and success == 0,
                      "a run in which user code raised ends without exactly one non-success outcome",
                      path=runmodel.fmt_log(r.state), construct=f"{Q}::raised-outcomes={outcomes}-success={success}")
    ctx.floor("R-SUCCESS-GUARD", 5, "abstract exit signatures")

    # ------------------------------------------------------------------ failures are never masked by what a later stage raises
    ctx.rule("R-NEVER-MASKED", "once a failure / error was raised, a later skip / expected failure cannot select the outcome")
    kres, kint = runmodel.analyse_kinds(ctx, rt, kinds=("bad", "soft") if ctx.tier == "quick" else runmodel.KINDS)
    pairs = {}
    n_fail_exits = 0
    for r in kres:
        st_ = r.state
        framework = r.kind == "exc" and isinstance(r.value, tuple) and r.value and r.value[0] == "framework"
        if framework or st_.get("ev.phantom", 0):
            continue
        firsts = [x for x in (st_.get("exc.bad", None), st_.get("exc.base", None)) if x is not None]
        if not firsts:
            continue
        n_fail_exits += 1
        # the exception handed to a handler (absent when a non-Exception propagated instead)
        last = st_.get("ev.dispatched", None) or ("propagates", st_.get("exc.last", ("?", "?"))[1])
        masked = last[0] == "soft"
        for first in firsts:
            pairs.setdefault((first, last[1], masked), r)
    for (first, last_stage, masked), r in sorted(pairs.items(), key=repr):
        ctx.check("R-NEVER-MASKED", f"failure/error raised in {first}, outcome selected by the exception from {last_stage}: {'MASKED by a skip / expected failure' if masked else 'outcome stays failing'}",
                  own_method(ctx, RUNTEST, "RunTest", "_run_prepared_result"), not masked,
                  f"a failure or error raised in {first} is downgraded when {last_stage} raises a skip or an expected failure afterwards: the outcome is selected from the last "
                  "recorded exception alone, so the run is reported as skip / expected failure",
                  path=runmodel.fmt_log(r.state), construct=f"{Q}._run_prepared_result::failure from {first} masked by soft exception from {last_stage}")
    ctx.check("R-NEVER-MASKED", f"{n_fail_exits} abstract exits with a failing exception recorded examined", rt.node, n_fail_exits >= 10, "implausibly few exits", examined=len(kres),
              construct=f"{Q}::kind-exits")

    # ------------------------------------------------------------------ handler table
    init = own_method(ctx, TESTCASE, "TestCase", "__init__")
    table = None
    for n in walk_shallow(init, include_self=False):
        if isinstance(n, ast.Assign) and dotted(n.targets[0]) == "self.exception_handlers" and isinstance(n.value, ast.List):
            table = n
    if table is None:
        raise AnalysisError("anchor vanished: TestCase.__init__ no longer builds self.exception_handlers as a list display")
    entries = []
    for e in table.value.elts:
        if not (isinstance(e, ast.Tuple) and len(e.elts) == 2):
            raise AnalysisError("exception_handlers entry is not a (class, handler) pair")
        entries.append((e.elts[0], e.elts[1]))

    def resolve_class_expr(expr):
        """-> (display name, chain of base names up to BaseException)"""
        ch = attr_chain(expr)
        name = None
        if ch and ch[0] == "self" and len(ch) == 2:
            o = classes.resolve_attr_owner(tc, ch[1])
            if o is not None:
                v = o.attrs.get(ch[1])
                name = dotted(v) if v is not None else None
        elif ch and len(ch) == 1:
            name = ch[0]
        if name is None:
            return norm(expr), None
        chain = [name]
        cur = name
        for _ in range(8):
            if cur in BUILTIN_BASES:
                nxt = BUILTIN_BASES[cur]
            else:
                ci = classes.lookup(tc.module, cur) or (classes.find(cur) or [None])[0]
                nxt = None
                if ci is not None and ci.base_exprs:
                    nxt = dotted(ci.base_exprs[0])
                    nxt = nxt.split(".")[-1] if nxt else None
                elif cur == "SkipTest":
                    nxt = "Exception"
            if nxt is None:
                break
            chain.append(nxt)
            cur = nxt
        return name, chain

    resolved = []
    for cexpr, hexpr in entries:
        name, chain = resolve_class_expr(cexpr)
        resolved.append((name, chain, cexpr, hexpr))
        ctx.check("R-HANDLER-TABLE", f"entry class {norm(cexpr)} resolves ({' < '.join(chain) if chain else '?'})", cexpr, chain is not None and chain[-1] == "BaseException",
                  f"cannot resolve the class hierarchy of {norm(cexpr)}", construct=f"{TESTCASE}:TestCase.__init__::entry {norm(cexpr)}")
    for i, (name, chain, cexpr, hexpr) in enumerate(resolved):
        if not chain:
            continue
        shadow = [resolved[j][0] for j in range(i) if resolved[j][0] in chain[1:] or resolved[j][0] == name]
        ctx.check("R-HANDLER-TABLE", f"entry {i} ({name}) is not shadowed by an earlier entry", cexpr, not shadow,
                  f"{name} comes after its superclass {shadow}: its handler can never run, e.g. a skip would be reported as an error",
                  construct=f"{TESTCASE}:TestCase.__init__::shadow {name}")
    last = resolved[-1][0] if resolved else None
    ctx.check("R-HANDLER-TABLE", "last entry is exactly Exception", table, last == "Exception",
              f"the catch-all entry is {last}: with BaseException, KeyboardInterrupt would be handled and not re-raised; with anything narrower, ordinary errors would abort the run",
              construct=f"{TESTCASE}:TestCase.__init__::last-entry")
    want = [("SkipTest", "_report_skip"), ("AssertionError", "_report_failure"), ("_ExpectedFailure", "_report_expected_failure"),
            ("_UnexpectedSuccess", "_report_unexpected_success"), ("Exception", "_report_error")]
    got = [(name, (dotted(h) or "").split(".")[-1]) for name, chain, c, h in resolved]
    for w in want:
        ctx.check("R-HANDLER-TABLE", f"{w[0]} -> {w[1]}", table, w in got, f"handler table maps {dict(got).get(w[0])} to {w[0]} (documented: {w[1]})",
                  construct=f"{TESTCASE}:TestCase.__init__::map {w[0]}")
    for hname, result_method in KIND_OF_HANDLER.items():
        hf = tc.own_method(hname)
        if hf is None:
            raise AnalysisError(f"anchor vanished: TestCase.{hname}")
        ctx.analysed(hf)
        rp = hf.args.args[1].arg if len(hf.args.args) > 1 else "result"
        calls = [c for c in walk_shallow(hf, include_self=False) if isinstance(c, ast.Call) and isinstance(c.func, ast.Attribute) and dotted(c.func.value) == rp]
        names = [c.func.attr for c in calls]
        g = cfg_of(ctx, hf)
        lv = live_nodes(g)
        hit = nodes_calling(g, lambda c: isinstance(c.func, ast.Attribute) and dotted(c.func.value) == rp and c.func.attr == result_method, lv)
        once = len(hit) == 1 and g.escape_path([g.entry], set(hit), targets=[g.exit_return]) is None
        ctx.check("R-HANDLER-TABLE", f"TestCase.{hname} reports {result_method} exactly once", hf, names == [result_method] and once,
                  f"{hname} calls {names} on the result (must be exactly one {result_method} on every path)",
                  construct=f"{TESTCASE}:TestCase.{hname}::reports")
    run_f = own_method(ctx, TESTCASE, "TestCase", "run")
    lr = [kw_value(c, "last_resort") for c in walk_shallow(run_f, include_self=False) if isinstance(c, ast.Call) and has_kw(c, "last_resort")]
    ctx.check("R-HANDLER-TABLE", "last_resort is _report_error", run_f, bool(lr) and all(dotted(x) == "self._report_error" for x in lr),
              "non-Exception errors would not be reported as errors before being re-raised", construct=f"{TESTCASE}:TestCase.run::last_resort")
    onex = own_method(ctx, TESTCASE, "TestCase", "onException")
    quiet = None
    for n in walk_shallow(onex, include_self=False):
        if isinstance(n, ast.Compare) and isinstance(n.ops[0], (ast.NotIn, ast.In)):
            elts = literal_elements(n.comparators[0], n)
            if elts is not None:
                quiet = {resolve_class_expr(e)[0] for e in elts}
    ctx.check("R-HANDLER-TABLE", "onException suppresses tracebacks for exactly the three signal classes", onex,
              quiet == {"SkipTest", "_UnexpectedSuccess", "_ExpectedFailure"},
              f"no-traceback list is {sorted(quiet) if quiet else quiet}", construct=f"{TESTCASE}:TestCase.onException::quiet-list")

    # ------------------------------------------------------------------ first match / all considered
    rpr = own_method(ctx, RUNTEST, "RunTest", "_run_prepared_result")
    # decided on the abstract run with a symbolic three-entry table (any code shape: loop, helper, two passes)
    for label, suffix, ok, msg, r in runmodel.dispatch_verdicts(ctx, rt):
        ctx.check("R-FIRST-MATCH", label, rpr, ok,
                  "the dispatch does not report through the first entry of self.handlers whose class matches (user-inserted handlers would lose precedence): " + msg,
                  path=runmodel.fmt_log(r.state) if r is not None else None, construct=f"{Q}._run_prepared_result::{suffix}")
    ctx.floor("R-FIRST-MATCH", 20, "table relations")
    init_rt = own_method(ctx, RUNTEST, "RunTest", "__init__")
    ok = any(isinstance(n, ast.Assign) and dotted(n.targets[0]) == "self.handlers" and "handlers" in norm(n.value) and "sorted" not in norm(n.value) and "reversed" not in norm(n.value)
             for n in walk_shallow(init_rt, include_self=False))
    ctx.check("R-FIRST-MATCH", "RunTest keeps the handler list in the order given", init_rt, ok, "RunTest.__init__ reorders the handlers", construct=f"{Q}.__init__::order")
    # ------------------------------------------------------------------ expectThat forces failure
    # expectThat itself, on an abstract run with the matcher's verdict symbolic (shared with C07 R-ASSERT-IFF)
    from .c07 import verdict_outcomes
    et, outs = verdict_outcomes(ctx, "expectThat")
    for verdict, kind, forced in sorted(outs, key=repr):
        if verdict == "?":
            ok, msg = False, "a path of expectThat returns without having consulted matcher.match()"
        else:
            ok = kind == "val" and (forced == 1) == (verdict == "mismatch")
            msg = f"expectThat with verdict {verdict}: {'raises' if kind == 'exc' else 'returns'}, force_failure {'set' if forced else 'not set'} (a mismatch must set the flag and not raise; a match must do neither)"
        ctx.check("R-EXPECT-FORCES", f"expectThat: verdict={verdict} -> {'raise' if kind == 'exc' else 'return'}{' +force_failure' if forced else ''}", et, ok, msg,
                  construct=f"{TESTCASE}:TestCase.expectThat::verdict={verdict} kind={kind} forced={forced}")
    ctx.check("R-EXPECT-FORCES", "expectThat: both verdicts explored", et, {v for v, _, _ in outs} >= {"none", "mismatch"}, f"explored {sorted(outs)}", construct=f"{TESTCASE}:TestCase.expectThat::explored")
    # the runner side, decided on the abstract run (no particular statement layout is required):
    # whenever the flag is set -- or may be set because nothing examined it after the last user
    # stage -- the run ends unsuccessfully
    rc = own_method(ctx, RUNTEST, "RunTest", "_run_core")
    n_set = 0
    for label, suffix, ok, r in runmodel.force_verdicts(kres):
        n_set += label.startswith("force_failure set")
        ctx.check("R-EXPECT-FORCES", label, rc, ok,
                  "an expectThat mismatch (force_failure) does not make the finished test fail on this path: the run ends with "
                  "a success, a skip or an expected failure", path=runmodel.fmt_log(r.state), construct=f"{Q}._run_core::{suffix}")
    ctx.check("R-EXPECT-FORCES", "the abstract run reads force_failure and finds it set on some path", rc, n_set >= 1,
              "no path of the run examines case.force_failure", construct=f"{Q}._run_core::force-read")
    from .common import module_function
    rf = module_function(ctx, RUNTEST, "_raise_force_fail_error")
    ok = any(isinstance(n, ast.Raise) and n.exc is not None and "AssertionError" in norm(n.exc) for n in rf.body)
    ctx.check("R-EXPECT-FORCES", "the forced failure is an AssertionError (maps to failure)", rf, ok, "_raise_force_fail_error does not raise AssertionError", construct=f"{RUNTEST}:_raise_force_fail_error::kind")
    ctx.assume("isinstance/issubclass semantics of the exception classes follow the parsed class hierarchy")
