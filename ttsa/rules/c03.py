"""C03 -- reported outcome is sound: success means nothing raised; failures never masked."""

from ..absint import NONE, TRUE, heap_key, is_handle
from . import casemodel as cm
from .common import RUNTEST, TESTCASE

EXPLANATION = (
    "TestCase.run is followed as written (ttsa.rules.casemodel: real __init__, run, RunTest, the result adapter, the handler "
    "table built by TestCase.__init__ and the _report_* methods it names are interpreted by ttsa.objects); the user's setUp / "
    "test / tearDown / cleanup return or raise exceptions of every kind the handler table distinguishes (failure, error, skip, "
    "expected failure, unexpected success, KeyboardInterrupt) and of user-defined subclasses of those. R-SUCCESS-GUARD: over all "
    "combinations of stage outcomes the run reports addSuccess iff no stage raised; with force_failure set, or after an "
    "expectThat mismatch (the matcher is scripted: match() returns a mismatch), the test goes on, no exception leaves "
    "expectThat, and the finished test is reported as a failure. R-HANDLER-TABLE: one exception of each kind in each stage "
    "gives exactly the outcome its type maps to; subclasses follow their base. R-FIRST-MATCH: a (class, handler) pair the user "
    "puts first in exception_handlers is called instead of the built-in one, one put last is preceded by the built-in entries "
    "that match; the handler receives the case, the result and the exception. R-NEVER-MASKED: for every ordered pair of stages "
    "(same stage: a MultipleExceptions; two cleanups), a failure / error raised first and a skip / expected failure raised later "
    "must still give an outcome that makes the run unsuccessful. R-EXPECT-FORCES: see R-SUCCESS-GUARD (forced failure) -- "
    "the forced failure is raised last, after the cleanups, and is reported as a failure, not as an error."
)

STAGES4 = ("setUp", "test", "tearDown", "cleanup")
BAD, SOFT = ("fail", "error"), ("skip", "xfail")


def _script(raising, extra_test=(), extra=None):
    """``raising``: stage -> kind (or an exception value); ``extra``: stage -> actions done before it raises."""
    script = {"setUp": [("call", "addCleanup", [cm.user("cleanup")], [])], "test": list(extra_test), "tearDown": [], "cleanup": []}
    for stage, actions in (extra or {}).items():
        script[stage] = script[stage] + list(actions)
    for stage, kind in raising.items():
        script[stage].append(("raise", cm.raised(kind, stage) if isinstance(kind, str) else kind))
    return script


def _w(raising):
    return ", ".join(f"{s} raises {k if isinstance(k, str) else 'several'}" for s, k in raising.items()) or "nothing raises"


def check_success_guard(ctx, case):
    Q = f"{TESTCASE}:TestCase.run"
    kinds = (None, "fail", "error", "skip", "xfail", "uxsuccess")
    combos = []
    for su in kinds:
        if su is not None:
            combos.append({"setUp": su})
            continue
        for te in kinds:
            for td in ((None, "error", "skip") if ctx.tier == "thorough" else (None, "skip")):
                for cl in ((None, "fail", "xfail") if ctx.tier == "thorough" else (None, "xfail")):
                    combos.append({k: v for k, v in (("test", te), ("tearDown", td), ("cleanup", cl)) if v is not None})
    if ctx.tier != "thorough":
        combos = [c for i, c in enumerate(combos) if i % 2 == 0 or not c]
    for raising in combos:
        d, runs = cm.run_case(ctx, _script(raising))
        problems = set()
        for r in runs:
            ocs = cm.outcomes(r)
            if (ocs == ["addSuccess"]) != (not raising):
                problems.add(f"the outcomes are {ocs}" + ("; expected a success" if not raising else ": a stage raised, yet the test is reported as a success"))
            if len(ocs) != 1:
                problems.add(f"{len(ocs)} outcomes are reported ({ocs})")
        ctx.check("R-SUCCESS-GUARD", f"[{_w(raising)}] addSuccess iff nothing raised", case.node, bool(runs) and not problems, "; ".join(sorted(problems)) or "no path of run() was followed to its end",
                  examined=len(runs), construct=f"{Q}::success-guard {_w(raising)}")
    # several cleanups, not all of them failing: the run is unsuccessful whichever of them runs last
    for order in (("fails first", ["fail", None]), ("fails last", [None, "fail"]), ("fails in the middle", [None, "error", None])):
        label, kinds_ = order
        script = {"setUp": [("call", "addCleanup", [cm.user(f"cleanup{i}")], []) for i in reversed(range(len(kinds_)))], "test": [], "tearDown": []}
        for i, k in enumerate(kinds_):
            script[f"cleanup{i}"] = [("raise", cm.raised(k, f"cleanup{i}"))] if k else []   # cleanup0 runs first
        d, runs = cm.run_case(ctx, script)
        problems = set()
        for r in runs:
            ocs = cm.outcomes(r)
            if len(ocs) != 1 or ocs[0] not in cm.UNSUCCESSFUL:
                problems.add(f"with {len(kinds_)} cleanups of which one {label}, the outcomes are {ocs}; expected exactly one, unsuccessful")
            ran = [n for n in cm.names(r, ("user.",)) if n.startswith("user.cleanup")]
            if ran != [f"user.cleanup{i}" for i in range(len(kinds_))]:
                problems.add(f"the cleanups run are {ran}")
        ctx.check("R-SUCCESS-GUARD", f"[{len(kinds_)} cleanups, one {label}] one unsuccessful outcome, no success", case.node, bool(runs) and not problems, "; ".join(sorted(problems)) or "no path",
                  examined=len(runs), construct=f"{Q}::success-guard cleanups one {label}")
    ctx.floor("R-SUCCESS-GUARD", 12, "stage outcome combinations")


def check_forced(ctx, case, rule="R-EXPECT-FORCES"):
    """(Shared with C07, where the rule is called R-FORCE-HONOURED.)"""
    Q = f"{TESTCASE}:TestCase.expectThat"
    M, MM = ("wobj", "matcher"), ("wobj", "mismatch")
    answers = {"matcher.match": [("val", MM)], "mismatch.get_details": [("val", ("kwdict", ()))], "mismatch.describe": [("val", ("const", "it differs"))]}
    expect = ("call", "expectThat", [("sym", "matchee"), M], [])
    for where in ("setUp", "test", "tearDown", "cleanup"):
        script = _script({})
        script[where] = script[where] + [expect, ("call", "addCleanup", [cm.user("after_expect")], [])]
        d, runs = cm.run_case(ctx, script, answers=answers)
        problems = set()
        for r in runs:
            ocs = cm.outcomes(r)
            if ocs != ["addFailure"]:
                problems.add(f"an expectThat mismatch in {where} gives the outcomes {ocs}; expected one failure once the test has finished")
            names = cm.names(r, ("user.",))
            if "user.after_expect" not in names:
                problems.add(f"the code after the failed expectThat does not run (user code called: {names}): expectThat must not raise")
            if where != "cleanup" and names[-1:] != ["user.after_expect"] and "user.cleanup" not in names:
                problems.add("the later stages do not run after the failed expectation")
            if r.kind != "val":
                problems.add(f"run() raises {r.value!r}")
        ctx.check(rule, f"an expectThat mismatch in {where}: the stage goes on, the finished test is a failure", case.node, bool(runs) and not problems,
                  "; ".join(sorted(problems)) or "no path", examined=len(runs), construct=f"{Q}::mismatch in {where}")
    # a matching expectThat changes nothing
    d, runs = cm.run_case(ctx, _script({}, extra_test=[expect]), answers={"matcher.match": [("val", NONE)]})
    bad = [cm.outcomes(r) for r in runs if cm.outcomes(r) != ["addSuccess"] or r.kind != "val"]
    ctx.check(rule, "an expectThat that matches leaves the test a success", case.node, bool(runs) and not bad, f"the outcomes are {bad}", examined=len(runs), construct=f"{Q}::match")
    # force_failure set directly, alone and with the same / later stages raising soft exceptions
    for where, raising in (("test", {}), ("test", {"tearDown": "skip"}), ("test", {"cleanup": "xfail"}), ("test", {"tearDown": "error"}), ("setUp", {"setUp": "skip"}), ("setUp", {"setUp": "error"}),
                           ("test", {"test": "skip"}), ("cleanup", {})):
        d, runs = cm.run_case(ctx, _script(raising, extra={where: [("set", "force_failure", TRUE)]}))
        problems = set()
        for r in runs:
            ocs = cm.outcomes(r)
            if len(ocs) != 1 or ocs[0] not in cm.UNSUCCESSFUL:
                problems.add(f"with force_failure set in {where} ({_w(raising)}) the outcomes are {ocs}; expected one that makes the run unsuccessful")
            if not raising and ocs != ["addFailure"]:
                problems.add(f"the forced failure is reported as {ocs}; expected a failure")
        ctx.check(rule, f"[force_failure set in {where}; {_w(raising)}] the finished test is unsuccessful", case.node, bool(runs) and not problems, "; ".join(sorted(problems)) or "no path",
                  examined=len(runs), construct=f"{RUNTEST}:RunTest._run_core::forced in {where}, {_w(raising)}")


def check_type_mapping(ctx, case):
    Q = f"{TESTCASE}:TestCase.run"
    kinds = ["fail", "error", "skip", "xfail", "uxsuccess", "skip-subclass", "fail-subclass", "xfail-subclass", "error-subclass"]
    for kind in kinds:
        stages = STAGES4 if ctx.tier == "thorough" or kind in ("fail", "skip", "xfail") else ("test", "cleanup")
        for stage in stages:
            d, runs = cm.run_case(ctx, _script({stage: kind}))
            want = [cm.KINDS[kind][1]]
            problems = {f"{cm.KINDS[kind][0]} raised by {stage} gives the outcomes {cm.outcomes(r)}; expected {want}" for r in runs if cm.outcomes(r) != want}
            problems |= {f"run() raises {r.value!r}" for r in runs if r.kind != "val"}
            ctx.check("R-HANDLER-TABLE", f"{cm.KINDS[kind][0]} raised by {stage} is reported with {want[0]}", case.node, bool(runs) and not problems, "; ".join(sorted(problems)) or "no path",
                      examined=len(runs), construct=f"{Q}::maps {kind} in {stage}")
    # exceptions made without arguments map like the others
    for kind in ("skip", "xfail", "fail", "error"):
        d, runs = cm.run_case(ctx, _script({"test": cm.raised(kind, "test", args=())}))
        want = [cm.KINDS[kind][1]]
        problems = {f"{cm.KINDS[kind][0]}() (no arguments) raised by the test gives the outcomes {cm.outcomes(r)}; expected {want}" for r in runs if cm.outcomes(r) != want or r.kind != "val"}
        ctx.check("R-HANDLER-TABLE", f"{cm.KINDS[kind][0]}() raised without arguments is reported with {want[0]}", case.node, bool(runs) and not problems, "; ".join(sorted(problems)) or "no path",
                  examined=len(runs), construct=f"{Q}::maps {kind} without arguments")
    # exceptions that are not Exceptions: no entry of the table matches; they are reported as errors (last resort) and re-raised
    for kind in ("interrupt", "exit"):
        for stage in (STAGES4 if ctx.tier == "thorough" else ("test", "cleanup")):
            d, runs = cm.run_case(ctx, _script({stage: kind}))
            problems = set()
            for r in runs:
                if cm.outcomes(r) != ["addError"]:
                    problems.add(f"the outcomes are {cm.outcomes(r)}; expected one error")
                if not (r.kind == "exc" and r.value[:2] == ("exc", cm.KINDS[kind][0])):
                    problems.add(f"run() {'returns' if r.kind == 'val' else 'raises ' + repr(r.value)}; expected the {cm.KINDS[kind][0]} to be re-raised")
            ctx.check("R-HANDLER-TABLE", f"{cm.KINDS[kind][0]} raised by {stage}: no handler entry matches; reported as an error and re-raised", case.node, bool(runs) and not problems,
                      "; ".join(sorted(problems)) or "no path", examined=len(runs), construct=f"{Q}::maps {kind} in {stage}")
    ctx.floor("R-HANDLER-TABLE", 15, "(kind, stage) pairs")


def _with_handler(runs, entry, first):
    """The runs after `case.exception_handlers.insert(0, entry)` / `.append(entry)` by the user."""
    out = []
    for r in runs:
        if r.kind != "val":
            out.append(r)
            continue
        st = cm.with_handler(r.state, entry, first)
        if st is None:
            return None
        out.append(type(r)(r.kind, r.value, st))
    return out


def check_user_handlers(ctx, case):
    Q = f"{TESTCASE}:TestCase.exception_handlers"
    H = cm.user("custom_handler")
    cases = [
        ("a handler for AssertionError put first", ("excclass", "AssertionError"), True, "fail", True),
        ("a handler for a user exception class put first", ("excclass", "CustomError"), True, "custom", True),
        ("a handler for a user exception class put first; another Exception raised", ("excclass", "CustomError"), True, "error", False),
        ("a handler for a user exception class (an Exception) put last", ("excclass", "CustomError"), False, "custom", False),
        ("a handler for SkipTest put last", ("excclass", "SkipTest"), False, "skip", False),
    ]
    for label, cls, first, kind, custom_wins in cases:
        d, runs = cm.new_case(ctx, _script({"test": kind}))
        runs = _with_handler(runs, ("tuple", cls, H), first)
        problems = set()
        if runs is None:
            problems.add("exception_handlers is not a list the user can insert into")
            runs = []
        runs = d.call(runs, "run", [cm.RESULT])
        d.done()
        for r in runs:
            called = [(pos, kw) for n, pos, kw in cm.events(r, ("user.custom_handler",))]
            ocs = cm.outcomes(r)
            if custom_wins:
                if len(called) != 1 or ocs:
                    problems.add(f"the user's handler is called {len(called)} time(s) and the built-in outcomes are {ocs}; expected the user's handler alone, once (it comes first in the list)")
                elif len(called[0][0]) != 3 or called[0][0][0] != ("self",) or called[0][0][2][:2] != ("exc", cm.KINDS[kind][0]):
                    problems.add(f"the user's handler is called with {called[0][0]!r}; expected (case, result, the exception)")
            else:
                if called or ocs != [cm.KINDS[kind][1]]:
                    problems.add(f"the user's handler is called {len(called)} time(s) and the outcomes are {ocs}; expected {[cm.KINDS[kind][1]]} from the entry that precedes it in the list")
        ctx.check("R-FIRST-MATCH", f"[{label}; the test raises {cm.KINDS[kind][0]}] the first entry of exception_handlers whose class matches reports", case.node, bool(runs) and not problems,
                  "; ".join(sorted(problems)) or "no path", examined=len(runs), construct=f"{Q}::{label} / {kind}")
    # the list is consulted when the outcome is chosen: an entry the user's own code inserts while the test runs (the documented
    # `self.exception_handlers.insert(...)` in setUp or in the test) decides like one put there before run()
    timed = [
        ("setUp puts a handler for AssertionError first", "setUp", ("excclass", "AssertionError"), True, "test", "fail", True),
        ("setUp puts a handler for SkipTest first", "setUp", ("excclass", "SkipTest"), True, "test", "skip", True),
        ("the test puts a handler for a user exception class first, a cleanup raises it", "test", ("excclass", "CustomError"), True, "cleanup", "custom", True),
        ("the test puts a handler for a user exception class first and raises it", "test", ("excclass", "CustomError"), True, "test", "custom", True),
        ("setUp appends a handler for SkipTest (after the built-in entry)", "setUp", ("excclass", "SkipTest"), False, "test", "skip", False),
    ]
    for label, inserter, cls, first, raiser, kind, custom_wins in timed:
        script = _script({raiser: kind})
        script[inserter] = [("handler", ("tuple", cls, H), first)] + list(script.get(inserter, ()))
        d, runs = cm.run_case(ctx, script)
        problems = set()
        for r in runs:
            called = [(pos, kw) for n, pos, kw in cm.events(r, ("user.custom_handler",))]
            ocs = cm.outcomes(r)
            if custom_wins and (len(called) != 1 or ocs):
                problems.add(f"the user's handler is called {len(called)} time(s) and the built-in outcomes are {ocs}; expected the user's handler alone, once (it is first in the list when the outcome is chosen)")
            if not custom_wins and (called or ocs != [cm.KINDS[kind][1]]):
                problems.add(f"the user's handler is called {len(called)} time(s) and the outcomes are {ocs}; expected {[cm.KINDS[kind][1]]} from the entry that precedes it")
        ctx.check("R-FIRST-MATCH", f"[{label}; {raiser} raises {cm.KINDS[kind][0]}] entries inserted while the test runs take part in list order", case.node, bool(runs) and not problems,
                  "; ".join(sorted(problems)) or "no path", examined=len(runs), construct=f"{Q}::{label} / {kind}")


def check_never_masked(ctx, case):
    Q = f"{RUNTEST}:RunTest._run_prepared_result"
    order = {s: i for i, s in enumerate(STAGES4)}
    for first in STAGES4:
        for later in STAGES4:
            if order[later] < order[first] or (first == "setUp" and later in ("test", "tearDown")):
                continue
            problems = set()
            n = 0
            for bad in BAD:
                for soft in (SOFT if ctx.tier == "thorough" or first == later else SOFT[:1]):
                    scripts = []
                    if first == later:
                        scripts.append(_script({first: cm.multi(first, cm.raised(bad, first + "-1"), cm.raised(soft, first + "-2"))}))
                        if first == "cleanup":
                            # two cleanups: the one that runs first fails, the one that runs later skips
                            s2 = _script({})
                            s2["setUp"] = [("call", "addCleanup", [cm.user("cleanup_late")], []), ("call", "addCleanup", [cm.user("cleanup")], [])]
                            s2["cleanup"] = [("raise", cm.raised(bad, "cleanup"))]
                            s2["cleanup_late"] = [("raise", cm.raised(soft, "cleanup_late"))]
                            scripts.append(s2)
                    else:
                        scripts.append(_script({first: bad, later: soft}))
                    for script in scripts:
                        d, runs = cm.run_case(ctx, script)
                        n += len(runs)
                        if not runs:
                            problems.add("no path of run() was followed to its end")
                        for r in runs:
                            ocs = cm.outcomes(r)
                            if len(ocs) != 1 or ocs[0] not in cm.UNSUCCESSFUL:
                                problems.add(f"{cm.KINDS[bad][0]} then {cm.KINDS[soft][0]}: the outcomes are {ocs}")
            same = first == later
            ctx.check("R-NEVER-MASKED", f"a failure / error raised in {first}, then a skip / expected failure raised in {later}{' (one MultipleExceptions, or two cleanups)' if same else ''}: "
                      "the outcome still makes the run unsuccessful", case.node, not problems,
                      f"a failure or error raised in {first} is downgraded when {later} raises a skip or an expected failure afterwards ({'; '.join(sorted(problems))}): the outcome is selected "
                      "from the last recorded exception alone", examined=n, construct=f"{Q}::failure from {first} masked by soft exception from {later}")
    ctx.floor("R-NEVER-MASKED", 8, "ordered stage pairs")
    # the other direction is fine and must stay so: a skip first, a failure later -> unsuccessful
    for first, later in (("test", "tearDown"), ("test", "cleanup"), ("setUp", "cleanup")):
        d, runs = cm.run_case(ctx, _script({first: "skip", later: "fail"}))
        bad_ = [cm.outcomes(r) for r in runs if len(cm.outcomes(r)) != 1 or cm.outcomes(r)[0] not in cm.UNSUCCESSFUL]
        ctx.check("R-NEVER-MASKED", f"a skip raised in {first}, then a failure raised in {later}: the run is unsuccessful", case.node, bool(runs) and not bad_, f"the outcomes are {bad_}",
                  examined=len(runs), construct=f"{Q}::skip in {first} then failure in {later}")


def run(ctx):
    ctx.rule("R-SUCCESS-GUARD", "addSuccess is reported iff no stage raised and no failure was forced")
    ctx.rule("R-HANDLER-TABLE", "one exception of each kind (and of subclasses) in each stage gives the outcome its type maps to")
    ctx.rule("R-FIRST-MATCH", "handlers are tried in list order; user-inserted entries take part in that order")
    ctx.rule("R-EXPECT-FORCES", "expectThat never raises; a mismatch (force_failure) makes the finished test a failure")
    ctx.rule("R-NEVER-MASKED", "once a failure / error was raised, a later skip / expected failure cannot select the outcome")
    case = cm.case_class(ctx)
    check_success_guard(ctx, case)
    check_type_mapping(ctx, case)
    check_user_handlers(ctx, case)
    check_forced(ctx, case)
    check_never_masked(ctx, case)
    ctx.assume("exception classes of the user are subclasses of the classes the script names and of nothing else the code mentions")
