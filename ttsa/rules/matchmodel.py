"""Shared facts about the matcher classes (C06, C07, C20)."""

import ast

from ..astutil import FUNC_TYPES, attr_chain, dotted, norm, walk_shallow

MATCHER_MODULES = [
    "testtools.matchers._impl", "testtools.matchers._basic", "testtools.matchers._higherorder",
    "testtools.matchers._datastructures", "testtools.matchers._dict", "testtools.matchers._exception",
    "testtools.matchers._const", "testtools.matchers._filesystem", "testtools.matchers._warnings",
    "testtools.matchers._doctest", "testtools.twistedsupport._matchers",
]


def matcher_classes(ctx):
    """In-repo classes (of the matcher modules) that define or inherit match()."""
    out = []
    for c in ctx.classes.all:
        if c.external or c.module.name not in MATCHER_MODULES:
            continue
        owner, f = ctx.classes.resolve_method(c, "match")
        # (a def, or a method made in a class body: match = factory(...))
        if (isinstance(f, FUNC_TYPES) or isinstance(f, (ast.Call, ast.Lambda, ast.Name, ast.Attribute))) and owner is not None and not owner.external:
            out.append(c)
    for m in MATCHER_MODULES:
        ctx.repo.module(m)
    return sorted(out, key=lambda c: (c.module.name, c.node.lineno))


def mismatch_classes(ctx):
    """Classes of Mismatch / MismatchDecorator kind (anywhere in the package)."""
    out = []
    for c in ctx.classes.all:
        if c.external:
            continue
        names = {k.name for k in ctx.classes.mro(c)}
        if names & {"Mismatch", "MismatchDecorator"}:
            out.append(c)
    return sorted(out, key=lambda c: (c.module.name, c.node.lineno))


def module_aliases(module):
    """name -> class name for module-level ``A = B`` aliases (AnnotatedMismatch = PostfixedMismatch)."""
    out = {}
    for s in module.tree.body:
        if isinstance(s, ast.Assign) and isinstance(s.value, ast.Name) and isinstance(s.targets[0], ast.Name):
            out[s.targets[0].id] = s.value.id
    return out


def resolve_class_name(ctx, module, name):
    """Resolve a (possibly aliased / imported) simple name to a ClassInfo."""
    seen = set()
    cur_mod = module
    while name not in seen:
        seen.add(name)
        ci = ctx.classes.lookup(cur_mod, name)
        if ci is not None:
            return ci
        al = module_aliases(cur_mod)
        if name in al:
            name = al[name]
            continue
        imp = ctx.classes.imports_of(cur_mod).get(name)
        if imp and imp[0] == "from" and imp[1] in ctx.repo.modules:
            cur_mod = ctx.repo.modules[imp[1]]
            name = imp[2]
            seen.discard(name)
            if (cur_mod.name, name) in seen:
                return None
            seen.add((cur_mod.name, name))
            continue
        return None
    return None


def is_mismatch_ctor(ctx, module, call):
    if not isinstance(call, ast.Call):
        return None
    ch = attr_chain(call.func)
    if not ch:
        return None
    ci = resolve_class_name(ctx, module, ch[-1]) if len(ch) == 1 else None
    if ci is None:
        return None
    names = {k.name for k in ctx.classes.mro(ci)}
    return ci if names & {"Mismatch", "MismatchDecorator"} else None


TEXT_CALLS = {"repr", "str", "text_repr", "pformat", "_format", "format", "_error_repr", "_format_matcher_dict", "_details_to_str", "_format_text_attachment", "oct", "chr"}


BOOL_METHODS = {"startswith", "endswith", "isdigit", "isalpha", "isalnum", "isspace", "islower", "isupper", "issubset", "issuperset", "isdisjoint", "exists", "isdir", "isfile",
                "is_dir", "is_file", "islink"}
BOOL_FUNCTIONS = {"isinstance", "issubclass", "callable", "hasattr", "bool", "any", "all"}


def expr_kind(ctx, module, func, e, depth=0):
    """Return-kind inference (E7): None / Mismatch / Delegate / Text / Bool / Collection / Number / Other."""
    if e is None:
        return {"None"}
    if isinstance(e, ast.Constant):
        if e.value is None:
            return {"None"}
        if isinstance(e.value, bool):
            return {"Bool"}
        if isinstance(e.value, (str, bytes)):
            return {"Text"}
        return {"Number"}
    if isinstance(e, ast.JoinedStr):
        return {"Text"}
    if isinstance(e, (ast.Dict, ast.DictComp)):
        return {"Dict"}
    if isinstance(e, (ast.List, ast.Tuple, ast.Set, ast.ListComp, ast.SetComp, ast.GeneratorExp)):
        return {"Collection"}
    if isinstance(e, ast.Compare) or (isinstance(e, ast.UnaryOp) and isinstance(e.op, ast.Not)):
        return {"Bool"}
    if isinstance(e, ast.BinOp):
        if isinstance(e.op, ast.Mod) and "Text" in expr_kind(ctx, module, func, e.left, depth):
            return {"Text"}
        if isinstance(e.op, ast.Add):
            l, r = expr_kind(ctx, module, func, e.left, depth), expr_kind(ctx, module, func, e.right, depth)
            if "Text" in l or "Text" in r:
                return {"Text"}
        return {"Other"}
    if isinstance(e, ast.Call) and ((isinstance(e.func, ast.Attribute) and e.func.attr in BOOL_METHODS) or (isinstance(e.func, ast.Name) and e.func.id in BOOL_FUNCTIONS)):
        return {"Bool"}   # a predicate of the standard library: True or False
    if isinstance(e, ast.IfExp):
        return expr_kind(ctx, module, func, e.body, depth) | expr_kind(ctx, module, func, e.orelse, depth)
    if isinstance(e, ast.BoolOp):
        out = set()
        for v in e.values:
            out |= expr_kind(ctx, module, func, v, depth)
        return out
    if isinstance(e, ast.Call):
        if is_mismatch_ctor(ctx, module, e) is not None:
            return {"Mismatch"}
        d = dotted(e.func)
        if isinstance(e.func, ast.Attribute):
            if e.func.attr == "match":
                return {"Delegate"}
            if e.func.attr in ("describe",):
                return {"DescribeDelegate"}
            if e.func.attr in ("format", "join", "replace", "decode", "strip", "as_text", "getvalue", "_describe_difference", "output_difference"):
                return {"Text"}
            if e.func.attr == "get_details":
                return {"DetailsDelegate"}
        if d and d.split(".")[-1] in TEXT_CALLS:
            return {"Text"}
        if d == "dict":
            return {"Dict"}
        if d in ("list", "set", "tuple", "sorted", "frozenset"):
            return {"Collection"}
        if d == "getattr" and len(e.args) == 3:
            return {"Attr"} | expr_kind(ctx, module, func, e.args[2], depth)
        if d in ("bool", "isinstance", "issubclass", "hasattr", "any", "all"):
            return {"Bool"}
        if d in ("len", "int"):
            return {"Number"}
        # a helper method of the same class (self._helper(...), cls._helper(...), ClassName._helper(...))
        ch = attr_chain(e.func) if isinstance(e.func, ast.Attribute) else None
        cls_node = getattr(func, "_class", None)
        if ch and len(ch) == 2 and cls_node is not None and depth < 3 and ch[0] in ("self", "cls", cls_node.name):
            ci = ctx.classes.get(module.name, cls_node.name)
            if ci is not None:
                owner, hf = ctx.classes.resolve_method(ci, ch[1])
                if isinstance(hf, FUNC_TYPES) and owner is not None and not owner.external:
                    return function_return_kinds(ctx, owner.module, hf, depth + 1)
        # module-level helper: its own return kinds
        if isinstance(e.func, ast.Name) and depth < 3:
            for s in module.tree.body:
                if isinstance(s, FUNC_TYPES) and s.name == e.func.id:
                    return function_return_kinds(ctx, module, s, depth + 1)
            imp = ctx.classes.imports_of(module).get(e.func.id)
            if imp and imp[0] == "from" and imp[1] in ctx.repo.modules:
                m2 = ctx.repo.modules[imp[1]]
                for s in m2.tree.body:
                    if isinstance(s, FUNC_TYPES) and s.name == imp[2]:
                        return function_return_kinds(ctx, m2, s, depth + 1)
        # call of a parameter / local callable: value of a callback
        if isinstance(e.func, ast.Name):
            return {"Callback"}
        return {"Other"}
    if isinstance(e, ast.Name):
        kinds = set()
        for n in walk_shallow(func, include_self=False):
            if isinstance(n, ast.Assign):
                for t in n.targets:
                    if isinstance(t, ast.Name) and t.id == e.id:
                        kinds |= expr_kind(ctx, module, func, n.value, depth)
            if isinstance(n, ast.AugAssign) and isinstance(n.target, ast.Name) and n.target.id == e.id:
                kinds |= expr_kind(ctx, module, func, n.value, depth)
        return kinds or {"Param"}
    if isinstance(e, ast.Attribute):
        return {"Attr"}
    if isinstance(e, ast.Subscript):
        return {"Other"}
    return {"Other"}


def function_return_kinds(ctx, module, func, depth=0):
    """Union of return kinds incl. the implicit None of falling off the end."""
    from ..cfg import build_cfg, live_nodes

    if isinstance(func, ast.Lambda):
        return expr_kind(ctx, module, func, func.body, depth)
    kinds = set()
    g = build_cfg(func)
    lv = live_nodes(g)
    for n in g.nodes:
        if n.id in lv and n.kind == "return":
            kinds |= expr_kind(ctx, module, func, n.ast.value, depth)
    implicit = [a for a, k in g.pred[g.exit_return] if a in lv and g.nodes[a].kind != "return"]
    if implicit:
        kinds.add("None")
    return kinds
