"""Source of truth for MANIFEST.json (tools/gen_manifest.py renders it)."""

TRUSTED = (
    " Trusted base: ttsa's own CFG builder (finally/with cloned per exit kind) and may-raise oracle, "
    "its class table / C3 MRO / CHA call resolution, Python's try/finally semantics as modelled, and the "
    "frozen exception tables named in the rule sources. Out-of-repo code (unittest, fixtures, Twisted) is "
    "trusted to behave as documented; only its class/attribute tables are read."
)

NOTES = (
    "All checks are static: they parse /repo's working tree on every run (never import or run testtools) "
    "and report a specific construct. Exit 2 (ANALYSIS-ERROR / ANALYSIS-UNDECIDED) means an anchor vanished "
    "or an idiom is not understood -- never a silent pass. Known genuine defects are listed in "
    "/verif/known_findings.json and printed as KNOWN-FINDING lines. The thorough tier adds whole-package "
    "sweeps and a self-test (mutant + benign corpora on scratch copies under /dev/shm) whose results go to "
    "the evidence only."
)

NOT_APPLICABLE = {}

CHECKS = {}

CHECKS["C12"] = {
    "technique": 'effect-log abstract interpretation (lock typestate read off ordered call logs) + alias analysis',
    "text": (
        "Lock discipline of ThreadsafeForwardingResult decided on abstract runs of every public method against a symbolic semaphore and a target whose every call may raise (non-blocking acquire may fail): the semaphore is released exactly once on every path, every use of the shared target (calls and attribute reads) happens while it is held, nothing re-acquires while held, the per-test block is start time, startTest, end time, run-level then test tags, outcome, stopTest -- also when the outcome raises -- with the test's arguments passed on and the buffers reset; the forwarder shares no other mutable state. That makes the schedule irrelevant, the right level for a property quantified over all interleavings that a test can only sample. Decided by abstract interpretation of the current source (effect logs over symbolic objects, all paths incl. exceptional ones, environment given by stated oracles); testtools is never imported or run."
    ),
    "note": (
        "Decides the discipline, not schedules: contiguity / once-only / no-deadlock follow for every interleaving because no target access exists outside the lock. Assumes threading.Semaphore(1) semantics and that the target is reached only through the attribute assigned from the 'target' parameter." + TRUSTED
    ),
}

CHECKS["C15"] = {
    "technique": 'abstract interpretation of Spinner.run against a modelled reactor replaying scripts of reactor events (+ Deferred chains, DelayedCall typestate)',
    "text": (
        "Spinner.run on a spinner used before, for every kind of user function (returns, raises, returns a fired / failed / pending Deferred) and every script of reactor events (Deferred fires or fails, timeout call runs, a signal handler calls reactor.stop, pairs of them in one iteration in both orders, reactor.run raising): returns the function's value / raises its failure / TimeoutError(function, timeout) / NoResultError; function called once with its arguments; the reactor never spins for ever; a late result does not replace the TimeoutError, an early one cancels the timeout; results of a previous run never show; reactor.stop is the crash substitute while spinning and the original afterwards; every available preserved signal saved before and re-installed after on every path; leftovers cancelled / removed and remembered as junk; stale junk refused before anything is touched. not_reentrant over the one boolean it guards (marked while running, unmarked on return and on any exception, nested entry refused without clearing the mark). Decided by abstract interpretation of the current source (effect logs over symbolic objects, all paths incl. exceptional ones, environment given by stated oracles); testtools is never imported or run."
    ),
    "note": (
        "Not decided: wall-clock timing, what a real reactor holds, identity of real signal handlers. The scripts cover the orders of 'fires', 'times out' and 'stop requested' that the property quantifies over, at the granularity of reactor iterations." + TRUSTED
    ),
}

CHECKS["C13"] = {
    "technique": 'effect-log abstract interpretation against schedules of worker events and an interrupt at every external call',
    "text": (
        "Worker wrapper: for a sub-suite that returns, raises an Exception or is interrupted (and a holder whose run() may raise) -- run() called once with the per-worker result, exactly one completion signal on every path and nothing after it, a crash contained and reported as ErrorHolder('broken-runner...', error=sys.exc_info()) against the same result. Coordinator: two sub-suites, threads / queue / semaphore / per-worker results as numbered symbolic objects, the queue replaying every schedule of a table of worker-event orders and raising Deadlock when run() waits for an event nobody sends -- one started Thread per sub-suite running the wrapper, return only after every thread was joined and every event consumed, registration before start, an interrupt at each external call propagates after stop() on every worker not yet finished, one shared Semaphore(1)/queue, per-worker pipelines, status events forwarded unchanged in order, a worker forgotten only on its own stopTestRun, unknown events rejected. Decided by abstract interpretation of the current source (effect logs over symbolic objects, all paths incl. exceptional ones, environment given by stated oracles); testtools is never imported or run."
    ),
    "note": (
        'Real thread interleavings and liveness of user code are not decided; the rules establish the join/signal/abort discipline that makes them irrelevant, for two workers and the listed event orders. Assumes Thread.join and an unbounded thread-safe Queue.' + TRUSTED
    ),
}

CHECKS["C18"] = {
    "technique": "CFG typestate counter + writer/reader table agreement + control-dependence",
    "text": (
        "Static rules for StreamResultRouter and StreamToQueue.route_code: a forward-call counter explored over the "
        "CFG of status() shows exactly one sink receives every event on every path, chosen in the order route-prefix "
        "rule, test-id rule, fallback; the separator literal and strip length of the consuming rule are checked "
        "against the writer's prefixing (inverse operations, empty remainder to None); only route_code is rewritten, "
        "only for a consuming rule; startTestRun/stopTestRun iterate one sink list, add_rule registers iff "
        "do_start_stop_run and the mid-run start is control-dependent on both flags; the policy table is exact and "
        "unknown policies raise before any state change. These are per-call invariants that hold for all rule sets "
        "and histories."
    ),
    "note": "Concrete rule sets/events as values are not enumerated; the decided clauses are structural." + TRUSTED,
}

CHECKS["C11"] = {
    "technique": "local alias/mutation analysis + CFG call counter + schema pass-through",
    "text": (
        "Static rules for CopyStreamResult, StreamTagger, TimestampingStreamResult, StreamFailFast and StreamToQueue "
        "(and, for the shared rules, every StreamResult subclass in real.py): a may-alias analysis shows no "
        "status/startTestRun/stopTestRun body mutates an object received from the caller; lazy iterators that perform "
        "forwarding are materialised; the copying base applies the same-named method to every target once and "
        "subclasses reach it through super() exactly once on every path (typestate counter); every one of the ten "
        "status fields reaches the forwarding call unchanged except the owned field, which changes only under the "
        "documented guard. Aliasing between branches needs two cooperating sinks to observe at run time; statically it "
        "is a property of one function body."
    ),
    "note": "Wall-clock values and what sinks do with shared immutable values are not decided." + TRUSTED,
}

CHECKS["C04"] = {
    "technique": "sibling agreement over the class table (MRO-resolved) + CFG must-pass rules",
    "text": (
        "Static agreement rules across every result class: a list-reading wasSuccessful reads every list a failing "
        "outcome of its class appends to and none a passing outcome appends to, multiplexers use all(); "
        "TextTestResult's OK/FAILED arm, failure total and sections use wasSuccessful() and the same three lists; the "
        "exit status is not wasSuccessful() and the runner brackets the run with finally; the outcomes that stop "
        "under failfast are exactly error/failure/unexpected success in every class that consults failfast and the "
        "stream trigger set equals the statuses emitted for them; stop/shouldStop/failfast of every adapter resolve "
        "(through the MRO) to bodies that reach the wrapped results; startTestRun re-initialises every collection "
        "outcomes append to and every attribute stop()/startTest() write (shouldStop, testsRun) while failfast/tb_locals survive. Each is a per-call invariant, so consistency over all "
        "histories and adapter stacks follows by induction."
    ),
    "note": (
        "Summary text layout is not decided. The stream summary's treatment of uxsuccess is the repository's "
        "documented policy (pinned by its contract tests) and is not demanded. One genuine defect is a recorded "
        "known finding (ThreadsafeForwardingResult drops failfast set on the wrapper)." + TRUSTED
    ),
}

CHECKS["C08"] = {
    "technique": "typestate call counter on exceptional CFG (TypeError-edge sensitive) + table agreement + duck-type conformance",
    "text": (
        "Static forwarding rules for TestResultDecorator, Tagger, MultiTestResult, ExtendedToOriginalDecorator and "
        "TestByTestResult: a call counter explored over each method's exceptional CFG shows exactly one forward / "
        "dispatch / accepted delivery on every returning path (a first attempt that leaves through its TypeError edge "
        "counts as rejected), with every parameter passed through; the set of target methods reachable from each "
        "outcome equals the documented degradation table, so no failing outcome can reach a passing method; attribute "
        "uses on reported test objects are checked against the interface common to TestCase and PlaceHolder; "
        "TestByTestResult has one callback per stopTest with all six fields and tags captured before the pop. "
        "Per-method invariants compose over every history and every adapter stack."
    ),
    "note": (
        "Text contained in synthetic exceptions is not decided. Assumes a TypeError from the details= attempt is a "
        "signature rejection. Two sites of one genuine defect are recorded as known findings (PlaceHolder + 2.6-style "
        "result + unexpected success)." + TRUSTED
    ),
}

CHECKS["C01"] = {
    "technique": "typestate by abstract interpretation (finite domains, inlined callees, event monitors; exception-kind and symbolic-handler-table runs) + exceptional CFG rules",
    "text": (
        "The runner's own code is interpreted abstractly with all user code symbolic (returns a non-sentinel value or "
        "raises) and with result methods / addOnException handlers allowed to raise: every abstract exit state of "
        "RunTest._run_prepared_result (389 states, 20 distinct event signatures on the pinned tree) has exactly one "
        "startTest and one stopTest, and every exit that is not a framework-exception path has exactly one outcome "
        "inside the bracket; no user exception escapes; the sentinel is returned iff an exception was recorded; user "
        "code runs under a BaseException handler that reaches the recorder; a second abstract run in which user code "
        "raises exception *kinds* (non-Exception / failure-or-error / skip-like / MultipleExceptions of any of them) "
        "shows for every (raising stage, later stage) pair that a recorded non-Exception is re-raised out of the run "
        "(this found the last-exception-wins interrupt defect, fixed); a third run over a symbolic three-entry handler "
        "table shows that for each of the 20 relations between the exception and the table exactly one report is made, "
        "and that an exception no entry matches goes to last_resort and is re-raised inside the bracket, whatever the "
        "layout of the dispatch code; run() pairs startTestRun/stopTestRun iff it created the result. This covers the "
        "whole cross product of per-stage faults at once, which is exactly what the suite cannot enumerate."
    ),
    "note": (
        "Behaviour when a user addOnException handler or a result method raises is only required to keep the bracket. "
        "Per-flavour delivery of the calls is C08. One genuine defect is a recorded known finding (an empty "
        "MultipleExceptions yields no outcome); the interrupt-masking defect was repaired (fix 8c94b68). Assumes user code cannot obtain the runner's private "
        "sentinel." + TRUSTED
    ),
}

CHECKS["C03"] = {
    "technique": "abstract interpretation with success/raised monitors + table agreement over resolved class hierarchy",
    "text": (
        "The abstract run of C01 is repeated with two more monitors (addSuccess delivered, a user exception caught): no "
        "normal exit state combines a delivered addSuccess with a caught user exception or a forced failure, and every "
        "such exit reports through exactly one handler. The exception_handlers table is resolved through the parsed "
        "class hierarchy: no shadowing, Exception exactly last, each entry bound to the _report_* that calls the "
        "matching result method once, last_resort = _report_error, onException's quiet list = the three signal "
        "classes; on a symbolic three-entry handler table the handler invoked is, for "
        "each of the 20 relations between the exception and the table, exactly the first entry whose class matches "
        "(loop, helper or two-pass code alike); on the exception-kind run a failure/error is never reported through "
        "a later skip / expected failure (8 stage pairs violate this: known findings), and whenever force_failure is "
        "set -- or was not examined after the last user stage -- the run ends unsuccessfully; expectThat sets the "
        "flag without raising. Together these cover all ordered combinations of exception kinds across stages, which "
        "the suite never mixes."
    ),
    "note": (
        "Which of several recorded exceptions selects the outcome is the recorded known finding, one entry per "
        "(failing stage, masking stage) pair (last one wins: a later skip masks an earlier failure). Paths on which an addOnException handler or a result method raises "
        "are outside the statement." + TRUSTED
    ),
}

CHECKS["C02"] = {
    "technique": "abstract-run stage sequences + exceptional-CFG must-pass rules + drain-loop idiom table + receiver-sensitive CHA call-shape check",
    "text": (
        "Stage order is read off the abstract run of C01 (first-occurrence sequences of setUp/test/tearDown/cleanup at "
        "every normal exit: setUp first, test and tearDown iff setUp returned normally, cleanups after); the "
        "exceptional CFG of _run_core shows cleanups on every path after setUp and tearDown on every path out of the "
        "test method; both _run_cleanups implementations are recognised as LIFO drain loops over the live list that "
        "invoke each popped triple once with args and kwargs and have no early exit; every private attribute TestCase "
        "writes during a run is re-initialised by _reset, which dominates the run; patch/useFixture register their undo "
        "and MonkeyPatcher saves before setattr and restores last-first with both arms; a receiver-class-sensitive CHA "
        "over the whole package checks that every self/super call shape is accepted by the callee it resolves to for "
        "each possible receiver (this found the Twisted _run_user overrides rejecting cleanup kwargs, now fixed)."
    ),
    "note": (
        "Attribute *values* after restore and the internals of the fixtures package are not decided. "
        "addOnException handlers are treated as configuration (not reset)." + TRUSTED
    ),
}

CHECKS["C05"] = {
    "technique": "call-site completeness + dominance-by-membership-loop + CFG dominance rules",
    "text": (
        "Static rules for the details pipeline: every outcome call made for a run passes details=<case>.getDetails(); "
        "every detail write testtools itself makes into a running TestCase's dict or gather_details' target is the "
        "reserved 'reason' or is dominated by a loop that exits only when the name is not in that same dict (anything "
        "else must use addDetailUniqueName -- this found the constant debug-detail name written in a loop, now fixed); "
        "recording an exception is dominated by onException, MultipleExceptions recurses per constituent, the user "
        "handler loop runs on all paths, expectFailure reports its traceback first; onException has one caller and the "
        "dispatch follows _run_core; gathered details are snapshots (every object the copy's callback hands out was materialised at copy time) with the original content type; mismatch "
        "details go through addDetailUniqueName. Name-collision behaviour is thereby decided for all names, not for "
        "the two or three the tests use."
    ),
    "note": "Payload bytes are not decided (C16 covers chunking). Fixture-internal detail dicts are out of scope." + TRUSTED,
}

CHECKS["C07"] = {
    "technique": "class-table/MRO resolution + attribute-definedness + return-kind inference + nullness abstract interpretation",
    "text": (
        "Static rules over all 49 matcher and 13 mismatch classes: __str__ of every stock matcher resolves through the "
        "MRO to a concrete body (found four filesystem matchers inheriting the abstract stub, fixed); every self.x read "
        "is assigned somewhere in the MRO or by every concrete subclass (found FileContains.__str__, fixed); every "
        "mismatch class resolves describe() to a concrete body or passes a description to Mismatch.__init__ at every "
        "construction site, and get_details() to a dict-returning body; return-kind inference shows every describe "
        "returns text or delegates; %-formats whose right operand may be the matchee are tuple-safe (found "
        "MatchesPredicate, fixed); a nullness abstract interpretation with the verdict symbolic shows assertThat / "
        "assert_that raise iff the verdict is a mismatch and expectThat never raises but sets force_failure; on the "
        "abstract run of RunTest (exception kinds per stage) a set flag -- or one nothing examined after the last user "
        "stage -- always ends in a failing outcome (found: setUp mismatch followed by a skip was reported as skip, "
        "fixed). These hold for every matchee and every combination of stage faults, which example-based tests cannot show."
    ),
    "note": (
        "Not decided: text_repr output evaluating back to the original string over all code points, and non-ASCII "
        "behaviour of repr (runtime value properties). Observation outside the statement: LabelledMismatches stores a "
        "generator, so a second describe() of a MatchesDict mismatch is empty." + TRUSTED
    ),
}

CHECKS["C06"] = {
    "technique": "nullness abstract interpretation with symbolic component verdicts + return-kind inference + alias/mutation analysis + table algebra",
    "text": (
        "For each combinator the match body is interpreted abstractly with every component verdict a fresh symbolic "
        "value in {None, Mismatch}, verdict collections abstracted by (contains-None, contains-Mismatch) and loops run "
        "to a fixed point; on every abstract path the nullness of the result equals the declared truth function of "
        "the verdicts drawn (negation, identity, exists, for-all) and early exits occur only in the direction that "
        "function allows -- independent of the number of components. Return-kind inference shows every match() of the "
        "49 matcher classes returns None, a Mismatch or a delegate's verdict; the dict-matcher factory tables satisfy "
        "exact = super U sub; no mismatch class can be falsy (so truthiness and `is None` tests agree); match bodies "
        "store nothing on self and mutate neither matcher state nor matchee; no verdict is selected by first match "
        "over a hash-ordered set (found MatchesSetwise, fixed); %-formats of a matchee are tuple-safe."
    ),
    "note": (
        "Not decided (runtime values): leaf predicates (comparisons, regex, doctest, filesystem, SameMembers "
        "arithmetic, MatchesException class logic, the Raises propagation rule) and that a maximum matching is "
        "found by MatchesSetwise. Assumes component matchers obey the protocol themselves." + TRUSTED
    ),
}

CHECKS["C17"] = {
    "technique": 'typestate over all method histories (context followed by value through aliases) + effect-log runs + symbolic set algebra',
    "text": (
        "For every class that owns a TagContext chain the methods startTestRun / startTest / stopTest / tags / current_tags are interpreted over the abstract context (depth 0 / 1 / 2+, None, unset; followed through self._tags, locals and .parent); all histories are explored to closure: no None/unset dereference, stopTest never pops the run level (also the start-less stopTest unittest emits), push/pop inverse, siblings agree. TagContext on symbolic set expressions: a child starts from a fresh copy of the parent's tags, get_current_tags hands out a fresh set, change_tags is (own | new) - gone on its own set. ThreadsafeForwardingResult: tags() changes the per-test buffer iff a test is open, always the forwarder's own context, never the target; the block replays run-level then test tags, each iff non-empty. Stream side: the record keeps the latest tags an event carried; the final status carries current_tags; PlaceHolder adds and removes the same tags around its bracket. Decided by abstract interpretation of the current source (effect logs over symbolic objects, all paths incl. exceptional ones, environment given by stated oracles); testtools is never imported or run."
    ),
    "note": (
        'Decides scoping (which context/buffer a change lands in), not the set values a particular program computes.' + TRUSTED
    ),
}

CHECKS["C09"] = {
    "technique": "obligation-tracking abstract interpretation of the chunk loop + table composition + event-field completeness",
    "text": (
        "ExtendedToStreamDecorator._convert is interpreted abstractly with every value yielded by iter_bytes() an "
        "obligation: each chunk is forwarded exactly once before it is overwritten (order preserved), per detail "
        "exactly one event carries eof=True and it is that detail's last file event on every path including the "
        "zero-chunk path, and the reason file and exactly one final status follow all file events; the loops are "
        "closed by the fixed point, so this holds for any number of details and chunks -- exactly the off-by-one class "
        "the single-chunk tests cannot see. The method->status and status->method tables compose to the documented "
        "map (error -> fail -> failure), dispatch tables are exhaustive, every event carries test_id/timestamp (file "
        "events also name, bytes, repr(content_type); the final one the current tags), and PlaceHolder.run / "
        "StreamToExtendedDecorator replay each record once in protocol order with id, mapped outcome, details, tags "
        "and timestamps."
    ),
    "note": "Identical bytes, MIME render/re-parse and non-ASCII names are runtime value properties and are not decided." + TRUSTED,
}

CHECKS["C10"] = {
    "technique": "removal-accessor / dominance rules on the CFG + typestate call counters + bucket table agreement",
    "text": (
        "Static accounting rules for _StreamToTestRecord, _TestRecord, StreamSummary and the consumer wrappers: a "
        "record reaches on_test only through a removing accessor of the in-progress table, under the final-status "
        "guard, and stopTestRun drains the table, so no record is reported twice or left behind; events without test "
        "id return before the table is touched and records are keyed by (test_id, route_code); the record keeps last "
        "status, latest tags, first/last timestamps and appends chunks in arrival order to one content per name; "
        "testsRun is incremented exactly once for every non-'exists' record, followed by exactly one bucket handler "
        "selected by status, each appending to the documented list, with wasSuccessful reading the fail/incomplete "
        "list; dispatch tables are exhaustive; the wrappers forward every call to their hook exactly once with all "
        "arguments. These per-event invariants hold for every event sequence."
    ),
    "note": "Chunk concatenation and timestamps as values are not decided beyond the structural facts above." + TRUSTED,
}

CHECKS["C16"] = {
    "technique": 'obligation-tracking abstract interpretation of the read loop + effect-log runs on modelled streams / decoders + closures applied after construction',
    "text": (
        "_iter_chunks: every value read is yielded once in order or is falsy and ends the loop; on a modelled stream every read asks for chunk_size, the chunks come out in order, seek(offset, whence) first iff an offset is given (0 counts). _iter_text: one incremental decoder for the declared charset (ISO-8859-1 default), every chunk decoded in order, exactly one final flush whose non-empty result is yielded; the concatenated text is the decoded chunks. content_from_reader / _file / _stream: the byte source handed to Content is applied *after* the constructor returned -- nothing is touched before unless buffer_now; buffered content was read exactly once, chunk for chunk, can be read again and is not a one-shot iterator; chunk size and seek arguments reach the stream; the file is opened 'rb' under with. text_content / json_content bytes decode back in the declared charset. Content.__eq__ is equality of type and concatenated bytes however chunked; ContentType renders every parameter sorted. The copies made when details are gathered are materialised at copy time. Decided by abstract interpretation of the current source (effect logs over symbolic objects, all paths incl. exceptional ones, environment given by stated oracles); testtools is never imported or run."
    ),
    "note": (
        'Round trips over the full Unicode range, all cut positions and MIME re-parsing are value properties and are not decided; the codecs incremental-decoder contract is assumed.' + TRUSTED
    ),
}

CHECKS["C19"] = {
    "technique": 'inductive step on a symbolic tree node (abstract interpretation with recursive calls answered symbolically) + effect-log scenario runs + unused-result rule',
    "text": (
        "iterate_tests / filter_by_ids / _flatten_tests are interpreted for every kind of node (test case, case with own filter_by_ids, plain TestSuite, custom suite with / without sort_tests or filter_by_ids, empty suites, a foreign object) with their recursive calls answered symbolically: a leaf is yielded itself and the leaves of every child once in order; filtering delegates to an own filter_by_ids, keeps a case iff its id is listed (else an empty TestSuite), filters every child once and replaces the suite's tests by the results in order; flattening gives (id, case), concatenates children of a plain suite, keeps a custom suite whole under its first test's id and calls sort_tests once. sorted_tests rejects duplicate ids before anything is flattened and returns the flattened tests ordered by key. TestProgram.__init__ for --list / --load-list on and off and runners with and without list(): the ids of every line (stripped, decoded) reach filter_by_ids whose result replaces self.test before anything runs or lists; listing prints every id. Results of filter_by_ids / sorted_tests are used at every call site. Decided by abstract interpretation of the current source (effect logs over symbolic objects, all paths incl. exceptional ones, environment given by stated oracles); testtools is never imported or run."
    ),
    "note": (
        'Whole-tree permutation properties follow from the per-node steps by induction and are not re-derived on concrete trees. Known finding: an empty custom suite gets the sort key None.' + TRUSTED
    ),
}

CHECKS["C20"] = {
    "technique": 'abstract interpretation with Deferred chains as values, per Deferred state (unfired / fired / failed / paused) and per inner-matcher answer + who-may-call rule',
    "text": (
        "on_deferred_result calls exactly the callback for the Deferred's state with the Deferred and its result and returns its answer; afterwards the Deferred is in the state it was in (a value it is fired with later reaches later callbacks unchanged through the capture callbacks). has_no_result / succeeded(m) / failed(m): None only for the matching state and m's own answer (m asked once with the value resp. Failure), a Mismatch otherwise -- so with Always() exactly one of the three matches; a successful result and an unfired Deferred are left intact; a failure inspected by succeeded() or failed() is consumed. extract_result returns the value / raises the failure's exception / raises DeferredNotFired (also for a chain paused on a nested Deferred). SynchronousDeferredRunTest._run_user per kind of user function (returns, raises, fired / failed / pending Deferred). No call of callback / errback / cancel on a Deferred in the matcher modules (expected count 0, positive example embedded). Decided by abstract interpretation of the current source (effect logs over symbolic objects, all paths incl. exceptional ones, environment given by stated oracles); testtools is never imported or run."
    ),
    "note": (
        'Values inside results are symbolic; the inner matcher is an oracle with both answers.' + TRUSTED
    ),
}

CHECKS["C14"] = {
    "technique": "effect-log abstract interpretation + Deferred chains as abstract values (Twisted's chain semantics)",
    "text": (
        'AsynchronousDeferredRunTest._run_core for the 24 combinations of its problem sources (blocking run ok / failed / timed out / interrupted x logged errors x unhandled Deferreds x junk) against symbolic fixtures, spinner and result: addSuccess(case, details=case.getDetails()) exactly once iff all clean; every logged error / unhandled failure / junk / timeout / interrupt recorded through the right recorder exactly once (result.stop() on interrupt); every source collected once; the reactor spun inside both fixtures which are left on every path. _run_deferred, _run_user and _run_cleanups with Deferreds as abstract values, one run per outcome of every stage: setUp, then test and tearDown iff setUp succeeded, then cleanups, then the forced failure; verdict True iff nothing failed; every failure recorded once -- also when recording itself raises; cleanups LIFO under any exception with tracebacks reported and the last exception returned; log-observer fixtures restore what they changed, also after a partial failure. Decided by abstract interpretation of the current source (effect logs over symbolic objects, all paths incl. exceptional ones, environment given by stated oracles); testtools is never imported or run.'
    ),
    "note": (
        "Timing, real reactor behaviour and Deferred firing order are not decided (a chain's final result does not depend on when its Deferreds fire, so already-fired Deferreds are used). Found and fixed f5a74f9 (a failure raised while recording a failure was swallowed)." + TRUSTED
    ),
}
