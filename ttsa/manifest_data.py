"""Source of truth for MANIFEST.json (tools/gen_manifest.py renders it)."""

TRUSTED = (
    " Trusted base: ttsa's own CFG builder (finally/with cloned per exit kind) and may-raise oracle, "
    "its class table / C3 MRO / CHA call resolution, Python's try/finally semantics as modelled, and the "
    "frozen exception tables named in the rule sources. Out-of-repo code (unittest, fixtures, Twisted) is "
    "trusted to behave as documented; only its class/attribute tables are read."
)

NOTES = (
    "All checks are static: they parse /repo's working tree on every run (never import or run testtools) "
    "and report a specific construct. Exit 2 (ANALYSIS-ERROR / ANALYSIS-UNDECIDED) means an anchor vanished "
    "or an idiom is not understood -- never a silent pass. Known genuine defects are listed in "
    "/verif/known_findings.json and printed as KNOWN-FINDING lines. The thorough tier adds whole-package "
    "sweeps and a self-test (mutant + benign corpora on scratch copies under /dev/shm) whose results go to "
    "the evidence only."
)

NOT_APPLICABLE = {}

CHECKS = {}

CHECKS["C12"] = {
    "technique": "lock typestate on exceptional CFG + dominance + call graph",
    "text": (
        "Static lock-discipline proof sketch for ThreadsafeForwardingResult: on the exceptional CFG of every "
        "method the semaphore is released exactly once on all paths (typestate Unheld/Held), every access to the "
        "shared target (including bound methods invoked by the helper) happens while Held, nothing reachable "
        "while Held re-acquires, the held block has the documented order (start time, startTest, end time, "
        "global then test tags, outcome, stopTest in finally) and the forwarder shares no other mutable state. "
        "That makes the schedule irrelevant, which is the right level for a property quantified over all "
        "interleavings that a test can only sample."
    ),
    "note": (
        "Decides the discipline, not schedules: contiguity/once-only/no-deadlock follow for every interleaving "
        "because no target access exists outside the lock. Assumes threading.Semaphore(1) semantics and that the "
        "target is reached only through the attribute assigned from the 'target' parameter." + TRUSTED
    ),
}

CHECKS["C15"] = {
    "technique": "pairing/dominance rules on exceptional CFG (finally cloned per exit)",
    "text": (
        "Static pairing and ordering rules for Spinner.run/not_reentrant/_clean/_get_result: reactor.stop and the "
        "signal handlers are restored on every path (normal and exceptional) after they were replaced/saved, the "
        "result is fetched under a finally that cleans the reactor and records all junk, the stale-junk refusal "
        "dominates every mutation, the re-entrancy flag is set after its test and cleared on all paths, the result "
        "is a strict three-way (failure raise / success return / NoResultError), result fields are reset per run, and -- on a DelayedCall typestate (pending/called/cancelled; cancel() "
        "raises unless pending) -- the result callbacks cancel a pending timeout and make _get_result return / raise "
        "their argument, while after the timeout has fired a late result can no longer replace the TimeoutError. These are the code-shape guarantees "
        "behind the restoration clauses, which hold for all crash points by construction."
    ),
    "note": (
        "Not decided (runtime quantities): timing of the Deferred relative to the timeout, what the reactor really "
        "holds, identity of real signal handlers. The decided clauses are necessary conditions of the property." + TRUSTED
    ),
}

CHECKS["C13"] = {
    "technique": "must-pass-through / dominance on exceptional CFG + structural pipeline rules",
    "text": (
        "Static join/signal/abort discipline for ConcurrentTestSuite and ConcurrentStreamTestSuite: the worker "
        "wrapper signals completion on every path out of the sub-suite's run() and turns a crash into a "
        "broken-runner ErrorHolder on the same result; the coordinating run() creates one thread per sub-suite, "
        "registers it before start(), waits while the bookkeeping is non-empty, forgets a worker only together "
        "with join(), keeps thread creation and waiting under one catch-all handler that stops every remaining "
        "worker and re-raises, and builds the documented per-worker pipeline (shared Semaphore(1) / "
        "ExtendedToStream(Timestamping(StreamToQueue)); status events forwarded in dequeue order, forget only on "
        "stopTestRun, unknown events rejected). The guarantee is made by code shape, so it holds for every "
        "schedule and fault point rather than for the ones a test happens to sample."
    ),
    "note": (
        "Interleavings are not explored and liveness of user run() is not decided; per-event atomicity of the "
        "shared result is C12. Assumes Thread.join/Queue semantics." + TRUSTED
    ),
}

CHECKS["C18"] = {
    "technique": "CFG typestate counter + writer/reader table agreement + control-dependence",
    "text": (
        "Static rules for StreamResultRouter and StreamToQueue.route_code: a forward-call counter explored over the "
        "CFG of status() shows exactly one sink receives every event on every path, chosen in the order route-prefix "
        "rule, test-id rule, fallback; the separator literal and strip length of the consuming rule are checked "
        "against the writer's prefixing (inverse operations, empty remainder to None); only route_code is rewritten, "
        "only for a consuming rule; startTestRun/stopTestRun iterate one sink list, add_rule registers iff "
        "do_start_stop_run and the mid-run start is control-dependent on both flags; the policy table is exact and "
        "unknown policies raise before any state change. These are per-call invariants that hold for all rule sets "
        "and histories."
    ),
    "note": "Concrete rule sets/events as values are not enumerated; the decided clauses are structural." + TRUSTED,
}

CHECKS["C11"] = {
    "technique": "local alias/mutation analysis + CFG call counter + schema pass-through",
    "text": (
        "Static rules for CopyStreamResult, StreamTagger, TimestampingStreamResult, StreamFailFast and StreamToQueue "
        "(and, for the shared rules, every StreamResult subclass in real.py): a may-alias analysis shows no "
        "status/startTestRun/stopTestRun body mutates an object received from the caller; lazy iterators that perform "
        "forwarding are materialised; the copying base applies the same-named method to every target once and "
        "subclasses reach it through super() exactly once on every path (typestate counter); every one of the ten "
        "status fields reaches the forwarding call unchanged except the owned field, which changes only under the "
        "documented guard. Aliasing between branches needs two cooperating sinks to observe at run time; statically it "
        "is a property of one function body."
    ),
    "note": "Wall-clock values and what sinks do with shared immutable values are not decided." + TRUSTED,
}

CHECKS["C04"] = {
    "technique": "sibling agreement over the class table (MRO-resolved) + CFG must-pass rules",
    "text": (
        "Static agreement rules across every result class: a list-reading wasSuccessful reads every list a failing "
        "outcome of its class appends to and none a passing outcome appends to, multiplexers use all(); "
        "TextTestResult's OK/FAILED arm, failure total and sections use wasSuccessful() and the same three lists; the "
        "exit status is not wasSuccessful() and the runner brackets the run with finally; the outcomes that stop "
        "under failfast are exactly error/failure/unexpected success in every class that consults failfast and the "
        "stream trigger set equals the statuses emitted for them; stop/shouldStop/failfast of every adapter resolve "
        "(through the MRO) to bodies that reach the wrapped results; startTestRun re-initialises every collection "
        "outcomes append to and every attribute stop()/startTest() write (shouldStop, testsRun) while failfast/tb_locals survive. Each is a per-call invariant, so consistency over all "
        "histories and adapter stacks follows by induction."
    ),
    "note": (
        "Summary text layout is not decided. The stream summary's treatment of uxsuccess is the repository's "
        "documented policy (pinned by its contract tests) and is not demanded. One genuine defect is a recorded "
        "known finding (ThreadsafeForwardingResult drops failfast set on the wrapper)." + TRUSTED
    ),
}

CHECKS["C08"] = {
    "technique": "typestate call counter on exceptional CFG (TypeError-edge sensitive) + table agreement + duck-type conformance",
    "text": (
        "Static forwarding rules for TestResultDecorator, Tagger, MultiTestResult, ExtendedToOriginalDecorator and "
        "TestByTestResult: a call counter explored over each method's exceptional CFG shows exactly one forward / "
        "dispatch / accepted delivery on every returning path (a first attempt that leaves through its TypeError edge "
        "counts as rejected), with every parameter passed through; the set of target methods reachable from each "
        "outcome equals the documented degradation table, so no failing outcome can reach a passing method; attribute "
        "uses on reported test objects are checked against the interface common to TestCase and PlaceHolder; "
        "TestByTestResult has one callback per stopTest with all six fields and tags captured before the pop. "
        "Per-method invariants compose over every history and every adapter stack."
    ),
    "note": (
        "Text contained in synthetic exceptions is not decided. Assumes a TypeError from the details= attempt is a "
        "signature rejection. Two sites of one genuine defect are recorded as known findings (PlaceHolder + 2.6-style "
        "result + unexpected success)." + TRUSTED
    ),
}

CHECKS["C01"] = {
    "technique": "typestate by abstract interpretation (finite domains, inlined callees, event monitors; exception-kind and symbolic-handler-table runs) + exceptional CFG rules",
    "text": (
        "The runner's own code is interpreted abstractly with all user code symbolic (returns a non-sentinel value or "
        "raises) and with result methods / addOnException handlers allowed to raise: every abstract exit state of "
        "RunTest._run_prepared_result (389 states, 20 distinct event signatures on the pinned tree) has exactly one "
        "startTest and one stopTest, and every exit that is not a framework-exception path has exactly one outcome "
        "inside the bracket; no user exception escapes; the sentinel is returned iff an exception was recorded; user "
        "code runs under a BaseException handler that reaches the recorder; a second abstract run in which user code "
        "raises exception *kinds* (non-Exception / failure-or-error / skip-like / MultipleExceptions of any of them) "
        "shows for every (raising stage, later stage) pair that a recorded non-Exception is re-raised out of the run "
        "(this found the last-exception-wins interrupt defect, fixed); a third run over a symbolic three-entry handler "
        "table shows that for each of the 20 relations between the exception and the table exactly one report is made, "
        "and that an exception no entry matches goes to last_resort and is re-raised inside the bracket, whatever the "
        "layout of the dispatch code; run() pairs startTestRun/stopTestRun iff it created the result. This covers the "
        "whole cross product of per-stage faults at once, which is exactly what the suite cannot enumerate."
    ),
    "note": (
        "Behaviour when a user addOnException handler or a result method raises is only required to keep the bracket. "
        "Per-flavour delivery of the calls is C08. One genuine defect is a recorded known finding (an empty "
        "MultipleExceptions yields no outcome); the interrupt-masking defect was repaired (fix 8c94b68). Assumes user code cannot obtain the runner's private "
        "sentinel." + TRUSTED
    ),
}

CHECKS["C03"] = {
    "technique": "abstract interpretation with success/raised monitors + table agreement over resolved class hierarchy",
    "text": (
        "The abstract run of C01 is repeated with two more monitors (addSuccess delivered, a user exception caught): no "
        "normal exit state combines a delivered addSuccess with a caught user exception or a forced failure, and every "
        "such exit reports through exactly one handler. The exception_handlers table is resolved through the parsed "
        "class hierarchy: no shadowing, Exception exactly last, each entry bound to the _report_* that calls the "
        "matching result method once, last_resort = _report_error, onException's quiet list = the three signal "
        "classes; on a symbolic three-entry handler table the handler invoked is, for "
        "each of the 20 relations between the exception and the table, exactly the first entry whose class matches "
        "(loop, helper or two-pass code alike); on the exception-kind run a failure/error is never reported through "
        "a later skip / expected failure (8 stage pairs violate this: known findings), and whenever force_failure is "
        "set -- or was not examined after the last user stage -- the run ends unsuccessfully; expectThat sets the "
        "flag without raising. Together these cover all ordered combinations of exception kinds across stages, which "
        "the suite never mixes."
    ),
    "note": (
        "Which of several recorded exceptions selects the outcome is the recorded known finding, one entry per "
        "(failing stage, masking stage) pair (last one wins: a later skip masks an earlier failure). Paths on which an addOnException handler or a result method raises "
        "are outside the statement." + TRUSTED
    ),
}

CHECKS["C02"] = {
    "technique": "abstract-run stage sequences + exceptional-CFG must-pass rules + drain-loop idiom table + receiver-sensitive CHA call-shape check",
    "text": (
        "Stage order is read off the abstract run of C01 (first-occurrence sequences of setUp/test/tearDown/cleanup at "
        "every normal exit: setUp first, test and tearDown iff setUp returned normally, cleanups after); the "
        "exceptional CFG of _run_core shows cleanups on every path after setUp and tearDown on every path out of the "
        "test method; both _run_cleanups implementations are recognised as LIFO drain loops over the live list that "
        "invoke each popped triple once with args and kwargs and have no early exit; every private attribute TestCase "
        "writes during a run is re-initialised by _reset, which dominates the run; patch/useFixture register their undo "
        "and MonkeyPatcher saves before setattr and restores last-first with both arms; a receiver-class-sensitive CHA "
        "over the whole package checks that every self/super call shape is accepted by the callee it resolves to for "
        "each possible receiver (this found the Twisted _run_user overrides rejecting cleanup kwargs, now fixed)."
    ),
    "note": (
        "Attribute *values* after restore and the internals of the fixtures package are not decided. "
        "addOnException handlers are treated as configuration (not reset)." + TRUSTED
    ),
}

CHECKS["C05"] = {
    "technique": "call-site completeness + dominance-by-membership-loop + CFG dominance rules",
    "text": (
        "Static rules for the details pipeline: every outcome call made for a run passes details=<case>.getDetails(); "
        "every detail write testtools itself makes into a running TestCase's dict or gather_details' target is the "
        "reserved 'reason' or is dominated by a loop that exits only when the name is not in that same dict (anything "
        "else must use addDetailUniqueName -- this found the constant debug-detail name written in a loop, now fixed); "
        "recording an exception is dominated by onException, MultipleExceptions recurses per constituent, the user "
        "handler loop runs on all paths, expectFailure reports its traceback first; onException has one caller and the "
        "dispatch follows _run_core; gathered details are snapshots (every object the copy's callback hands out was materialised at copy time) with the original content type; mismatch "
        "details go through addDetailUniqueName. Name-collision behaviour is thereby decided for all names, not for "
        "the two or three the tests use."
    ),
    "note": "Payload bytes are not decided (C16 covers chunking). Fixture-internal detail dicts are out of scope." + TRUSTED,
}

CHECKS["C07"] = {
    "technique": "class-table/MRO resolution + attribute-definedness + return-kind inference + nullness abstract interpretation",
    "text": (
        "Static rules over all 49 matcher and 13 mismatch classes: __str__ of every stock matcher resolves through the "
        "MRO to a concrete body (found four filesystem matchers inheriting the abstract stub, fixed); every self.x read "
        "is assigned somewhere in the MRO or by every concrete subclass (found FileContains.__str__, fixed); every "
        "mismatch class resolves describe() to a concrete body or passes a description to Mismatch.__init__ at every "
        "construction site, and get_details() to a dict-returning body; return-kind inference shows every describe "
        "returns text or delegates; %-formats whose right operand may be the matchee are tuple-safe (found "
        "MatchesPredicate, fixed); a nullness abstract interpretation with the verdict symbolic shows assertThat / "
        "assert_that raise iff the verdict is a mismatch and expectThat never raises but sets force_failure; on the "
        "abstract run of RunTest (exception kinds per stage) a set flag -- or one nothing examined after the last user "
        "stage -- always ends in a failing outcome (found: setUp mismatch followed by a skip was reported as skip, "
        "fixed). These hold for every matchee and every combination of stage faults, which example-based tests cannot show."
    ),
    "note": (
        "Not decided: text_repr output evaluating back to the original string over all code points, and non-ASCII "
        "behaviour of repr (runtime value properties). Observation outside the statement: LabelledMismatches stores a "
        "generator, so a second describe() of a MatchesDict mismatch is empty." + TRUSTED
    ),
}

CHECKS["C06"] = {
    "technique": "nullness abstract interpretation with symbolic component verdicts + return-kind inference + alias/mutation analysis + table algebra",
    "text": (
        "For each combinator the match body is interpreted abstractly with every component verdict a fresh symbolic "
        "value in {None, Mismatch}, verdict collections abstracted by (contains-None, contains-Mismatch) and loops run "
        "to a fixed point; on every abstract path the nullness of the result equals the declared truth function of "
        "the verdicts drawn (negation, identity, exists, for-all) and early exits occur only in the direction that "
        "function allows -- independent of the number of components. Return-kind inference shows every match() of the "
        "49 matcher classes returns None, a Mismatch or a delegate's verdict; the dict-matcher factory tables satisfy "
        "exact = super U sub; no mismatch class can be falsy (so truthiness and `is None` tests agree); match bodies "
        "store nothing on self and mutate neither matcher state nor matchee; no verdict is selected by first match "
        "over a hash-ordered set (found MatchesSetwise, fixed); %-formats of a matchee are tuple-safe."
    ),
    "note": (
        "Not decided (runtime values): leaf predicates (comparisons, regex, doctest, filesystem, SameMembers "
        "arithmetic, MatchesException class logic, the Raises propagation rule) and that a maximum matching is "
        "found by MatchesSetwise. Assumes component matchers obey the protocol themselves." + TRUSTED
    ),
}

CHECKS["C17"] = {
    "technique": "typestate over all method histories (abstract interpretation of each method, closure of the finite abstract state space) + alias analysis",
    "text": (
        "For each class that owns a TagContext chain, every protocol method is interpreted abstractly over the value of "
        "self._tags (context depth and identity of the run-level context, None, unset) and ALL well-formed method "
        "histories from the post-constructor state are explored to closure, including the start-less stopTest of "
        "unittest 3.12.1: no transition dereferences None, stopTest never pops or replaces the run-level context, "
        "startTest/stopTest are inverse, only startTestRun replaces the run level; the four implementations have "
        "identical transition tables. TagContext copies rather than aliases its sets; ThreadsafeForwardingResult "
        "routes tags to the per-test buffer iff a test is open; the stream decorator reports current_tags with the "
        "final status; PlaceHolder applies and removes the same tags around its bracket. Exploring all histories is "
        "exactly what the eight fixed three-step scenarios of TagsContract cannot do (found: start-less stopTest popped "
        "the run-level context in four classes, fixed)."
    ),
    "note": "Tag sets as concrete values along long histories are not decided beyond add/remove symmetry." + TRUSTED,
}

CHECKS["C09"] = {
    "technique": "obligation-tracking abstract interpretation of the chunk loop + table composition + event-field completeness",
    "text": (
        "ExtendedToStreamDecorator._convert is interpreted abstractly with every value yielded by iter_bytes() an "
        "obligation: each chunk is forwarded exactly once before it is overwritten (order preserved), per detail "
        "exactly one event carries eof=True and it is that detail's last file event on every path including the "
        "zero-chunk path, and the reason file and exactly one final status follow all file events; the loops are "
        "closed by the fixed point, so this holds for any number of details and chunks -- exactly the off-by-one class "
        "the single-chunk tests cannot see. The method->status and status->method tables compose to the documented "
        "map (error -> fail -> failure), dispatch tables are exhaustive, every event carries test_id/timestamp (file "
        "events also name, bytes, repr(content_type); the final one the current tags), and PlaceHolder.run / "
        "StreamToExtendedDecorator replay each record once in protocol order with id, mapped outcome, details, tags "
        "and timestamps."
    ),
    "note": "Identical bytes, MIME render/re-parse and non-ASCII names are runtime value properties and are not decided." + TRUSTED,
}

CHECKS["C10"] = {
    "technique": "removal-accessor / dominance rules on the CFG + typestate call counters + bucket table agreement",
    "text": (
        "Static accounting rules for _StreamToTestRecord, _TestRecord, StreamSummary and the consumer wrappers: a "
        "record reaches on_test only through a removing accessor of the in-progress table, under the final-status "
        "guard, and stopTestRun drains the table, so no record is reported twice or left behind; events without test "
        "id return before the table is touched and records are keyed by (test_id, route_code); the record keeps last "
        "status, latest tags, first/last timestamps and appends chunks in arrival order to one content per name; "
        "testsRun is incremented exactly once for every non-'exists' record, followed by exactly one bucket handler "
        "selected by status, each appending to the documented list, with wasSuccessful reading the fail/incomplete "
        "list; dispatch tables are exhaustive; the wrappers forward every call to their hook exactly once with all "
        "arguments. These per-event invariants hold for every event sequence."
    ),
    "note": "Chunk concatenation and timestamps as values are not decided beyond the structural facts above." + TRUSTED,
}

CHECKS["C16"] = {
    "technique": "obligation-tracking abstract interpretation of the read loop + structural decoder/eagerness/equality rules",
    "text": (
        "content._iter_chunks is interpreted abstractly with every value returned by stream.read() an obligation: it is "
        "yielded exactly once before being overwritten (so order is kept) or it is falsy and ends the loop; only "
        "truthy chunks are yielded; every read asks for chunk_size; the seek happens iff an offset was given, before "
        "the first read, with both arguments -- closed by the loop fixed point, so it holds for every file length "
        "(the multiple-of-chunk-size off-by-one the tests never sample). Content._iter_text uses one incremental "
        "decoder created before the loop, one decode per chunk, no per-chunk bytes.decode, and a final=True flush "
        "whose non-empty result is yielded; default charset ISO-8859-1. content_from_reader reads now iff buffer_now; "
        "file/stream helpers touch their source only inside the nested reader and pass chunk_size/seek through; "
        "text_content encodes with the charset it declares. Content equality compares type and joined bytes of both "
        "sides; ContentType compares and renders every field; every object the callback of a gathered copy can hand "
        "out was materialised when the copy was made (never the source's own buffer, never a lazy iterator)."
    ),
    "note": (
        "Not decided (runtime values): round trips over the Unicode range, cut positions inside multi-byte "
        "sequences, and MIME render/re-parse. Assumes stream.read and codecs incremental decoder contracts." + TRUSTED
    ),
}

CHECKS["C19"] = {
    "technique": "CFG dominance + nullness abstract interpretation of the sort keys + unused-result rule + structural dispatch/obligation rules",
    "text": (
        "Static rules for sorted_tests, _flatten_tests, filter_by_ids, iterate_tests and testtools.run: the "
        "duplicate-id ValueError dominates flattening and sorting and counts every leaf id; a nullness abstract "
        "interpretation of _flatten_tests shows whether every produced sort key is a test id (it is not: an empty "
        "custom suite gets None -- recorded known finding); the results of filter_by_ids / sorted_tests are used at "
        "every call site; filter_by_ids dispatches custom, id, TestSuite, else unchanged and in the suite arm filters "
        "every child once, appending in order into the list that replaces _tests; iterate_tests recurses into every "
        "element in order; --load-list ids are stripped/decoded per line and applied after argument parsing and "
        "before running or listing; the listing paths print every id. These structural facts hold for all suite "
        "trees."
    ),
    "note": "That flattening/sorting yields the right order for all tree shapes is a value property and is not decided." + TRUSTED,
}

CHECKS["C20"] = {
    "technique": "return-kind inference on callbacks + emptiness abstract interpretation of the three-way dispatch + who-may-call rule",
    "text": (
        "Static rules for twistedsupport/_matchers.py and _deferred.py: every callback the matchers attach to the "
        "matchee returns its first parameter on all paths (results stay intact for later callbacks); nothing calls "
        "callback/errback/cancel on the matchee (count 0, with an embedded positive example that must match); an "
        "abstract interpretation of on_deferred_result under each state a Deferred can be in (not fired; fired but "
        "chain paused or waiting on a nested Deferred; result available; failure available -- with Deferred.called / "
        ".result modelled as Twisted documents them) shows exactly the right one of the three callbacks is invoked and "
        "its value returned, and the impossible both-captured state raises; the per-state "
        "verdict tables of _NoResult/_Succeeded/_Failed are the documented ones (success delegates on the value, "
        "failure on the Failure), so with Always() exactly one of the three matchers matches in each state; both "
        "failure arms add a swallowing errback; SynchronousDeferredRunTest._run_user and extract_result have the "
        "documented three-way shape."
    ),
    "note": "Twisted's unhandled-error logging at garbage collection is runtime behaviour and is not decided." + TRUSTED,
}

CHECKS["C14"] = {
    "technique": "truth/emptiness abstract interpretation of _run_core over all source combinations + catch-all sibling agreement + structural chain/pairing rules",
    "text": (
        "AsynchronousDeferredRunTest._run_core is interpreted abstractly with _blocking_run_deferred inlined and the spinner "
        "returning or raising TimeoutError / NoResultError, over all 24 combinations of its problem sources (run ok / "
        "failed / timed out / interrupted; flushed logged errors; unhandled Deferreds; reactor junk): addSuccess is "
        "delivered at most once and exactly when everything is clean, every dirty source records an exception so that "
        "C01's dispatch reports one outcome, an interrupted run asks the result to stop, and on every path the logged "
        "errors are flushed from the process-wide observer and the junk is collected (nothing leaks into the next test). Every place where user code or a user Deferred's failure surfaces in "
        "the Twisted runners is under a catch-all, in agreement with RunTest._run_user (found: async cleanups awaited "
        "under `except Exception`, fixed). _run_deferred chains setUp, test, tearDown (on both outcomes), cleanups (on "
        "both outcomes) and the forced failure, marking every failed stage; log observers are restored by cleanups "
        "registered in the same iteration and the reactor is spun inside both fixtures; spinner TimeoutError / "
        "NoResultError are recorded and the interrupt arm stops the result."
    ),
    "note": (
        "Not applicable to this family (declined): that the next stage starts only after a Deferred fired, timeouts "
        "relative to delays, interrupt instants and actual reactor cleanliness -- runtime behaviour of Twisted objects. "
        "The decided clauses are necessary conditions of the property." + TRUSTED
    ),
}
