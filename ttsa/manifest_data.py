"""Source of truth for MANIFEST.json (tools/gen_manifest.py renders it)."""

TRUSTED = (
    " Trusted base: ttsa's own abstract interpreter (ttsa.absint / effects / objects / generators: Python's evaluation order, "
    "exceptions, try/finally, closures, generators, properties and the C3 MRO as modelled there), its class table and call "
    "resolution, and the stated model of each scenario's environment (what user code, tests, foreign results, streams, clocks, "
    "matchers and fixtures do). Out-of-repo code is not followed, except unittest.TestResult -- the base class testtools' results "
    "keep their state in -- which is read in the installed standard library's own source; Twisted, fixtures and the rest are "
    "modelled as documented."
)

NOTES = (
    "All checks are static: they parse /repo's working tree on every run (never import or run testtools) "
    "and report a specific construct. Exit 2 (ANALYSIS-ERROR / ANALYSIS-UNDECIDED) means an anchor vanished "
    "or an idiom is not understood -- never a silent pass. Known genuine defects are listed in "
    "/verif/known_findings.json and printed as KNOWN-FINDING lines. The thorough tier adds whole-package "
    "sweeps and a self-test (mutant + benign corpora on scratch copies under /dev/shm) whose results go to "
    "the evidence only."
)

NOT_APPLICABLE = {}

CHECKS = {}

CHECKS['C12'] = {
    "technique": 'effect-log abstract interpretation (lock typestate read off ordered call logs) + alias analysis',
    "text": (
        "Lock discipline of ThreadsafeForwardingResult decided on abstract runs of every public method against a symbolic semaphore and a target whose every call may raise (non-blocking acquire may fail): the semaphore is released exactly once on every path, every use of the shared target (calls and attribute reads) happens while it is held, nothing re-acquires while held, the per-test block is start time, startTest, end time, run-level then test tags, outcome, stopTest -- also when the outcome raises -- with the test's arguments passed on and the buffers reset; the forwarder shares no other mutable state. That makes the schedule irrelevant, the right level for a property quantified over all interleavings that a test can only sample. Decided by abstract interpretation of the current source (effect logs over symbolic objects, all paths incl. exceptional ones, environment given by stated oracles); testtools is never imported or run."
    ),
    "note": (
        "Decides the discipline, not schedules: contiguity / once-only / no-deadlock follow for every interleaving because no target access exists outside the lock. Assumes threading.Semaphore(1) semantics and that the target is reached only through the attribute assigned from the 'target' parameter." + TRUSTED
    ),
}

CHECKS['C15'] = {
    "technique": 'abstract interpretation of Spinner.run against a modelled reactor replaying scripts of reactor events (+ Deferred chains, DelayedCall typestate)',
    "text": (
        "Spinner.run on a spinner used before, for every kind of user function (returns, raises, returns a fired / failed / pending Deferred) and every script of reactor events (Deferred fires or fails, timeout call runs, a signal handler calls reactor.stop, pairs of them in one iteration in both orders, reactor.run raising): returns the function's value / raises its failure / TimeoutError(function, timeout) / NoResultError; function called once with its arguments; the reactor never spins for ever; a late result does not replace the TimeoutError, an early one cancels the timeout; results of a previous run never show; reactor.stop is the crash substitute while spinning and the original afterwards; every available preserved signal saved before and re-installed after on every path; leftovers cancelled / removed and remembered as junk; stale junk refused before anything is touched. not_reentrant over the one boolean it guards (marked while running, unmarked on return and on any exception, nested entry refused without clearing the mark). Decided by abstract interpretation of the current source (effect logs over symbolic objects, all paths incl. exceptional ones, environment given by stated oracles); testtools is never imported or run."
    ),
    "note": (
        "Not decided: wall-clock timing, what a real reactor holds, identity of real signal handlers. The scripts cover the orders of 'fires', 'times out' and 'stop requested' that the property quantifies over, at the granularity of reactor iterations." + TRUSTED
    ),
}

CHECKS['C13'] = {
    "technique": 'effect-log abstract interpretation against schedules of worker events and an interrupt at every external call',
    "text": (
        "Worker wrapper: for a sub-suite that returns, raises an Exception or is interrupted (and a holder whose run() may raise) -- run() called once with the per-worker result, exactly one completion signal on every path and nothing after it, a crash contained and reported as ErrorHolder('broken-runner...', error=sys.exc_info()) against the same result. Coordinator: two sub-suites, threads / queue / semaphore / per-worker results as numbered symbolic objects, the queue replaying every schedule of a table of worker-event orders and raising Deadlock when run() waits for an event nobody sends -- one started Thread per sub-suite running the wrapper, return only after every thread was joined and every event consumed, registration before start, an interrupt at each external call propagates after stop() on every worker not yet finished, one shared Semaphore(1)/queue, per-worker pipelines, status events forwarded unchanged in order, a worker forgotten only on its own stopTestRun, unknown events rejected. Decided by abstract interpretation of the current source (effect logs over symbolic objects, all paths incl. exceptional ones, environment given by stated oracles); testtools is never imported or run."
    ),
    "note": (
        'Real thread interleavings and liveness of user code are not decided; the rules establish the join/signal/abort discipline that makes them irrelevant, for two workers and the listed event orders. Assumes Thread.join and an unbounded thread-safe Queue.' + TRUSTED
    ),
}

CHECKS['C18'] = {
    "technique": 'abstract interpretation of the code as written over objects built by their real constructors (ttsa.objects: instances, heap, closures, properties, lazy generators), driven by scenario tables; rules read ordered call logs -- StreamResultRouter driven through histories (ttsa.rules.streamobjects)',
    "text": (
        "Each event reaches exactly one sink (route-prefix rule, then test-id rule, then fallback; only the first segment selects; no destination is an error), also after rules were added or replaced mid-stream; the sink sees every field unchanged and the route code without exactly its first segment under a consuming rule (None when nothing is left); StreamToQueue's prefixing and a consuming rule are inverse; startTestRun / stopTestRun reach exactly the registered sinks once per run over two runs, including a sink that joined mid-run; unknown policies are refused before any state change."
    ),
    "note": (
        'One genuine defect was found and repaired (fix 5c368c2: a mid-run rule without do_start_stop_run was started and never stopped).' + TRUSTED
    ),
}

CHECKS['C11'] = {
    "technique": 'abstract interpretation of the code as written over objects built by their real constructors (ttsa.objects: instances, heap, closures, properties, lazy generators), driven by scenario tables; rules read ordered call logs -- stream decorators fed events (ttsa.rules.streamobjects) + local alias analysis',
    "text": (
        "CopyStreamResult, StreamTagger, TimestampingStreamResult, StreamFailFast and StreamToQueue: every event method reaches every target once, in list order, during the call; every status field arrives unchanged except the owned one, which changes only as documented (tags: (incoming | add) - discard or None; timestamp: only when missing; fail-fast: 'fail' and 'uxsuccess' only; queue: route code prefixed); the caller's tag set is the same object with the same members afterwards. Alias rule over every StreamResult subclass: no in-place mutation of a value received from the caller."
    ),
    "note": (
        "One genuine defect was found and repaired (fix aadd093: StreamTagger mutated the caller's tag set)." + TRUSTED
    ),
}

CHECKS['C04'] = {
    "technique": "abstract interpretation of the code as written over objects built by their real constructors (ttsa.objects: instances, heap, closures, properties, lazy generators), driven by scenario tables; rules read ordered call logs -- client programs given as source and run as written (ttsa.rules.resultmodel), unittest.TestResult followed in the standard library's source",
    "text": (
        "Ten stacks of testtools' own results (TestResult, TextTestResult, ExtendedToOriginalDecorator, TestResultDecorator, Tagger, MultiTestResult, ThreadsafeForwardingResult, two-level stacks) x six outcomes: wasSuccessful() of wrapper and wrapped result is False exactly after an error, a failure or an unexpected success, also when a passing test follows; a new startTestRun resets verdict, collections, counters and the stop flag and keeps failfast; with failfast set (on the target before wrapping, or on the wrapper after) shouldStop is False after startTest and True after the outcome exactly for the three failing outcomes; stop() reaches every wrapped result; the same under the decorator over 2.6-style and foreign results and for ExtendedToStreamDecorator with StreamFailFast. TextTestResult's writes after histories with 0..3 problems: count, OK iff successful, FAILED (failures=N), one section per problem. TestToolsTestRunner.run and TestProgram.runTests: failfast handed on, run bracketed also when the test raises, exit status = not wasSuccessful()."
    ),
    "note": (
        "One genuine defect was found by these runs and repaired (fix 715f821: wrapping a result in MultiTestResult switched its failfast off); one is a recorded known finding (ThreadsafeForwardingResult keeps a failfast of its own). The stream summary's verdict for unexpected successes is the repository's documented policy and is not demanded. Elapsed-time text of the summary is not decided." + TRUSTED
    ),
}

CHECKS['C08'] = {
    "technique": 'abstract interpretation of the code as written over objects built by their real constructors (ttsa.objects: instances, heap, closures, properties, lazy generators), driven by scenario tables; rules read ordered call logs -- client programs given as source over three flavours of symbolic target results',
    "text": (
        'Every outcome x {exc_info / reason, details} through ExtendedToOriginalDecorator to a 2.6-style, a 2.7-style and an extended result (a target without details= answers the attempt with TypeError): exactly one accepted delivery, of the method the documented degradation table names, with the test first and -- where details had to be converted -- an exc_info triple / reason made from all of them; a failing outcome never arrives as a passing one. Full histories (startTestRun, time, tags, startTest, outcome, time, stopTest, stop, time(None), stopTestRun) through TestResultDecorator, Tagger, MultiTestResult and two-level stacks reach each target once, in order, with arguments. TestByTestResult over two tests: one callback per test at stopTest with status word, times, tags current in the test and details; nothing carried over. An empty details dict / an empty reason counts as given; neither or both is refused. A PlaceHolder reports every outcome to every flavour. Class table: attributes read on reported tests exist on TestCase and PlaceHolder. Every wrapper over every wrapper (two levels, 15 stacks of TestResultDecorator / Tagger / MultiTestResult / ExtendedToOriginalDecorator): a call survives each way the classes name their parameters.'
    ),
    "note": (
        'The text inside synthetic exceptions is only required to be made from all details. One genuine defect is recorded as known findings (a PlaceHolder reporting an unexpected success to a 2.6-style result raises): two class-table sites and the scenario in which it happens.' + TRUSTED
    ),
}

CHECKS['C01'] = {
    "technique": 'abstract interpretation of the code as written over objects built by their real constructors (ttsa.objects: instances, heap, closures, properties, lazy generators), driven by scenario tables; rules read ordered call logs -- TestCase.run with scripted user code (ttsa.rules.casemodel)',
    "text": (
        'A TestCase is built by its real __init__ and run(); RunTest, the handler table, the result adapter and everything they create are interpreted; setUp / test / tearDown / cleanup are scripts that return or raise (failure, error, skip, KeyboardInterrupt, SystemExit, MultipleExceptions), the result logs. Over 43 combinations of stage outcomes and further scenarios (unittest.skip markers, a 2.6-style result, a result method that raises, run() without a result, a second run): startTest first and stopTest last exactly once; exactly one outcome, a success only if nothing raised; no user exception escapes except a non-Exception one, which is reported as an error, lets the later stages run and is re-raised after stopTest; the default result is bracketed by startTestRun / stopTestRun. A KeyboardInterrupt that arrives inside a MultipleExceptions (one to three levels deep, from the test and from a cleanup) is reported, the later stages run, and it is re-raised after stopTest.'
    ),
    "note": (
        'Decides every path of the runner for the scripted programs; programs differ from real ones only in what user code does between calls of the TestCase API (it returns or raises, possibly after calling that API). Behaviour when an addOnException handler raises is only required to keep the bracket. Per-flavour delivery of the calls is C08. One genuine defect is a recorded known finding (an empty MultipleExceptions yields no outcome).' + TRUSTED
    ),
}

CHECKS['C03'] = {
    "technique": 'abstract interpretation of the code as written over objects built by their real constructors (ttsa.objects: instances, heap, closures, properties, lazy generators), driven by scenario tables; rules read ordered call logs -- TestCase.run with scripted user code',
    "text": (
        "Over stage-outcome combinations (incl. several cleanups of which one fails): addSuccess iff nothing raised. One exception of each kind -- failure, error, skip, expected failure, unexpected success, user subclasses of those, exceptions made without arguments, KeyboardInterrupt / SystemExit -- in each stage gives exactly the outcome its type maps to. (class, handler) pairs the user puts first / last in exception_handlers take part in list order and receive (case, result, exception). An expectThat mismatch in any stage does not raise, the stage goes on, the finished test is a failure; force_failure survives later skips / expected failures. For every ordered pair of stages (same stage: one MultipleExceptions; two cleanups), a failure / error raised first and a skip / expected failure raised later must leave an unsuccessful outcome. Handlers the user's own code inserts into exception_handlers while the test runs (in setUp, in the test) take part in list order like those put there before run()."
    ),
    "note": (
        "The never-masked clause is violated by today's code: eight (first stage, later stage) pairs are recorded known findings (last-exception-wins outcome selection) and printed on every run; they are keyed by the pair, so a different masking path is still reported. Matchers are scripted (match() returns None or a mismatch); real matcher semantics are C06." + TRUSTED
    ),
}

CHECKS['C02'] = {
    "technique": 'abstract interpretation of the code as written over objects built by their real constructors (ttsa.objects: instances, heap, closures, properties, lazy generators), driven by scenario tables; rules read ordered call logs -- TestCase.run with scripted user code; receiver-sensitive class-hierarchy analysis for call shapes',
    "text": (
        "Stage outcomes x cleanup registration sites (setUp, test, tearDown, a cleanup that runs first, the one that runs last) x raising cleanups (Exception and KeyboardInterrupt): setUp first, test and tearDown iff setUp returned, then every cleanup exactly once with its arguments in reverse registration order (one registered while the cleanups run is the next to run), none left registered; a missing upcall is an error and does not stop the cleanups. patch() of an existing and a non-existing attribute and the same one twice: the new value holds during the test, the pre-test value or absence after run(), whatever raises; MonkeyPatcher alone likewise; useFixture sets up, registers cleanUp in LIFO position, a failing fixture setUp is the test's error. Nine programs run twice on one instance give the same history twice. The Twisted runner's drain loop is run the same way (model shared with C14). R-CALL-SHAPE: every self.m(...) / super().m(...) call shape is accepted by the method it resolves to for every receiver class whose reachable bodies contain it."
    ),
    "note": (
        'The rerun clause compares identical programs, as the property does (an attribute that only matters when the second run behaves differently -- force_failure is not reset -- is noted in DESIGN.md 15.5, not claimed). Internals of the fixtures package are modelled (setUp / cleanUp / getDetails), not followed.' + TRUSTED
    ),
}

CHECKS['C05'] = {
    "technique": 'abstract interpretation of the code as written over objects built by their real constructors (ttsa.objects: instances, heap, closures, properties, lazy generators), driven by scenario tables; rules read ordered call logs -- TestCase.run with scripted user code, fixtures, matchers and handlers',
    "text": (
        "What is read is the `details` argument of the one outcome call. For every outcome kind the details contain every detail attached by any stage, as attached, plus the skip / expected-failure reason (also the default one); exactly one TracebackContent per failure / error raised -- each constituent of a (nested) MultipleExceptions, the assertion behind an expected failure -- built from that exception's exc_info, none for outcome signals; user details named like generated ones ('traceback', 'traceback-1', 'Failed expectation', a fixture's and a mismatch's names, also attached between two exceptions) are all still there unchanged next to the generated ones; every detail of the mismatch of a failing assertThat / expectThat arrives; every addOnException handler is called once per exception with its exc_info before the outcome; a fixture's details -- also when its setUp fails -- arrive as copies read when gathered (_copy_content run against a source that keeps changing); the Twisted runner attaches the debug info of every unhandled Deferred through addDetailUniqueName. Every sparse subset of the names a traceback could get (traceback, traceback-1, -2, -3) taken by user details, with three failing stages: three tracebacks are added and nothing is replaced."
    ),
    "note": (
        'Byte content of real Content objects is C16; here contents are symbolic objects whose identity and time of reading are tracked. Names are only required to be distinct, not to follow a numbering scheme.' + TRUSTED
    ),
}

CHECKS['C07'] = {
    "technique": 'class-table rules over every matcher and mismatch class + abstract interpretation of the code as written over objects built by their real constructors (ttsa.objects: instances, heap, closures, properties, lazy generators), driven by scenario tables; rules read ordered call logs for assertThat / expectThat / assert_that / MismatchError',
    "text": (
        "Class table: __str__ of every stock matcher resolves to a concrete body; every self.x read resolves to an assigned attribute; every mismatch class has a describe() that returns text on all paths and a get_details() that returns a dict. Run as written with a scripted matcher: assertThat stops the test with a failure exactly when match() returned a mismatch, raising MismatchError(matchee, matcher, mismatch, verbose) (also annotated, also verbose); assertions.assert_that likewise; str() of a MismatchError for text / bytes / number / tuple matchees, verbose or not, never raises, is the mismatch's description and quotes text through text_repr; expectThat never raises, the stage goes on, and the finished test is a failure whatever later stages raise (scenarios shared with C03). No mismatch class defines __bool__ / __len__ (the helpers test `if mismatch`: a falsy mismatch would pass for a match)."
    ),
    "note": (
        'The text_repr round trip over all code points and the wording of descriptions are value properties and are not decided (seed S-C07-b is outside reach).' + TRUSTED
    ),
}

CHECKS['C06'] = {
    "technique": 'class-table rules (return kinds, falsy mismatches, purity / alias analysis, order independence) + abstract interpretation of the code as written over objects built by their real constructors (ttsa.objects: instances, heap, closures, properties, lazy generators), driven by scenario tables; rules read ordered call logs for the combinators',
    "text": (
        '23 combinator expressions -- Not, Annotate, AfterPreprocessing, MatchesAll (also first_only), MatchesAny, AllMatch, AnyMatch, MatchesListwise (equal and unequal lengths), MatchesStructure (also a None attribute), MatchesAllDict, MatchesDict / ContainsDict / ContainedByDict on dicts with missing, extra and common keys, Raises over a callable that returns / raises / is interrupted -- are built over scripted component matchers and run for every combination of component verdicts: match() returns None exactly when the declared truth function holds and otherwise an object, never a bool, a string or a collection. Class-table rules over every stock matcher: match() return kinds, no mismatch object can be falsy, matching stores nothing on the matcher and mutates neither matcher nor matchee, no first-match selection over a hash-ordered set; %-formatting of a matchee is decided by running the function on a tuple and on a non-tuple matchee. Option and shape variants of the truth tables (MatchesListwise under first_only with wrong lengths, combinators without components, AfterPreprocessing(annotate=False)): an option that only chooses what is reported does not change the verdict.'
    ),
    "note": (
        "Leaf predicates over values (Equals, SameMembers as a multiset, regex and filesystem matchers) are value properties and not decided; MatchesSetwise's assignment search is covered by the order-independence rule and its repaired implementation (fix f09af48), not by a truth table." + TRUSTED
    ),
}

CHECKS['C17'] = {
    "technique": 'typestate over all method histories (context followed by value through aliases) + effect-log runs + symbolic set algebra',
    "text": (
        "For every class that owns a TagContext chain the methods startTestRun / startTest / stopTest / tags / current_tags are interpreted over the abstract context (depth 0 / 1 / 2+, None, unset; followed through self._tags, locals and .parent); all histories are explored to closure: no None/unset dereference, stopTest never pops the run level (also the start-less stopTest unittest emits), push/pop inverse, siblings agree. TagContext on symbolic set expressions: a child starts from a fresh copy of the parent's tags, get_current_tags hands out a fresh set, change_tags is (own | new) - gone on its own set. ThreadsafeForwardingResult: tags() changes the per-test buffer iff a test is open, always the forwarder's own context, never the target; the block replays run-level then test tags, each iff non-empty. Stream side: the record keeps the latest tags an event carried; the final status carries current_tags; PlaceHolder adds and removes the same tags around its bracket. Decided by abstract interpretation of the current source (effect logs over symbolic objects, all paths incl. exceptional ones, environment given by stated oracles); testtools is never imported or run."
    ),
    "note": (
        'Decides scoping (which context/buffer a change lands in), not the set values a particular program computes.' + TRUSTED
    ),
}

CHECKS['C09'] = {
    "technique": 'abstract interpretation of the code as written over objects built by their real constructors (ttsa.objects: instances, heap, closures, properties, lazy generators), driven by scenario tables; rules read ordered call logs -- both stream decorators driven through histories (ttsa.rules.streamobjects)',
    "text": (
        "ExtendedToStreamDecorator fed TestResult calls whose details hand out 0 / 1 / several chunks: one 'inprogress' event, per detail its chunks once and in order with eof exactly on the last, one final status event last; every event carries the id, the supplied (else current) time, name / bytes / MIME type, the final one status and current tags; each outcome travels as its documented status. The round trip through StreamToExtendedDecorator gives one bracket per test with the same id, outcome (error as failure), tags, times, skip reason and every non-empty detail with its bytes and content type; tests left in progress are replayed as failures. A detail whose first chunk is the very object its last chunk is gets eof on the last chunk only."
    ),
    "note": (
        "Chunk contents are constants of the scenarios; arbitrary byte values are C16's subject." + TRUSTED
    ),
}

CHECKS['C10'] = {
    "technique": 'abstract interpretation of the code as written over objects built by their real constructors (ttsa.objects: instances, heap, closures, properties, lazy generators), driven by scenario tables; rules read ordered call logs -- stream consumers driven through event histories (ttsa.rules.streamobjects)',
    "text": (
        "StreamToDict, StreamSummary and StreamToExtendedDecorator fed histories that use every status, several tests at once, the same id under two route codes, events without id, attachments in several chunks, an 'exists' announcement for a test under way, positional arguments: each test is reported exactly once (at its final status or as incomplete at stopTestRun) with its last status, latest tags, first and last timestamps and chunks in arrival order; nothing stays in the table; testsRun counts each non-'exists' test once, each lands in the list its status names, failed and incomplete tests make wasSuccessful() false."
    ),
    "note": (
        'Histories are those of the scenario table (section 15.4 of DESIGN.md); the per-event behaviour they establish composes over longer ones.' + TRUSTED
    ),
}

CHECKS['C16'] = {
    "technique": 'obligation-tracking abstract interpretation of the read loop + effect-log runs on modelled streams / decoders + closures applied after construction',
    "text": (
        "_iter_chunks: every value read is yielded once in order or is falsy and ends the loop; on a modelled stream every read asks for chunk_size, the chunks come out in order, seek(offset, whence) first iff an offset is given (0 counts). _iter_text: one incremental decoder for the declared charset (ISO-8859-1 default), every chunk decoded in order, exactly one final flush whose non-empty result is yielded; the concatenated text is the decoded chunks. content_from_reader / _file / _stream: the byte source handed to Content is applied *after* the constructor returned -- nothing is touched before unless buffer_now; buffered content was read exactly once, chunk for chunk, can be read again and is not a one-shot iterator; chunk size and seek arguments reach the stream; the file is opened 'rb' under with. text_content / json_content bytes decode back in the declared charset. Content.__eq__ is equality of type and concatenated bytes however chunked; ContentType renders every parameter sorted. The copies made when details are gathered are materialised at copy time. Decided by abstract interpretation of the current source (effect logs over symbolic objects, all paths incl. exceptional ones, environment given by stated oracles); testtools is never imported or run."
    ),
    "note": (
        'Round trips over the full Unicode range, all cut positions and MIME re-parsing are value properties and are not decided; the codecs incremental-decoder contract is assumed.' + TRUSTED
    ),
}

CHECKS['C19'] = {
    "technique": 'inductive step on a symbolic tree node (abstract interpretation with recursive calls answered symbolically) + effect-log scenario runs + unused-result rule',
    "text": (
        "iterate_tests / filter_by_ids / _flatten_tests are interpreted for every kind of node (test case, case with own filter_by_ids, plain TestSuite, custom suite with / without sort_tests or filter_by_ids, empty suites, a foreign object) with their recursive calls answered symbolically: a leaf is yielded itself and the leaves of every child once in order; filtering delegates to an own filter_by_ids, keeps a case iff its id is listed (else an empty TestSuite), filters every child once and replaces the suite's tests by the results in order; flattening gives (id, case), concatenates children of a plain suite, keeps a custom suite whole under its first test's id and calls sort_tests once. sorted_tests rejects duplicate ids before anything is flattened and returns the flattened tests ordered by key. TestProgram.__init__ for --list / --load-list on and off and runners with and without list(): the ids of every line (stripped, decoded) reach filter_by_ids whose result replaces self.test before anything runs or lists; listing prints every id. Results of filter_by_ids / sorted_tests are used at every call site. Decided by abstract interpretation of the current source (effect logs over symbolic objects, all paths incl. exceptional ones, environment given by stated oracles); testtools is never imported or run."
    ),
    "note": (
        'Whole-tree permutation properties follow from the per-node steps by induction and are not re-derived on concrete trees. Known finding: an empty custom suite gets the sort key None.' + TRUSTED
    ),
}

CHECKS['C20'] = {
    "technique": 'abstract interpretation with Deferred chains as values, per Deferred state (unfired / fired / failed / paused) and per inner-matcher answer + who-may-call rule',
    "text": (
        "on_deferred_result calls exactly the callback for the Deferred's state with the Deferred and its result and returns its answer; afterwards the Deferred is in the state it was in (a value it is fired with later reaches later callbacks unchanged through the capture callbacks). has_no_result / succeeded(m) / failed(m): None only for the matching state and m's own answer (m asked once with the value resp. Failure), a Mismatch otherwise -- so with Always() exactly one of the three matches; a successful result and an unfired Deferred are left intact; a failure inspected by succeeded() or failed() is consumed. extract_result returns the value / raises the failure's exception / raises DeferredNotFired (also for a chain paused on a nested Deferred). SynchronousDeferredRunTest._run_user per kind of user function (returns, raises, fired / failed / pending Deferred). No call of callback / errback / cancel on a Deferred in the matcher modules (expected count 0, positive example embedded). Decided by abstract interpretation of the current source (effect logs over symbolic objects, all paths incl. exceptional ones, environment given by stated oracles); testtools is never imported or run."
    ),
    "note": (
        'Values inside results are symbolic; the inner matcher is an oracle with both answers.' + TRUSTED
    ),
}

CHECKS['C14'] = {
    "technique": "effect-log abstract interpretation + Deferred chains as abstract values (Twisted's chain semantics)",
    "text": (
        'AsynchronousDeferredRunTest._run_core for the 24 combinations of its problem sources (blocking run ok / failed / timed out / interrupted x logged errors x unhandled Deferreds x junk) against symbolic fixtures, spinner and result: addSuccess(case, details=case.getDetails()) exactly once iff all clean; every logged error / unhandled failure / junk / timeout / interrupt recorded through the right recorder exactly once (result.stop() on interrupt); every source collected once; the reactor spun inside both fixtures which are left on every path. _run_deferred, _run_user and _run_cleanups with Deferreds as abstract values, one run per outcome of every stage: setUp, then test and tearDown iff setUp succeeded, then cleanups, then the forced failure; verdict True iff nothing failed; every failure recorded once -- also when recording itself raises; cleanups LIFO under any exception with tracebacks reported and the last exception returned; log-observer fixtures restore what they changed, also after a partial failure. Decided by abstract interpretation of the current source (effect logs over symbolic objects, all paths incl. exceptional ones, environment given by stated oracles); testtools is never imported or run.'
    ),
    "note": (
        "Timing, real reactor behaviour and Deferred firing order are not decided (a chain's final result does not depend on when its Deferreds fire, so already-fired Deferreds are used). Found and fixed f5a74f9 (a failure raised while recording a failure was swallowed)." + TRUSTED
    ),
}
