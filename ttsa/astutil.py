"""Small helpers over the stdlib ``ast``."""

import ast

FUNC_TYPES = (ast.FunctionDef, ast.AsyncFunctionDef)
SCOPE_TYPES = (ast.FunctionDef, ast.AsyncFunctionDef, ast.Lambda, ast.ClassDef)


def norm(node):
    """Normalised source text of a node (line-number free)."""
    if node is None:
        return "<none>"
    try:
        return ast.unparse(node)
    except Exception:  # pragma: no cover - defensive
        return ast.dump(node)


def short(node, limit=90):
    text = " ".join(norm(node).split())
    if len(text) > limit:
        text = text[: limit - 3] + "..."
    return text


def head(node, limit=90):
    """First line of a (possibly compound) statement."""
    text = norm(node).split("\n")[0]
    if len(text) > limit:
        text = text[: limit - 3] + "..."
    return text


def attr_chain(expr):
    """``a.b.c`` -> ['a', 'b', 'c']; ``super().m`` -> ['super()', 'm']; else None."""
    parts = []
    while isinstance(expr, ast.Attribute):
        parts.append(expr.attr)
        expr = expr.value
    if isinstance(expr, ast.Name):
        parts.append(expr.id)
    elif (
        isinstance(expr, ast.Call)
        and isinstance(expr.func, ast.Name)
        and expr.func.id == "super"
    ):
        parts.append("super()")
    else:
        return None
    parts.reverse()
    return parts


def dotted(expr):
    c = attr_chain(expr)
    return ".".join(c) if c else None


def walk_shallow(node, include_self=True):
    """Walk a subtree without entering nested function / class / lambda bodies."""
    stack = [node]
    first = True
    while stack:
        n = stack.pop()
        if first:
            first = False
            if include_self:
                yield n
        else:
            yield n
            if isinstance(n, SCOPE_TYPES):
                continue
        children = list(ast.iter_child_nodes(n))
        children.reverse()
        stack.extend(children)


def walk_body(stmts):
    for s in stmts:
        if isinstance(s, SCOPE_TYPES):
            yield s
            continue
        yield from walk_shallow(s)


def calls_in(node, shallow=True):
    it = walk_shallow(node) if shallow else ast.walk(node)
    for n in it:
        if isinstance(n, ast.Call):
            yield n


def call_name(call):
    """Dotted name of the callee expression or None."""
    return dotted(call.func)


def is_call(node, *names):
    """Is ``node`` a Call whose dotted callee is one of names?"""
    return isinstance(node, ast.Call) and dotted(node.func) in names


def method_call(node, method):
    """Is node a Call ``<anything>.method(...)``?  Returns the receiver expr."""
    if (
        isinstance(node, ast.Call)
        and isinstance(node.func, ast.Attribute)
        and node.func.attr == method
    ):
        return node.func.value
    return None


def qualname(node):
    """module-relative qualified name of a def/class node."""
    parts = []
    n = node
    while n is not None:
        if isinstance(n, (ast.FunctionDef, ast.AsyncFunctionDef, ast.ClassDef)):
            parts.append(n.name)
        elif isinstance(n, ast.Lambda):
            parts.append("<lambda>")
        n = getattr(n, "_parent", None)
    parts.reverse()
    return ".".join(parts)


def enclosing_qualname(node):
    f = getattr(node, "_func", None)
    if f is not None:
        return qualname(f)
    c = getattr(node, "_class", None)
    if c is not None:
        return qualname(c)
    return "<module>"


def loc(node):
    m = getattr(node, "_module", None)
    rel = m.relpath if m is not None else "?"
    return f"{rel}:{getattr(node, 'lineno', 0)}"


def enclosing_stmt(node):
    n = node
    while n is not None and not isinstance(n, ast.stmt):
        n = getattr(n, "_parent", None)
    return n


def params(func):
    """All parameter names of a def, in order, incl. *args/**kwargs names."""
    a = func.args
    names = [x.arg for x in a.posonlyargs + a.args]
    if a.vararg:
        names.append(a.vararg.arg)
    names += [x.arg for x in a.kwonlyargs]
    if a.kwarg:
        names.append(a.kwarg.arg)
    return names


def is_const(node, value=...):
    if not isinstance(node, ast.Constant):
        return False
    return value is ... or (node.value == value and type(node.value) is type(value))


def is_none(node):
    return isinstance(node, ast.Constant) and node.value is None


def names_in(node):
    return {n.id for n in ast.walk(node) if isinstance(n, ast.Name)}


def is_stub_body(func):
    """Body is only a docstring / pass / ``raise NotImplementedError(...)``."""
    body = list(func.body)
    if (
        body
        and isinstance(body[0], ast.Expr)
        and isinstance(body[0].value, ast.Constant)
        and isinstance(body[0].value.value, str)
    ):
        body = body[1:]
    if not body:
        return "empty"
    if len(body) == 1:
        s = body[0]
        if isinstance(s, ast.Pass):
            return "empty"
        if isinstance(s, ast.Raise) and s.exc is not None:
            e = s.exc
            if isinstance(e, ast.Call):
                e = e.func
            if isinstance(e, ast.Name) and e.id == "NotImplementedError":
                return "abstract"
    return None


def find_function(tree, qual):
    """Find a def by dotted qualname relative to a module tree (or class)."""
    parts = qual.split(".")
    cur = tree
    for p in parts:
        found = None
        for child in ast.iter_child_nodes(cur):
            if (
                isinstance(child, (ast.FunctionDef, ast.AsyncFunctionDef, ast.ClassDef))
                and child.name == p
            ):
                found = child
        if found is None:
            # also look inside function bodies one level (nested defs)
            for child in ast.walk(cur):
                if (
                    isinstance(
                        child, (ast.FunctionDef, ast.AsyncFunctionDef, ast.ClassDef)
                    )
                    and child.name == p
                    and child is not cur
                ):
                    found = child
                    break
        if found is None:
            return None
        cur = found
    return cur
