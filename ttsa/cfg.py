"""E3: exceptional control-flow graph per function.

Built by a continuation-passing walk of the statement tree.  ``finally``
bodies and ``with`` exits are cloned per exit kind (normal, exception, return,
break, continue) so that "on all paths" includes exceptional ones.

Edge kinds: 'next', 'true', 'false', 'exc', 'iter', 'done', 'handler', 'nomatch'.
"""

import ast
from collections import deque

from .astutil import SCOPE_TYPES, attr_chain, norm, walk_shallow
from .loader import Undecided

CATCH_ALL_NAMES = ("BaseException",)
NORETURN_CALLS = ("reraise", "sys.exit", "os._exit", "compat.reraise")


def dotted_name(expr):
    ch = attr_chain(expr)
    return ".".join(ch) if ch else None


def expr_may_raise(expr, attr_may_raise=False):
    """May-raise oracle for an expression (see DESIGN.md E3)."""
    if expr is None:
        return False
    for n in walk_shallow(expr):
        if isinstance(n, (ast.Call, ast.Yield, ast.YieldFrom, ast.Await)):
            return True
        if isinstance(n, ast.Subscript) and isinstance(n.ctx, ast.Load):
            return True
        if isinstance(n, (ast.ListComp, ast.SetComp, ast.DictComp, ast.GeneratorExp)):
            # iteration step inside a comprehension (generator exps are lazy but
            # are nearly always consumed in the same statement)
            return True
        if attr_may_raise and isinstance(n, ast.Attribute):
            ch = attr_chain(n)
            if not (ch and ch[0] == "self" and len(ch) == 2):
                return True
    return False


def stmt_may_raise(stmt, attr_may_raise=False):
    if isinstance(stmt, (ast.Raise, ast.Assert, ast.Delete)):
        return True
    if isinstance(stmt, (ast.Import, ast.ImportFrom)):
        return True
    if isinstance(stmt, ast.Assign):
        for t in stmt.targets:
            if isinstance(t, (ast.Tuple, ast.List)):
                return True
            if isinstance(t, ast.Subscript):
                return True
        return expr_may_raise(stmt.value, attr_may_raise)
    if isinstance(stmt, ast.AugAssign):
        return True if isinstance(stmt.target, ast.Subscript) else expr_may_raise(
            stmt.value, attr_may_raise
        )
    if isinstance(stmt, ast.AnnAssign):
        return expr_may_raise(stmt.value, attr_may_raise)
    if isinstance(stmt, (ast.Expr, ast.Return)):
        return expr_may_raise(stmt.value, attr_may_raise)
    if isinstance(stmt, (ast.Pass, ast.Break, ast.Continue, ast.Global, ast.Nonlocal)):
        return False
    if isinstance(stmt, SCOPE_TYPES):
        return False
    return True


class Node:
    __slots__ = ("id", "kind", "ast", "label", "clone")

    def __init__(self, id, kind, astnode=None, label="", clone=""):
        self.id = id
        self.kind = kind
        self.ast = astnode
        self.label = label
        self.clone = clone  # which finally-clone this node belongs to

    @property
    def line(self):
        return getattr(self.ast, "lineno", 0)

    def describe(self):
        if self.ast is not None and self.kind in ("stmt", "test", "return", "raise"):
            text = norm(self.ast).split("\n")[0]
        else:
            text = self.label or self.kind
        c = f" [{self.clone}]" if self.clone else ""
        return f"L{self.line}:{self.kind}:{text[:70]}{c}"

    def __repr__(self):
        return f"<N{self.id} {self.describe()}>"


class CFG:
    def __init__(self, func):
        self.func = func
        self.nodes = []
        self.succ = {}
        self.pred = {}
        self.entry = None
        self.exit_return = self._new("exit_return", label="<return>")
        self.exit_raise = self._new("exit_raise", label="<raise>")

    def _new(self, kind, astnode=None, label="", clone=""):
        n = Node(len(self.nodes), kind, astnode, label, clone)
        self.nodes.append(n)
        self.succ[n.id] = []
        self.pred[n.id] = []
        return n.id

    def edge(self, a, b, kind="next"):
        if (b, kind) not in self.succ[a]:
            self.succ[a].append((b, kind))
            self.pred[b].append((a, kind))

    @property
    def exits(self):
        return (self.exit_return, self.exit_raise)

    def node(self, i):
        return self.nodes[i]

    def where(self, pred):
        return [n.id for n in self.nodes if pred(n)]

    def nodes_for(self, astnode):
        """All CFG nodes (clones) that evaluate ``astnode`` (or are that statement)."""
        out = []
        for n in self.nodes:
            if n.ast is None:
                continue
            if n.ast is astnode and n.kind in ("stmt", "return", "raise"):
                out.append(n.id)
                continue
            for host in node_exprs(n):
                if any(sub is astnode for sub in walk_shallow(host)):
                    out.append(n.id)
                    break
        return out

    # -- reachability ---------------------------------------------------------
    def reach(self, starts, avoid=(), edge_ok=None):
        """Nodes reachable from starts (inclusive) without entering ``avoid``."""
        avoid = set(avoid)
        seen = {}
        dq = deque()
        for s in starts:
            if s not in avoid and s not in seen:
                seen[s] = None
                dq.append(s)
        while dq:
            a = dq.popleft()
            for b, kind in self.succ[a]:
                if edge_ok is not None and not edge_ok(a, b, kind):
                    continue
                if b in avoid or b in seen:
                    continue
                seen[b] = a
                dq.append(b)
        return seen

    def path_to(self, seen, target):
        path = []
        cur = target
        while cur is not None:
            path.append(cur)
            cur = seen[cur]
        path.reverse()
        return path

    def after(self, node, kinds=None, exclude=("exc",)):
        """Successors of node over selected edge kinds (default: non-exceptional)."""
        out = []
        for b, kind in self.succ[node]:
            if kinds is not None and kind not in kinds:
                continue
            if kinds is None and kind in exclude:
                continue
            out.append(b)
        return out

    def escape_path(self, starts, through, targets=None):
        """A path from ``starts`` to an exit (or targets) that avoids ``through``.

        Returns None when every path passes through one of ``through``.
        """
        targets = set(self.exits if targets is None else targets)
        seen = self.reach(starts, avoid=through)
        for t in targets:
            if t in seen:
                return self.path_to(seen, t)
        return None

    def dominated_by(self, node, doms):
        """Is every entry->node path forced through one of ``doms``?"""
        if node in doms:
            return True
        seen = self.reach([self.entry], avoid=doms)
        return node not in seen

    def describe_path(self, path):
        return [self.nodes[i].describe() for i in path]


class _Ctx:
    """Continuations: node ids or thunks producing them (memoised)."""

    __slots__ = ("_k", "_memo")

    def __init__(self, **k):
        self._k = k
        self._memo = {}

    def get(self, name):
        if name in self._memo:
            return self._memo[name]
        v = self._k.get(name)
        if callable(v):
            v = v()
        self._memo[name] = v
        return v

    def derive(self, **k):
        base = {}
        for name in ("next", "ret", "exc", "brk", "cont"):
            if name in k:
                base[name] = k[name]
            else:
                base[name] = (lambda n=name: self.get(n))
        return _Ctx(**base)


class Builder:
    def __init__(self, func, attr_may_raise=False, with_swallows=()):
        self.func = func
        self.cfg = CFG(func)
        self.attr_may_raise = attr_may_raise
        self.with_swallows = with_swallows
        self.clone = ""

    def build(self):
        cfg = self.cfg
        ctx = _Ctx(
            next=cfg.exit_return,
            ret=cfg.exit_return,
            exc=cfg.exit_raise,
            brk=None,
            cont=None,
        )
        body = self.func.body
        if isinstance(self.func, ast.Lambda):
            n = cfg._new("return", self.func.body)
            cfg.edge(n, cfg.exit_return)
            if expr_may_raise(self.func.body, self.attr_may_raise):
                cfg.edge(n, cfg.exit_raise, "exc")
            entry = n
        else:
            entry = self.seq(body, ctx)
        e = cfg._new("entry", label="<entry>")
        cfg.edge(e, entry)
        cfg.entry = e
        return cfg

    # sequencing -------------------------------------------------------------
    def seq(self, stmts, ctx):
        """Build ``stmts`` backwards; returns the entry node of the sequence."""
        entry = None
        for stmt in reversed(stmts):
            c = ctx if entry is None else ctx.derive(next=entry)
            entry = self.stmt(stmt, c)
        if entry is None:
            return ctx.get("next")
        return entry

    def new(self, kind, astnode=None, label=""):
        return self.cfg._new(kind, astnode, label, self.clone)

    def _exc_edge(self, n, ctx):
        self.cfg.edge(n, ctx.get("exc"), "exc")

    # statements ---------------------------------------------------------------
    def stmt(self, s, ctx):
        cfg = self.cfg
        if isinstance(s, ast.Return):
            n = self.new("return", s)
            if expr_may_raise(s.value, self.attr_may_raise):
                self._exc_edge(n, ctx)
            cfg.edge(n, ctx.get("ret"))
            return n
        if isinstance(s, ast.Raise):
            n = self.new("raise", s)
            self._exc_edge(n, ctx)
            return n
        if isinstance(s, ast.Break):
            n = self.new("stmt", s)
            cfg.edge(n, ctx.get("brk"))
            return n
        if isinstance(s, ast.Continue):
            n = self.new("stmt", s)
            cfg.edge(n, ctx.get("cont"))
            return n
        if isinstance(s, ast.If):
            n = self.new("test", s)
            if expr_may_raise(s.test, self.attr_may_raise):
                self._exc_edge(n, ctx)
            const = _const_truth(s.test)
            if const is not False:
                cfg.edge(n, self.seq(s.body, ctx), "true")
            if const is not True:
                cfg.edge(
                    n, self.seq(s.orelse, ctx) if s.orelse else ctx.get("next"), "false"
                )
            return n
        if isinstance(s, ast.While):
            n = self.new("test", s)
            if expr_may_raise(s.test, self.attr_may_raise):
                self._exc_edge(n, ctx)
            body_ctx = ctx.derive(next=n, cont=n, brk=lambda: ctx.get("next"))
            const = _const_truth(s.test)
            if const is not False:
                cfg.edge(n, self.seq(s.body, body_ctx), "true")
            if const is not True:
                cfg.edge(
                    n, self.seq(s.orelse, ctx) if s.orelse else ctx.get("next"), "false"
                )
            return n
        if isinstance(s, (ast.For, ast.AsyncFor)):
            it = self.new("iter", s, label="iter " + norm(s.iter)[:50])
            if expr_may_raise(s.iter, self.attr_may_raise):
                self._exc_edge(it, ctx)
            head = self.new("for", s, label="for-next " + norm(s.target)[:40])
            cfg.edge(it, head)
            self._exc_edge(head, ctx)  # iteration step may raise
            body_ctx = ctx.derive(next=head, cont=head, brk=lambda: ctx.get("next"))
            cfg.edge(head, self.seq(s.body, body_ctx), "iter")
            cfg.edge(
                head, self.seq(s.orelse, ctx) if s.orelse else ctx.get("next"), "done"
            )
            return it
        if isinstance(s, (ast.With, ast.AsyncWith)):
            return self._with(s, ctx)
        if isinstance(s, ast.Try):
            return self._try(s, ctx)
        if hasattr(ast, "TryStar") and isinstance(s, ast.TryStar):
            raise Undecided(f"try/except* at line {s.lineno} not modelled")
        if isinstance(s, ast.Match):
            # a multi-way branch on the subject: each case body may run; unless a case is irrefutable (a bare capture / wildcard
            # without a guard), none may
            n = self.new("test", s)
            if expr_may_raise(s.subject, self.attr_may_raise):
                self._exc_edge(n, ctx)
            irrefutable = False
            for case in s.cases:
                cfg.edge(n, self.seq(case.body, ctx), "true")
                if case.guard is None and isinstance(case.pattern, ast.MatchAs) and case.pattern.pattern is None:
                    irrefutable = True
            if not irrefutable:
                cfg.edge(n, ctx.get("next"), "false")
            return n
        if isinstance(s, ast.Expr) and isinstance(s.value, ast.Call) and dotted_name(s.value.func) in NORETURN_CALLS:
            # helpers that always raise (testtools.compat.reraise, sys.exit)
            n = self.new("raise", s)
            self._exc_edge(n, ctx)
            return n
        # simple statements (incl. nested defs, which are just bindings)
        n = self.new("stmt", s)
        if stmt_may_raise(s, self.attr_may_raise):
            self._exc_edge(n, ctx)
        if isinstance(s, ast.Assert):
            pass
        cfg.edge(n, ctx.get("next"))
        return n

    def _cloned(self, tag, stmts, outer, target_name):
        """Thunk building a clone of a finally body that continues to outer.<name>."""

        created_in = self.clone

        def build():
            target = outer.get(target_name)
            if target is None:
                return None
            saved = self.clone
            self.clone = (created_in + "/" if created_in else "") + tag
            try:
                c = outer.derive(next=target)
                return self.seq(stmts, c)
            finally:
                self.clone = saved

        return build

    def _try(self, s, ctx):
        cfg = self.cfg
        outer = ctx
        if s.finalbody:
            line = s.lineno
            fin = _Ctx(
                next=self._cloned(f"finally@{line}:normal", s.finalbody, outer, "next"),
                ret=self._cloned(f"finally@{line}:return", s.finalbody, outer, "ret"),
                exc=self._cloned(f"finally@{line}:exc", s.finalbody, outer, "exc"),
                brk=self._cloned(f"finally@{line}:break", s.finalbody, outer, "brk"),
                cont=self._cloned(f"finally@{line}:continue", s.finalbody, outer, "cont"),
            )
        else:
            fin = outer
        after = fin  # where handlers / else / body go when done
        if s.handlers:
            disp = self.new("except", s, label="except-dispatch")
            catch_all = False
            for i, h in enumerate(s.handlers):
                hentry = self.seq(h.body, after)
                hn = self.new("handler", h, label="except " + norm(h.type)[:40] if h.type else "except:")
                cfg.edge(hn, hentry)
                cfg.edge(disp, hn, "handler")
                if handler_is_catch_all(h):
                    catch_all = True
                    break
            if not catch_all:
                cfg.edge(disp, after.get("exc"), "nomatch")
            body_exc = disp
        else:
            body_exc = lambda: after.get("exc")
        if s.orelse:
            else_entry = lambda: self.seq(s.orelse, after)
        else:
            else_entry = lambda: after.get("next")
        body_ctx = after.derive(next=else_entry, exc=body_exc)
        return self.seq(s.body, body_ctx)

    def _with(self, s, ctx):
        cfg = self.cfg
        outer = ctx
        line = s.lineno

        def exit_clone(kind, target_name):
            def build():
                target = outer.get(target_name)
                if target is None:
                    return None
                n = self.cfg._new(
                    "with_exit", s, f"with-exit({kind})", (self.clone + "/" if self.clone else "") + f"with@{line}:{kind}"
                )
                cfg.edge(n, target)
                if kind == "exc":
                    swallow = any(
                        norm(i.context_expr).startswith(p) for i in s.items for p in self.with_swallows
                    )
                    if swallow:
                        cfg.edge(n, outer.get("next"), "swallow")
                else:
                    # __exit__ itself may raise
                    cfg.edge(n, outer.get("exc"), "exc")
                return n

            return build

        inner = _Ctx(
            next=exit_clone("normal", "next"),
            ret=exit_clone("return", "ret"),
            exc=exit_clone("exc", "exc"),
            brk=exit_clone("break", "brk"),
            cont=exit_clone("continue", "cont"),
        )
        enter = self.new("with_enter", s, label="with-enter " + ", ".join(norm(i.context_expr)[:40] for i in s.items))
        self._exc_edge(enter, outer)
        cfg.edge(enter, self.seq(s.body, inner))
        return enter


def handler_is_catch_all(h):
    if h.type is None:
        return True
    types = h.type.elts if isinstance(h.type, ast.Tuple) else [h.type]
    for t in types:
        ch = attr_chain(t)
        if ch and ch[-1] in CATCH_ALL_NAMES:
            return True
    return False


def handler_names(h):
    if h.type is None:
        return ["<bare>"]
    types = h.type.elts if isinstance(h.type, ast.Tuple) else [h.type]
    return [norm(t) for t in types]


def _const_truth(test):
    if isinstance(test, ast.Constant):
        return bool(test.value)
    return None


_cache = {}


def build_cfg(func, attr_may_raise=False, with_swallows=()):
    key = (id(func), attr_may_raise, tuple(with_swallows))
    if key not in _cache:
        _cache[key] = (func, Builder(func, attr_may_raise, with_swallows).build())
    return _cache[key][1]


def node_exprs(node):
    """The AST subtrees a CFG node itself evaluates (not its nested blocks)."""
    a = node.ast
    if a is None:
        return []
    k = node.kind
    if k in ("stmt", "return", "raise"):
        if isinstance(a, SCOPE_TYPES):
            return list(getattr(a, "decorator_list", []))
        return [a]
    if k == "test":
        return [a.test]
    if k == "iter":
        return [a.iter]
    if k == "for":
        return [a.target]
    if k == "with_enter":
        out = []
        for i in a.items:
            out.append(i.context_expr)
            if i.optional_vars is not None:
                out.append(i.optional_vars)
        return out
    if k == "handler":
        return [a.type] if a.type is not None else []
    return []


def node_calls(node):
    out = []
    for e in node_exprs(node):
        for n in walk_shallow(e):
            if isinstance(n, ast.Call):
                out.append(n)
    return out


def live_nodes(cfg):
    return set(cfg.reach([cfg.entry]))
