"""E4 (CFG part): path-sensitive typestate exploration and path queries.

``explore`` runs a forward exploration over (node, abstract state) pairs.  The
abstract state must be hashable and drawn from a finite domain; loops reach a
fixed point because each pair is visited once.
"""

from collections import deque


class Exploration:
    def __init__(self, cfg):
        self.cfg = cfg
        self.parent = {}  # (node, state) -> (node, state) | None
        self.errors = []  # (node, state, message)

    def states_at(self, node):
        return {s for (n, s) in self.parent if n == node}

    def pairs_at(self, nodes):
        nodes = set(nodes)
        return [(n, s) for (n, s) in self.parent if n in nodes]

    def trace(self, pair):
        path = []
        cur = pair
        while cur is not None:
            path.append(cur)
            cur = self.parent[cur]
        path.reverse()
        return path

    def describe(self, pair):
        return [
            f"{self.cfg.nodes[n].describe()}  state={s}" for (n, s) in self.trace(pair)
        ]

    @property
    def size(self):
        return len(self.parent)


def explore(cfg, init, transfer, start=None):
    """transfer(node, state, edge_kind, target) -> new state | None (prune) |
    list of new states.  It may call ``err(message)`` through the returned
    Exploration.errors by raising nothing -- errors are reported by returning
    a state and appending to ``exp.errors`` from inside the closure."""
    exp = Exploration(cfg)
    s0 = (cfg.entry if start is None else start, init)
    exp.parent[s0] = None
    dq = deque([s0])
    while dq:
        pair = dq.popleft()
        n, st = pair
        node = cfg.nodes[n]
        for b, kind in cfg.succ[n]:
            new = transfer(node, st, kind, cfg.nodes[b], exp, pair)
            if new is None:
                continue
            if not isinstance(new, list):
                new = [new]
            for ns in new:
                key = (b, ns)
                if key not in exp.parent:
                    exp.parent[key] = pair
                    dq.append(key)
    return exp
