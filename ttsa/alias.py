"""E6: local def-use, aliasing of caller-owned objects, in-place mutation sites.

Flow-insensitive may-alias over one function body: for each local name the set
of *origins* its value may have:

  ('param', p)      the object the caller passed as parameter p
  ('elem', p)       something reached from parameter p (item, attribute, .get())
  ('self', attr)    the object stored in self.<attr>
  ('selfelem', attr) something reached from self.<attr>
  ('fresh',)        an object created in this function
  ('unknown',)      result of a call we know nothing about
"""

import ast

from .astutil import FUNC_TYPES, SCOPE_TYPES, attr_chain, walk_shallow

FRESH_CALLS = {
    "set", "list", "dict", "frozenset", "tuple", "sorted", "bytearray", "bytes", "str",
    "copy", "deepcopy", "copy.copy", "copy.deepcopy", "reversed", "iter", "zip", "map",
    "filter", "enumerate", "range", "int", "float", "bool", "repr", "len", "object",
    "itertools.count", "Counter", "defaultdict", "OrderedDict",
}
# methods returning a fresh object when called on anything
FRESH_METHODS = {
    "copy", "union", "difference", "intersection", "symmetric_difference", "items",
    "keys", "values", "split", "join", "format", "encode", "decode", "strip",
    "get_current_tags",
}
ELEMENT_METHODS = {"get", "pop", "setdefault", "popitem", "__getitem__"}

MUTATORS = {
    "update", "difference_update", "intersection_update", "symmetric_difference_update",
    "add", "remove", "discard", "append", "extend", "insert", "pop", "popitem", "clear",
    "sort", "reverse", "setdefault", "__setitem__", "__delitem__", "appendleft",
    "change_tags",
}


def _selfname(func):
    if isinstance(func, FUNC_TYPES) and func.args.args:
        return func.args.args[0].arg
    return None


class Aliases:
    def __init__(self, func, is_method=True, extra_fresh_calls=()):
        self.func = func
        self.selfname = _selfname(func) if is_method else None
        self.extra_fresh = set(extra_fresh_calls)
        self.origins = {}
        a = func.args
        for x in a.posonlyargs + a.args + a.kwonlyargs:
            if x.arg == self.selfname:
                continue
            self.origins[x.arg] = {("param", x.arg)}
        # *args / **kwargs containers are fresh per call; their elements are not
        self.containers = {}
        if a.vararg:
            self.origins[a.vararg.arg] = {("fresh",)}
            self.containers[a.vararg.arg] = a.vararg.arg
        if a.kwarg:
            self.origins[a.kwarg.arg] = {("fresh",)}
            self.containers[a.kwarg.arg] = a.kwarg.arg
        self._solve()

    # ------------------------------------------------------------------
    def of(self, expr):
        """Origins of the value of an expression."""
        if isinstance(expr, ast.Name):
            if expr.id in self.origins:
                return set(self.origins[expr.id])
            return {("unknown",)}
        if isinstance(expr, (ast.Constant, ast.JoinedStr)):
            return {("fresh",)}
        if isinstance(
            expr,
            (ast.List, ast.Set, ast.Dict, ast.Tuple, ast.ListComp, ast.SetComp,
             ast.DictComp, ast.GeneratorExp, ast.BinOp, ast.Compare, ast.UnaryOp, ast.Lambda),
        ):
            return {("fresh",)}
        if isinstance(expr, ast.BoolOp):
            out = set()
            for v in expr.values:
                out |= self.of(v)
            return out
        if isinstance(expr, ast.IfExp):
            return self.of(expr.body) | self.of(expr.orelse)
        if isinstance(expr, ast.NamedExpr):
            return self.of(expr.value)
        if isinstance(expr, ast.Starred):
            return self.of(expr.value)
        if isinstance(expr, ast.Attribute):
            ch = attr_chain(expr)
            if ch and self.selfname and ch[0] == self.selfname:
                if len(ch) == 2:
                    return {("self", ch[1])}
                return {("selfelem", ch[1])}
            return self._derived(self.of(expr.value))
        if isinstance(expr, ast.Subscript):
            base = expr.value
            if isinstance(base, ast.Name) and base.id in self.containers:
                return {("elem", base.id)}
            return self._derived(self.of(base))
        if isinstance(expr, ast.Call):
            ch = attr_chain(expr.func)
            name = ".".join(ch) if ch else None
            if name in FRESH_CALLS or name in self.extra_fresh:
                return {("fresh",)}
            if isinstance(expr.func, ast.Attribute):
                m = expr.func.attr
                recv = expr.func.value
                if m in FRESH_METHODS:
                    return {("fresh",)}
                if m in ELEMENT_METHODS:
                    if isinstance(recv, ast.Name) and recv.id in self.containers:
                        out = {("elem", recv.id)}
                    else:
                        out = self._derived(self.of(recv))
                    # x.get(k, default) / pop(k, default): default flows too
                    for d in expr.args[1:]:
                        out |= self.of(d)
                    return out
            return {("unknown",)}
        return {("unknown",)}

    @staticmethod
    def _derived(origins):
        out = set()
        for o in origins:
            if o[0] == "param":
                out.add(("elem", o[1]))
            elif o[0] == "self":
                out.add(("selfelem", o[1]))
            elif o[0] in ("elem", "selfelem"):
                out.add(o)
            elif o[0] == "fresh":
                out.add(("unknown",))
            else:
                out.add(o)
        return out

    def _bind(self, target, origins):
        changed = False
        if isinstance(target, ast.Name):
            cur = self.origins.setdefault(target.id, set())
            if not origins <= cur:
                cur |= origins
                changed = True
        elif isinstance(target, (ast.Tuple, ast.List)):
            d = self._derived(origins)
            for t in target.elts:
                if isinstance(t, ast.Starred):
                    t = t.value
                changed |= self._bind(t, d)
        return changed

    def _solve(self):
        stmts = list(walk_shallow(self.func, include_self=False))
        for _ in range(10):
            changed = False
            for n in stmts:
                if isinstance(n, ast.Assign):
                    o = self.of(n.value)
                    for t in n.targets:
                        if (
                            isinstance(t, (ast.Tuple, ast.List))
                            and isinstance(n.value, (ast.Tuple, ast.List))
                            and len(t.elts) == len(n.value.elts)
                        ):
                            for tt, vv in zip(t.elts, n.value.elts):
                                changed |= self._bind(tt, self.of(vv))
                        else:
                            changed |= self._bind(t, o)
                elif isinstance(n, ast.AnnAssign) and n.value is not None:
                    changed |= self._bind(n.target, self.of(n.value))
                elif isinstance(n, ast.NamedExpr):
                    changed |= self._bind(n.target, self.of(n.value))
                elif isinstance(n, (ast.For, ast.AsyncFor)):
                    changed |= self._bind(n.target, self._derived(self.of(n.iter)))
                elif isinstance(n, ast.comprehension):
                    changed |= self._bind(n.target, self._derived(self.of(n.iter)))
                elif isinstance(n, (ast.With, ast.AsyncWith)):
                    for i in n.items:
                        if i.optional_vars is not None:
                            changed |= self._bind(i.optional_vars, {("unknown",)})
                elif isinstance(n, ast.ExceptHandler) and n.name:
                    cur = self.origins.setdefault(n.name, set())
                    if ("fresh",) not in cur:
                        cur.add(("fresh",))
                        changed = True
            if not changed:
                break

    # ------------------------------------------------------------------
    def mutations(self):
        """Yield (node, target_expr, how) for every in-place mutation site."""
        for n in walk_shallow(self.func, include_self=False):
            if isinstance(n, ast.Call) and isinstance(n.func, ast.Attribute):
                if n.func.attr in MUTATORS:
                    yield n, n.func.value, f".{n.func.attr}()"
            elif isinstance(n, (ast.Assign, ast.AugAssign, ast.AnnAssign, ast.Delete)):
                if isinstance(n, ast.Assign):
                    targets = n.targets
                elif isinstance(n, ast.Delete):
                    targets = n.targets
                else:
                    targets = [n.target]
                for t in targets:
                    for sub in ([t] if not isinstance(t, (ast.Tuple, ast.List)) else t.elts):
                        if isinstance(sub, ast.Subscript):
                            yield n, sub.value, "[...] store" if not isinstance(n, ast.Delete) else "del [...]"
                        elif isinstance(sub, ast.Attribute):
                            ch = attr_chain(sub)
                            if not (ch and self.selfname and ch[0] == self.selfname and len(ch) == 2):
                                yield n, sub.value, f".{sub.attr} store"
                        elif isinstance(sub, ast.Name) and isinstance(n, ast.AugAssign):
                            # x += y / x |= y mutate lists / sets in place
                            yield n, sub, "augmented assignment"

    def caller_owned(self, origins, include_self=False):
        """Origins that denote objects the caller (or self) owns."""
        bad = set()
        for o in origins:
            if o[0] in ("param", "elem"):
                bad.add(o)
            elif include_self and o[0] in ("self", "selfelem"):
                bad.add(o)
        return bad
