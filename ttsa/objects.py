"""Objects and first-class callables on top of EffectDomain.

* instances of classes defined in the repository: ("inst", n, ClassInfo); their attributes live in the abstract
  state under "inst.<n>.<attr>", `__init__` and methods are inlined with `self` bound to the instance, bound
  methods are values, properties are evaluated, class-level tables are read from the class body,
  `with inst:` runs `__enter__` / `__exit__`, `inst(...)` runs `__call__`;
* contextlib.ExitStack: ("exitstack", n) with its callbacks in the state, run last-in-first-out when the
  `with` block is left (normally or by exception) or on close();
* callables as values: nested functions / lambdas / closures ("func", node[, env]), methods of the analysed
  object ("method", name), bound methods of instances ("boundmethod", inst, name) and of wrapped objects
  ("bound", id, name), functools.partial, operator.attrgetter / itemgetter / methodcaller, a few builtins,
  list.append of an exact list -- all invoked through one `apply`.
"""

import ast
import os

from .absint import FALSE, NONE, TOP, TRUE, Undecided, exc, heap_key, is_handle, own_names, unbox, unbox_deep, val
from .astutil import FUNC_TYPES, attr_chain, dotted
from .effects import DELETED, EffectDomain, exc_info_of, is_generator
from .generators import LazyGenerators

CALLABLE_TAGS = ("func", "method", "boundmethod", "bound", "partial", "builtin", "listappend", "attrgetter", "itemgetter", "methodcaller", "classref", "ctorref", "userfn", "setmethod", "decoderfactory", "decodermethod", "strmethod", "dictmethod", "supermethod", "excclass", "trackedfn", "setattrmethod", "const-fn", "pytype", "partialmethod")


def norm_expr(e):
    try:
        return ast.unparse(e)[:60]
    except Exception:
        return "<expression>"


def is_mangled(attr):
    """A name-mangled private attribute (`self.__x` written inside class C is `_C__x`; ttsa.loader mangles on load)."""
    import re
    return bool(re.match(r"_[A-Za-z0-9]\w*?__\w", attr)) and not attr.endswith("__") and not attr.startswith("__")


def is_inst(v):
    return isinstance(v, tuple) and len(v) == 3 and v[0] == "inst"


def is_exitstack(v):
    return isinstance(v, tuple) and len(v) == 2 and v[0] == "exitstack"


class ObjectDomain(LazyGenerators, EffectDomain):
    list_outparams = True
    enter_returns_self = True
    closure_cells = True   # closures share their free variables with the defining frame through cells that outlive it
    generator_objects = True   # a generator function call evaluates to an iterator object (position shared by all holders)
    heap = True            # a list / dict that gets a second owner becomes a heap object: both owners see every change
    IDENTITY_TAGS = EffectDomain.IDENTITY_TAGS + ("inst", "classref", "ctorref", "excclass", "func", "method", "boundmethod", "userfn", "pytype", "seqiter", "itercount", "genobj", "iterobj")

    # -- values ---------------------------------------------------------------------------------
    def truth(self, value):
        if is_inst(value):
            return "T" if not self._has_method(value[2], "__bool__") and not self._has_method(value[2], "__len__") else "TF"
        if is_exitstack(value) or (isinstance(value, tuple) and value[:1] and value[0] in CALLABLE_TAGS + ("excclass",)):
            return "T"
        return super().truth(value)

    def object_truth(self, interp, value, st, fr):
        """bool(<instance>) when its class defines __bool__ or __len__: the results of running that method."""
        if not is_inst(value):
            return None
        if self._has_method(value[2], "__bool__"):
            return self.call_method(interp, value, "__bool__", [], [], st, fr)
        if self._has_method(value[2], "__len__"):
            out = []
            for r in self.call_method(interp, value, "__len__", [], [], st, fr) or []:
                if r.kind == "exc":
                    out.append(r)
                elif isinstance(r.value, tuple) and r.value[:1] == ("const",) and isinstance(r.value[1], int):
                    out.append(val(TRUE if r.value[1] else FALSE, r.state))
                else:
                    out.append(val(("bool",), r.state))
            return out
        return None

    def is_none(self, value):
        if is_inst(value) or is_exitstack(value) or (isinstance(value, tuple) and value[:1] and value[0] in CALLABLE_TAGS + ("excclass",)):
            return "F"
        return super().is_none(value)

    def compare(self, op, left, right):
        if isinstance(op, (ast.Eq, ast.NotEq, ast.Is, ast.IsNot)) and (is_inst(left) or is_inst(right)) and all(
                is_inst(v) or (isinstance(v, tuple) and v and v[0] in self.IDENTITY_TAGS) or v == NONE for v in (left, right)):
            if isinstance(op, (ast.Is, ast.IsNot)) or not any(is_inst(v) and self._has_method(v[2], "__eq__") for v in (left, right)):
                return "T" if (left == right) == isinstance(op, (ast.Eq, ast.Is)) else "F"
        return super().compare(op, left, right)

    # -- class table helpers ------------------------------------------------------------------------
    # Classes outside the repository whose methods are followed as written too, in the installed standard library's
    # own source (parsed, never imported): the external base classes the analysed objects keep their state in.
    followed_externals = frozenset()

    def _followed(self, owner):
        return owner is not None and (not owner.external or (owner.module.name, owner.name) in self.followed_externals)

    def _method(self, ci, name):
        owner, f = self.classes.resolve_method(ci, name)
        if isinstance(f, FUNC_TYPES) and self._followed(owner):
            # a class earlier in the MRO that assigns the name in its body to something made there (name = factory(...)) comes first
            for c in self.classes.mro(ci):
                if c is owner:
                    break
                v = c.attrs.get(name) if not c.external else None
                if v is not None and name not in c.methods and isinstance(v, ast.Call) and dotted(v.func) != "property":
                    return None
            return f
        return None

    def _has_method(self, ci, name):
        return self._method(ci, name) is not None

    @staticmethod
    def _decorators(f):
        return {(dotted(x) or "").split(".")[-1] for x in getattr(f, "decorator_list", [])}

    def _property_getter(self, ci, name):
        """The getter when the class declares ``name = property(getter, ...)`` in its body (along the MRO), else None."""
        got = self._class_attr_expr(ci, name)
        if got is None:
            return None
        expr = got[1]
        if isinstance(expr, ast.Call) and dotted(expr.func) == "property" and expr.args and isinstance(expr.args[0], ast.Name):
            found = self._method(got[0], expr.args[0].id)
            if found is not None:
                return found
            # the getter is itself made in the class body: g, s = factory(...); name = property(g, s)
            for s_ in got[0].node.body:
                if isinstance(s_, ast.Assign) and len(s_.targets) == 1 and isinstance(s_.targets[0], (ast.Tuple, ast.List)):
                    names_ = [t.id if isinstance(t, ast.Name) else None for t in s_.targets[0].elts]
                    if expr.args[0].id in names_:
                        return ("made", got[0], s_.value, names_.index(expr.args[0].id))
                if isinstance(s_, ast.Assign) and len(s_.targets) == 1 and isinstance(s_.targets[0], ast.Name) and s_.targets[0].id == expr.args[0].id:
                    return ("made", got[0], s_.value, None)
        if isinstance(expr, ast.Call) and dotted(expr.func) == "property" and expr.args and isinstance(expr.args[0], (ast.Call, ast.Lambda, ast.Attribute)):
            return ("made", got[0], expr.args[0], None)   # name = property(attrgetter(...)) / property(lambda self: ...): the getter is what that expression makes
        return None

    def _run_getter(self, interp, getter, selfval, st, fr, **inline_kw):
        """Run a property getter found by _property_getter on ``selfval``."""
        if not isinstance(getter, tuple):
            return interp.inline(getter, {}, st, fr, **inline_kw)
        _, ci, expr, index = getter
        out = []
        for r in self._eval_class_expr(interp, ci, expr, st, fr):
            if r.kind == "exc":
                out.append(r)
                continue
            fn = r.value
            if index is not None:
                els = interp._exact_elements(fn)
                fn = els[index] if els is not None and index < len(els) else TOP
            out.extend(self.apply(interp, fn, [selfval], [], r.state, fr) if isinstance(fn, tuple) and fn[:1] and fn[0] in CALLABLE_TAGS else [val(TOP, r.state)])
        return out

    def _class_attr_expr(self, ci, name):
        """The expression a class body (along the MRO) assigns to ``name``, when it is assigned exactly once there."""
        for c in self.classes.mro(ci):
            if c.external:
                continue
            found = [s_ for s_ in c.node.body if isinstance(s_, (ast.Assign, ast.AnnAssign)) and any(
                isinstance(t, ast.Name) and t.id == name for t in (s_.targets if isinstance(s_, ast.Assign) else [s_.target]))]
            if len(found) == 1 and found[0].value is not None:
                filled = [s_ for s_ in c.node.body if isinstance(s_, ast.Assign) and len(s_.targets) == 1 and isinstance(s_.targets[0], ast.Subscript)
                          and isinstance(s_.targets[0].value, ast.Name) and s_.targets[0].value.id == name]
                updates = [s_.value for s_ in c.node.body if isinstance(s_, ast.Expr) and isinstance(s_.value, ast.Call) and isinstance(s_.value.func, ast.Attribute) and s_.value.func.attr == "update"
                           and isinstance(s_.value.func.value, ast.Name) and s_.value.func.value.id == name]
                plain_updates = all(all(k.arg is not None for k in u.keywords) and (not u.args or (len(u.args) == 1 and isinstance(u.args[0], ast.Dict) and all(k_ is not None for k_ in u.args[0].keys)))
                                    for u in updates)
                if (filled or updates) and isinstance(found[0].value, ast.Dict) and all(isinstance(s_.targets[0].slice, ast.Constant) for s_ in filled) and plain_updates:
                    # a table declared in the class body and filled there: table = {}; table[k] = v; table.update(k=v, ...); ...
                    entries = [(s_.lineno, [(s_.targets[0].slice, s_.value)]) for s_ in filled]
                    for u in updates:
                        pairs = list(zip(u.args[0].keys, u.args[0].values)) if u.args else []
                        pairs += [(ast.copy_location(ast.Constant(value=k.arg), u), k.value) for k in u.keywords]
                        entries.append((u.lineno, pairs))
                    keys, values = list(found[0].value.keys), list(found[0].value.values)
                    for _, pairs in sorted(entries, key=lambda x: x[0]):
                        for k_, v_ in pairs:
                            keys.append(k_)
                            values.append(v_)
                    return c, ast.copy_location(ast.Dict(keys=keys, values=values), found[0].value)
                return c, found[0].value
            if found:
                return None
        return None

    # -- members a class gets by running code: loops in the class body writing to locals(), setattr(Class, ...) after the
    #    class statement, class decorators.  That code is run (once per class) like any other; what it defines is looked up
    #    after the members the class statement spells out.
    _dyn_cache = {}

    def _dynamic_programs(self, c):
        """(function running the compound statements of the class body, function running what completes the class afterwards)."""
        import copy
        from .loader import _annotate
        key = ("prog", id(c.node))
        hit = self._dyn_cache.get(key)
        if hit is not None and hit[0] is c.node:
            return hit[1]
        module = getattr(c.node, "_module", None)
        tree = getattr(module, "tree", None)
        compound = [s_ for s_ in c.node.body if isinstance(s_, (ast.For, ast.While, ast.If, ast.With, ast.Try))]
        after = []
        if tree is not None and c.node in tree.body:
            for s_ in tree.body[tree.body.index(c.node) + 1:]:
                if isinstance(s_, (ast.FunctionDef, ast.AsyncFunctionDef, ast.ClassDef, ast.Import, ast.ImportFrom)):
                    continue
                touches = False
                for n_ in ast.walk(s_):
                    if isinstance(n_, ast.Call) and dotted(n_.func) == "setattr" and n_.args and isinstance(n_.args[0], ast.Name) and n_.args[0].id == c.node.name:
                        touches = True
                    if isinstance(n_, ast.Attribute) and isinstance(n_.ctx, ast.Store) and isinstance(n_.value, ast.Name) and n_.value.id == c.node.name:
                        touches = True
                    if isinstance(n_, ast.Call) and isinstance(n_.func, ast.Name) and self.classes.lookup_function(module, n_.func.id) is not None \
                            and any(isinstance(a_, ast.Name) and a_.id == c.node.name for a_ in n_.args):
                        touches = True   # a function of the module is handed the class (to install members on it)
                if touches:
                    after.append(s_)
        decorators = [d_ for d_ in c.node.decorator_list if (dotted(d_.func if isinstance(d_, ast.Call) else d_) or "").split(".")[-1] not in ("dataclass", "total_ordering", "final")]
        body_f = after_f = None
        if compound:
            class _NS(ast.NodeTransformer):
                def visit_Call(self, node):
                    self.generic_visit(node)
                    if isinstance(node.func, ast.Name) and node.func.id in ("locals", "vars") and not node.args and not node.keywords:
                        return ast.copy_location(ast.Name(id="_class_namespace", ctx=ast.Load()), node)
                    return node
            body_f = ast.parse("def _f():\n    _class_namespace = {}\n    return _class_namespace\n").body[0]
            body_f.body[1:1] = [_NS().visit(copy.deepcopy(s_)) for s_ in compound]
            body_f.name = f"<class body of {c.name}>"
            holder = ast.Module(body=[body_f], type_ignores=[])
            ast.fix_missing_locations(holder)
            _annotate(holder, module)
            body_f._parent = c.node   # names of the class body are in scope, then the module's
        if after or decorators:
            after_f = ast.parse(f"def _f({c.node.name}):\n    return {c.node.name}\n").body[0]
            # (decorators run when the class statement ends, before the statements that follow it)
            stmts = [ast.Assign(targets=[ast.Name(id=c.node.name, ctx=ast.Store())],
                                value=ast.Call(func=copy.deepcopy(d_), args=[ast.Name(id=c.node.name, ctx=ast.Load())], keywords=[]), type_comment=None) for d_ in reversed(decorators)]
            stmts += [copy.deepcopy(s_) for s_ in after]
            after_f.body[0:0] = stmts
            after_f.name = f"<after the class statement of {c.name}>"
            holder = ast.Module(body=[after_f], type_ignores=[])
            ast.fix_missing_locations(holder)
            _annotate(holder, module)
            after_f._parent = tree
        self._dyn_cache[key] = (c.node, (body_f, after_f))
        return body_f, after_f

    def _dynamic_run(self, interp, c, st, fr):
        """Run the code that gives class ``c`` further members, in state ``st`` -> [(members, state)]."""
        body_f, after_f = self._dynamic_programs(c)
        cur = [({}, st)]
        if body_f is not None:
            nxt = []
            for members, s_ in cur:
                for r in interp.inline(body_f, {}, s_, fr, is_method=False):
                    if r.kind != "val":
                        raise Undecided(f"the body of class {c.name} raises {r.value!r} when it is run")
                    v = unbox(r.value, r.state)
                    if not (isinstance(v, tuple) and v[:1] == ("kwdict",)):
                        raise Undecided(f"what the loops in the body of class {c.name} define could not be determined")
                    nxt.append((dict(members, **dict(v[1])), r.state))
            cur = nxt
        if after_f is not None:
            nxt = []
            prefix = f"cls.{c.name}."
            for members, s_ in cur:
                for r in interp.inline(after_f, {c.node.name: ("classref", c)}, s_, fr, is_method=False):
                    if r.kind != "val":
                        raise Undecided(f"the code that completes class {c.name} raises {r.value!r} when it is run")
                    if r.value != ("classref", c):
                        raise Undecided(f"a decorator of class {c.name} replaces the class by something else")
                    found = {k_[len(prefix):]: v_ for k_, v_ in r.state.items if k_.startswith(prefix)}
                    nxt.append((dict(members, **found), type(r.state)(frozenset((k_, v_) for k_, v_ in r.state.items if not k_.startswith(prefix)), r.state.log)))
            cur = nxt
        return cur

    def _dynamic_names(self, interp, c, fr):
        from .absint import State
        key = ("names", id(c.node))
        hit = self._dyn_cache.get(key)
        if hit is not None and hit[0] is c.node:
            if isinstance(hit[1], str):
                raise Undecided(hit[1])
            return hit[1]
        if self._dynamic_programs(c) == (None, None):
            self._dyn_cache[key] = (c.node, frozenset())
            return frozenset()
        self._dyn_cache[key] = (c.node, frozenset())   # (while it is being computed: nothing)
        try:
            runs = self._dynamic_run(interp, c, State(), fr)
        except Undecided as e_:
            self._dyn_cache[key] = (c.node, str(e_))
            raise
        names = frozenset(n_ for members, _ in runs for n_ in members)
        if any(set(members) != set(names) for members, _ in runs):
            msg = f"the members class {c.name} gets from the code in / after its body differ from path to path"
            self._dyn_cache[key] = (c.node, msg)
            raise Undecided(msg)
        self._dyn_cache[key] = (c.node, names)
        return names

    def _dynamic_lookup(self, interp, ci, attr, obj, st, fr):
        """``attr`` among the members the classes of the MRO get by running code -> results (bound to ``obj``), or None."""
        if interp is None:
            return None
        for c in self.classes.mro(ci):
            if c.external or not self._followed(c):
                continue
            if attr in c.methods or attr in c.attrs:
                return None
            if attr in self._dynamic_names(interp, c, fr):
                out = []
                for members, s_ in self._dynamic_run(interp, c, st, fr):
                    out.append(val(self._bind_member(members[attr], obj), s_))   # (a function kept in the class: looked up on an instance it is bound to it)
                return out
        return None

    def _class_of_expr(self, expr, fr):
        """ClassInfo of an in-repo, non-exception class that the callee expression names, else None."""
        if not isinstance(expr, (ast.Name, ast.Attribute)):
            return None
        mod = getattr(fr.func, "_module", None)
        if mod is None:
            return None
        try:
            ci = self.classes.resolve_expr(mod, expr)
        except Exception:
            ci = None
        if ci is None or ci.external:
            return None
        if self.classes.has_base_named(ci, "BaseException") or self.classes.has_base_named(ci, "Exception"):
            return None
        return ci

    # -- attribute access -----------------------------------------------------------------------
    def _inst_attr(self, interp, inst, attr, st, fr):
        """Results of reading ``attr`` on an instance (None: not known)."""
        n, ci = inst[1], inst[2]
        key = f"inst.{n}.{attr}"
        if attr == "__setattr__" and self._method(ci, attr) is None:
            return [val(("setattrmethod", inst), st)]   # object.__setattr__ bound to the instance: setattr(inst, name, value)
        made = self._made_property(interp, ci, attr, st, fr) if interp is not None else None
        if made is not None:
            out = []
            for pv, s1 in made:
                out.extend(self.apply(interp, pv[1], [inst], [], s1, fr) if pv[1] != NONE else [exc(("exc", "AttributeError"), s1)])
            return out
        prop = self._declared_property(ci, attr)
        if prop is not None and interp is not None and isinstance(prop[0], tuple):
            return self._run_getter(interp, prop[0], inst, st, fr, receiver=ci, self_value=inst)
        if prop is not None and interp is not None and isinstance(prop[0], FUNC_TYPES):
            # a property is a data descriptor: it wins over whatever the instance's own dict holds under that name
            if self._decorators(prop[0]) & {"property", "cached_property"}:
                return interp.inline(prop[0], {}, st, fr, receiver=ci, self_value=inst)
            return self._run_getter(interp, prop[0], inst, st, fr, receiver=ci, self_value=inst)
        if st.has(key):
            return [val(st.get(key), st)]
        getter = self._property_getter(ci, attr)
        if getter is not None and interp is not None:
            return self._run_getter(interp, getter, inst, st, fr, receiver=ci, self_value=inst)   # name = property(getter, ...): the getter runs
        f = self._method(ci, attr)
        if f is not None:
            decos = self._decorators(f)
            if decos & {"property", "cached_property"}:
                return interp.inline(f, {}, st, fr, receiver=ci, self_value=inst) if interp is not None else None
            if "staticmethod" in decos:
                return [val(("func", f), st)]
            return [val(("boundmethod", inst, attr), st)]
        getter = self._property_getter(ci, attr)
        if getter is not None and interp is not None:
            return self._run_getter(interp, getter, inst, st, fr, receiver=ci, self_value=inst)   # name = property(getter, ...): the getter runs
        got = self._class_attr_expr(ci, attr)
        if got is not None and interp is not None:
            # (a function kept in a class attribute is a method: looked up on an instance it is bound to it)
            return [r if r.kind == "exc" else val(self._bind_member(r.value, inst), r.state) for r in self._eval_class_expr(interp, got[0], got[1], st, fr)]
        dyn = self._dynamic_lookup(interp, ci, attr, inst, st, fr) if not (attr.startswith("__") and attr.endswith("__")) else None
        if dyn is not None:
            return dyn
        fallback = self._method(ci, "__getattr__") if not (attr.startswith("__") and attr.endswith("__")) else None
        if fallback is not None and interp is not None:
            # normal lookup failed: the class's __getattr__ answers
            params = [a.arg for a in fallback.args.args]
            return self.run_function(interp, fallback, {params[1]: ("const", attr)}, st, fr, receiver=ci, self_value=inst) if len(params) == 2 else None
        if self.closed_instances and interp is not None and not (attr.startswith("__") and attr.endswith("__")) and all(self._followed(c) for c in self.classes.mro(ci)) \
                and all(b is not None or dotted(e_) == "object" for c in self.classes.mro(ci) for b, e_ in zip(c.bases, c.base_exprs)):
            # the instance was built by constructors this model followed to the end (every class of its MRO is read as
            # written): an attribute none of them defines and nothing assigned does not exist
            return [exc(("exc", "AttributeError"), st)]
        return None

    # Reading an attribute that neither the state nor any class of a fully followed MRO defines raises AttributeError.
    closed_instances = False

    def _declared_property(self, ci, name):
        """(getter def, setter def or None) when a class of the MRO declares ``name`` as a property (either spelling), else None."""
        for c in self.classes.mro(ci):
            if not self._followed(c):
                continue
            if name in c.properties:
                g, s_ = c.properties[name]
                g = self._method(c, g.id) if isinstance(g, ast.Name) else g
                s_ = self._method(c, s_.id) if isinstance(s_, ast.Name) else s_
                setter = s_ if isinstance(s_, FUNC_TYPES) else ("made", c, s_, None) if isinstance(s_, (ast.Call, ast.Lambda, ast.Attribute)) else None
                if isinstance(g, FUNC_TYPES):
                    return g, setter
                if isinstance(g, (ast.Call, ast.Lambda, ast.Attribute)):
                    return ("made", c, g, None), setter
                return None
            if name in c.methods or name in c.attrs:
                return None
        return None

    def _made_property(self, interp, ci, name, st, fr):
        """When the class body binds ``name`` to what a call makes (name = factory(...)) and that is a property object:
        [(("property", getter, setter), state)], else None."""
        got = self._class_attr_expr(ci, name)
        if got is None or not isinstance(got[1], ast.Call) or dotted(got[1].func) in ("property", None) or name in got[0].methods:
            return None
        if self._pure_constructor(got[1]) or (dotted(got[1].func) or "").split(".")[-1] in self._PURE_CONSTRUCTORS + ("frozenset", "set", "dict", "list", "tuple", "object", "namedtuple", "count"):
            return None
        res = self._eval_class_expr(interp, got[0], got[1], st, fr)
        if res and all(r.kind == "val" and isinstance(r.value, tuple) and r.value[:1] == ("property",) and len(r.value) == 3 for r in res):
            return [(r.value, r.state) for r in res]
        return None

    def set_attribute_value(self, interp, obj, name, value, st, fr):
        """setattr(obj, name, value) on an instance -> the state afterwards (the setter of a property runs)."""
        made = self._made_property(interp, obj[2], name, st, fr)
        if made is not None:
            if len(made) != 1 or made[0][0][2] == NONE:
                raise Undecided(f"{obj[2].name}.{name} is a property made by a call, without a setter the model can follow, and is assigned to")
            outs = self.apply(interp, made[0][0][2], [obj, value], [], made[0][1], fr)
            done = [r for r in outs if r.kind == "val"]
            if len(outs) != 1 or len(done) != 1:
                raise Undecided(f"the setter of {obj[2].name}.{name} does not simply return")
            return done[0].state
        prop = self._declared_property(obj[2], name)
        if prop is None:
            return st.set(f"inst.{obj[1]}.{name}", value)
        if prop[1] is None:
            raise Undecided(f"{obj[2].name}.{name} is a property without a setter and is assigned to")
        outs = self._run_setter(interp, obj, prop[1], value, st, fr)
        done = [r for r in outs if r.kind == "val"]
        if len(outs) != 1 or len(done) != 1:
            raise Undecided(f"the setter of {obj[2].name}.{name} does not simply return ({[(r.kind, r.value) for r in outs][:3]})")
        return done[0].state

    def _run_setter(self, interp, obj, setter, value, st, fr):
        """The setter of a property -- a def, or what an expression of the class body (a partial, a lambda ...) evaluates to -- called with (obj, value)."""
        if isinstance(setter, FUNC_TYPES):
            params = [a.arg for a in setter.args.args]
            return self.run_function(interp, setter, {params[1]: value}, st, fr, receiver=obj[2], self_value=obj) if len(params) == 2 else []
        out = []
        for r in self._eval_class_expr(interp, setter[1], setter[2], st, fr):
            out.extend([r] if r.kind == "exc" else self.apply(interp, r.value, [obj, value], [], r.state, fr))
        return out

    def assign_attribute(self, interp, target, value, st, fr):
        """obj.name = value where the class of obj declares ``name`` as a property: the setter runs (None: a plain attribute)."""
        if fr.instance is not None and isinstance(target.value, ast.Name) and target.value.id == fr.selfname:
            obj = fr.instance
        elif isinstance(target.value, ast.Name) and st.has(fr.local(target.value.id)):
            obj = unbox(st.get(fr.local(target.value.id)), st)
        elif isinstance(target.value, (ast.Attribute, ast.Subscript)) and not any(isinstance(n_, ast.Call) for n_ in ast.walk(target.value)):
            got = interp.eval(target.value, st, fr)
            obj = unbox(got[0].value, got[0].state) if len(got) == 1 and got[0].kind == "val" else None
        else:
            return None
        if not is_inst(obj):
            return None
        if self._made_property(interp, obj[2], target.attr, st, fr) is not None:
            return self.set_attribute_value(interp, obj, target.attr, value, st, fr)
        prop = self._declared_property(obj[2], target.attr)
        if prop is None:
            return None
        if prop[1] is None:
            raise Undecided(f"{obj[2].name}.{target.attr} is a property without a setter and is assigned to")
        if isinstance(prop[1], FUNC_TYPES) and len(prop[1].args.args) != 2:
            return None
        outs = self._run_setter(interp, obj, prop[1], value, st, fr)
        done = [r for r in outs if r.kind == "val"]
        if len(outs) != 1 or len(done) != 1:
            raise Undecided(f"the setter of {obj[2].name}.{target.attr} does not simply return ({[(r.kind, r.value) for r in outs][:3]})")
        return done[0].state

    def _eval_class_expr(self, interp, ci, expr, st, fr):
        """Evaluate a class-body expression (tables of constants, attrgetters, partials ...) in the class's module."""
        from .absint import Frame
        if isinstance(expr, ast.Call) and dotted(expr.func) == "object" and not expr.args and not expr.keywords:
            return [val(("sym", f"<the object made at line {expr.lineno} of class {ci.name}>"), st)]   # made once, when the class is: the same object at every read
        holder = ast.parse("def _class_body():\n    pass").body[0]
        holder._module = ci.node._module
        holder._parent = ci.node   # names of the class body (helper functions defined there) are in scope, then the module's
        holder._class = None
        frame = Frame(holder, fr.depth + 1, None, name=f"<class {ci.name}>", is_method=False)
        frame.caller = fr
        out = []
        for r in interp.eval(expr, st, frame):
            out.append(r)
        return out

    def load_attr_interp(self, interp, chain, st, fr):
        """Attribute chains that start at an instance / exit stack: locals holding one, or `self` inside its methods."""
        if not chain or not all(isinstance(c, str) for c in chain):
            return None
        if len(chain) == 1:
            if st.has(fr.local(chain[0])) or chain[0] in self.attrs:
                return None
            return self._module_table(interp, chain[0], st, fr)
        if len(chain) == 2 and not st.has(fr.local(chain[0])) and chain[0] not in self.attrs:
            ci = self._class_of_expr(ast.Name(id=chain[0], ctx=ast.Load()), fr)
            if ci is not None and self._method(ci, chain[1]) is None:
                got = self._class_attr_expr(ci, chain[1])
                if got is not None:
                    return self._eval_class_expr(interp, got[0], got[1], st, fr)   # ClassName.table
        if len(chain) == 2 and chain[0] in ("str", "bytes") and chain[1] in self.PURE_STR_METHODS and not st.has(fr.local(chain[0])):
            return [val(("strmethod", chain[1]), st)]   # str.strip & co. as functions: the method applied to their first argument
        if len(chain) == 2 and st.has(fr.local(chain[0])) and st.get(fr.local(chain[0])) == NONE and fr.local(chain[0]) != fr.self_key:
            return [exc(("exc", "AttributeError"), st)]   # None.<anything>
        if len(chain) == 2 and chain[1] in ("get", "items", "keys", "values") and st.has(fr.local(chain[0])):
            held = st.get(fr.local(chain[0]))
            where = heap_key(held) if is_handle(held) else fr.local(chain[0])
            content = st.get(where, None)
            if isinstance(content, tuple) and content[:1] == ("kwdict",):
                return [val(("dictmethod", where, chain[1]), st)]   # <a dict>.get taken as a value: bound to that very dict
        if len(chain) == 2 and chain[1] in self.SET_METHODS and st.has(fr.local(chain[0])):
            # <a set>.update taken as a value (to be called later): a method bound to that very set
            held = st.get(fr.local(chain[0]))
            where = heap_key(held) if is_handle(held) else fr.local(chain[0])
            content = st.get(where, None)
            if isinstance(content, tuple) and content[:1] == ("set",):
                return [val(("setmethod", where, chain[1]), st)]
        if fr.instance is not None and chain[0] == fr.selfname:
            base = fr.instance
        elif st.has(fr.local(chain[0])):
            base = st.get(fr.local(chain[0]))
        elif fr.instance is None and fr.selfname and chain[0] == fr.selfname:
            held = st.get(fr.self_key + "." + chain[1], None) if len(chain) >= 3 else None
            if is_inst(held) or (isinstance(held, tuple) and held[:1] == ("wobj",)):
                # self.a.b...: an attribute of the analysed object holds an instance made during the run
                cur = [val(held, st)]
                for attr in chain[2:]:
                    nxt = []
                    for r in cur:
                        if r.kind == "exc":
                            nxt.append(r)
                            continue
                        got = self.attr_of_value(interp, r.value, attr, r.state, fr)
                        nxt.extend(got if got is not None else [val(TOP, r.state)])
                    cur = nxt
                return cur
            return self._root_attr(interp, chain, st, fr)
        else:
            return None
        if not is_inst(base) and not (base == ("self",) and chain[0] != fr.selfname) and not (isinstance(base, tuple) and base[:1] == ("wobj",) and st.has(fr.local(chain[0]))):
            if fr.instance is None and fr.selfname and chain[0] == fr.selfname:
                return self._root_attr(interp, chain, st, fr)
            if len(chain) == 2 and isinstance(base, tuple) and base[:1] in (("tuple",), ("decoder",)):
                return self.attr_of_value(interp, base, chain[1], st, fr)   # a namedtuple field / a method of a decoder, read through a variable
            return None
        cur = [val(base, st)]
        for i, attr in enumerate(chain[1:]):
            nxt = []
            for r in cur:
                if r.kind == "exc":
                    nxt.append(r)
                    continue
                got = self.attr_of_value(interp, r.value, attr, r.state, fr)
                nxt.extend(got if got is not None else [val(TOP, r.state)])
            cur = nxt
        return cur

    def attr_of_value(self, interp, value, attr, st, fr):
        """``<value>.attr`` for the objects of this model (None: not one of them)."""
        if attr == "append" and is_handle(value) and isinstance(st.get(heap_key(value), None), tuple) and st.get(heap_key(value))[:1] == ("tuple",):
            return [val(("listappend", heap_key(value)), st)]   # <a list some object keeps>.append taken as a value: bound to that very list
        if isinstance(value, tuple) and value[:1] == ("const",) and isinstance(value[1], (str, bytes)) and (attr in self.PURE_STR_METHODS or attr in ("format", "join")):
            return [val(("partial", ("strmethod", attr), (value,), ()), st)]   # "text".method taken as a value: bound to that text
        if isinstance(value, tuple) and value[:1] == ("func",) and isinstance(value[1], FUNC_TYPES):
            # what a function object says about itself (as far as code inspects it: names, documentation, parameter names)
            node = value[1]
            if attr == "__name__":
                return [val(("const", node.name), st)]
            if attr == "__qualname__":
                owner = getattr(node, "_class", None)
                return [val(("const", (owner.name + "." if owner is not None else "") + node.name), st)]
            if attr == "__doc__":
                doc = ast.get_docstring(node, clean=False)
                return [val(("const", doc) if doc is not None else NONE, st)]
            if attr == "__code__":
                return [val(("codeobj", node), st)]
        if isinstance(value, tuple) and value[:1] == ("codeobj",):
            node = value[1]
            if attr == "co_varnames":
                a_ = node.args
                params = [p.arg for p in a_.posonlyargs + a_.args + a_.kwonlyargs] + ([a_.vararg.arg] if a_.vararg else []) + ([a_.kwarg.arg] if a_.kwarg else [])
                return [val(("tuple",) + tuple(("const", n_) for n_ in params + [n_ for n_ in sorted(own_names(node)) if n_ not in params]), st)]
            if attr == "co_name":
                return [val(("const", node.name), st)]
            if attr == "co_argcount":
                return [val(("const", len(node.args.posonlyargs + node.args.args)), st)]
        if attr == "__dict__" and (is_inst(value) or value == ("self",)):
            prefix = f"inst.{value[1]}." if is_inst(value) else "self."
            items = sorted((k[len(prefix):], v) for k, v in st.items if k.startswith(prefix) and "." not in k[len(prefix):] and not (k[len(prefix):].startswith("__") and k[len(prefix):].endswith("__")))
            return [val(("kwdict", tuple((k, unbox_deep(v, st)) for k, v in items)), st)]
        if attr == "__class__" and is_inst(value):
            return [val(("classref", value[2]), st)]
        if isinstance(value, tuple) and value[:1] == ("exc",) and attr == "args" and len(value) >= 4 and isinstance(value[3], tuple):
            return [val(("tuple",) + tuple(value[3]), st)]   # an exception the model raised with these arguments
        if isinstance(value, tuple) and value[:1] == ("exc",) and attr == "args" and len(value) >= 2:
            return [val(("tuple", ("sym", "message of " + " ".join(str(x) for x in value[1:]))), st)]   # what the exception was raised with: one symbolic message
        if isinstance(value, tuple) and value[:1] == ("super",) and len(value) == 3:
            return [val(("supermethod", value[1], attr, value[2]), st)]
        if isinstance(value, tuple) and value[:1] == ("tuple",) and attr == "_asdict":
            shapes = {tuple(fields) for fields in self._module_namedtuples(fr).values() if len(fields) == len(value) - 1}
            if len(shapes) == 1:
                return [val(("const-fn", ("kwdict", tuple(zip(shapes.pop(), value[1:])))), st)]   # namedtuple._asdict: the fields by name
        if isinstance(value, tuple) and value[:1] == ("tuple",):
            hits = {tuple(fields) for fields in self._module_namedtuples(fr).values() if attr in fields and len(fields) == len(value) - 1}
            if len(hits) == 1:
                return [val(value[1 + list(hits.pop()).index(attr)], st)]   # a field of a namedtuple declared in this module
        if isinstance(value, tuple) and value[:1] == ("decoder",) and attr == "decode":
            return [val(("decodermethod", value), st)]
        if is_inst(value):
            got = self._inst_attr(interp, value, attr, st, fr)
            return got if got is not None else [val(TOP, st)]
        if isinstance(value, tuple) and value[:1] == ("wobj",):
            if st.get(f"obj.{value[1]}.{attr}", None) == DELETED or ((value[1], attr) in self.lacks and not st.has(f"obj.{value[1]}.{attr}")):
                return [exc(("exc", "AttributeError"), st)]
            if attr in self.log_reads and not st.has(f"obj.{value[1]}.{attr}"):
                # a data attribute of a wrapped object whose reads are observed
                name = f"{value[1]}.{attr}"
                log = st.get("ev.calls", ())
                return [val(self.attrs.get(name, ("attr", value, ("const", attr))), st.set("ev.calls", log + ((name + ":read", (), (), "ok"),)))]
            a = st.get(f"obj.{value[1]}.{attr}") if st.has(f"obj.{value[1]}.{attr}") else self.attrs.get(f"{value[1]}.{attr}")
            return [val(a if a is not None else ("bound", value[1], attr), st)]
        if value == ("self",):
            return self._root_value_attr(interp, attr, st, fr)
        return None

    def _root_value_attr(self, interp, attr, st, fr):
        """Attribute of the analysed object reached through a value (an alias of self handed to a helper object)."""
        key = "self." + attr
        if st.has(key):
            return [val(st.get(key), st)]
        if key in self.attrs:
            return [val(self.attrs[key], st)]
        root = getattr(self, "root_class", None)
        if root is not None:
            getter = self._property_getter(root, attr)
            if getter is not None:
                return self._run_getter(interp, getter, ("self",), st, fr, receiver=root)
            f = self._method(root, attr)
            if f is not None:
                if self._decorators(f) & {"property", "cached_property"}:
                    return interp.inline(f, {}, st, fr, receiver=root)
                return [val(("method", attr), st)]
            getter = self._property_getter(root, attr)
            if getter is not None:
                return self._run_getter(interp, getter, ("self",), st, fr, receiver=root)
            got = self._class_attr_expr(root, attr)
            if got is not None:
                return self._bound_to_root(self._eval_class_expr(interp, got[0], got[1], st, fr))
            dyn = self._dynamic_lookup(interp, root, attr, ("self",), st, fr)
            if dyn is not None:
                return dyn
        if self.track(key) or key in self.results:
            return [val(("method", attr), st)]
        if self.root_attr_absent(attr):
            return [exc(("exc", "AttributeError"), st)]
        return [val(TOP, st)]

    _LITERAL_NODES = (ast.Dict, ast.Tuple, ast.List, ast.Set)
    _PURE_CONSTRUCTORS = ("attrgetter", "itemgetter", "methodcaller", "partial", "frozenset", "tuple")

    _PURE_CALLS = ("attrgetter", "itemgetter", "methodcaller", "partial", "frozenset", "tuple", "list", "dict", "set", "map", "zip", "sorted", "reversed", "enumerate", "range", "chain", "namedtuple")

    _PURE_EXTRA_CALLS = ()   # (names of module-level namedtuples, while a module table is examined)

    @classmethod
    def _pure_expression(cls, expr, depth=0):
        """An expression whose value depends on nothing that changes: literals, names of the module, displays and calls of
        value-building library functions over such expressions (tuple(map(attrgetter, ("a", "b"))) ...)."""
        if depth > 8:
            return False
        if isinstance(expr, (ast.Constant, ast.Name, ast.Lambda)):
            return True
        if isinstance(expr, ast.Attribute):
            return dotted(expr) is not None
        if isinstance(expr, (ast.Tuple, ast.List, ast.Set)):
            return all(cls._pure_expression(x.value if isinstance(x, ast.Starred) else x, depth + 1) for x in expr.elts)
        if isinstance(expr, ast.Dict):
            return all(k is not None and cls._pure_expression(k, depth + 1) for k in expr.keys) and all(cls._pure_expression(v, depth + 1) for v in expr.values)
        if isinstance(expr, (ast.ListComp, ast.SetComp, ast.GeneratorExp, ast.DictComp)):
            parts = [expr.key, expr.value] if isinstance(expr, ast.DictComp) else [expr.elt]
            return all(not g.is_async and cls._pure_expression(g.iter, depth + 1) and all(cls._pure_expression(c_, depth + 1) for c_ in g.ifs) for g in expr.generators) \
                and all(cls._pure_expression(p_, depth + 1) for p_ in parts)
        if isinstance(expr, ast.Attribute) and isinstance(expr.value, ast.Name):
            return True
        if isinstance(expr, ast.Call):
            return (dotted(expr.func) or "").split(".")[-1] in cls._PURE_CALLS + tuple(cls._PURE_EXTRA_CALLS) and all(cls._pure_expression(a.value if isinstance(a, ast.Starred) else a, depth + 1) for a in expr.args) \
                and all(k.arg is not None and cls._pure_expression(k.value, depth + 1) for k in expr.keywords)
        return False

    @classmethod
    def _pure_constructor(cls, expr):
        if isinstance(expr, ast.Call) and cls._pure_expression(expr):
            return True
        return isinstance(expr, ast.Call) and (dotted(expr.func) or "").split(".")[-1] in cls._PURE_CONSTRUCTORS and all(
            isinstance(a, (ast.Constant, ast.Name, ast.Attribute, ast.Tuple, ast.List)) for a in expr.args) and all(k.arg is not None and isinstance(k.value, (ast.Constant, ast.Name, ast.Attribute)) for k in expr.keywords)

    def _module_table(self, interp, name, st, fr):
        """A module-level name bound exactly once, at module level, to a literal table (dict / tuple / list / set whose
        parts are literals, module constants or functions): its abstract value."""
        mod = getattr(fr.func, "_module", None)
        tree = getattr(mod, "tree", None)
        if tree is None:
            return None
        cache = getattr(mod, "_table_cache", None)
        if cache is None:
            cache = mod._table_cache = {}
        if name not in cache:
            found = []
            for n in ast.walk(tree):
                if isinstance(n, (ast.Assign, ast.AnnAssign, ast.AugAssign)):
                    for t in (n.targets if isinstance(n, ast.Assign) else [n.target]):
                        if any(isinstance(x, ast.Name) and x.id == name for x in ast.walk(t)):
                            found.append((n, t))
                elif isinstance(n, ast.Global) and name in n.names:
                    found.append((n, None))
            ObjectDomain._PURE_EXTRA_CALLS = tuple(self._module_namedtuples(fr))
            ok = len(found) == 1 and isinstance(found[0][0], (ast.Assign, ast.AnnAssign)) and isinstance(found[0][1], ast.Name) and getattr(found[0][0], "_func", None) is None \
                and getattr(found[0][0], "_class", None) is None and (isinstance(found[0][0].value, self._LITERAL_NODES) or self._pure_constructor(found[0][0].value)
                                                                      or (isinstance(found[0][0].value, (ast.DictComp, ast.ListComp, ast.SetComp)) and self._pure_expression(found[0][0].value))
                                                                      or (isinstance(found[0][0].value, ast.Attribute) and dotted(found[0][0].value) in self.CALLED_BY_NAME)   # NAME = operator.truth
                                                                      or self._made_by_repo_function(mod, found[0][0].value))
            cache[name] = found[0][0].value if ok else None
        expr = cache[name]
        if expr is None and name not in cache.get("<consumers>", ()):
            # NAME = collections.deque(maxlen=0).extend: the idiom for "run this iterator to its end"
            for s_ in tree.body:
                if isinstance(s_, ast.Assign) and len(s_.targets) == 1 and isinstance(s_.targets[0], ast.Name) and s_.targets[0].id == name and self._is_consumer(s_.value):
                    cache.setdefault("<consumers>", set()).add(name)
        if name in cache.get("<consumers>", ()):
            return [val(("builtin", "<consume>"), st)]
        if expr is None and not any(isinstance(s_, (ast.Assign, ast.AnnAssign)) and any(isinstance(t_, ast.Name) and t_.id == name for t_ in (s_.targets if isinstance(s_, ast.Assign) else [s_.target]))
                                    for s_ in tree.body):
            # from .module import NAME: what NAME is in that module of the repository (a table, a partial, a made function ...)
            repo = getattr(self.classes, "repo", None)
            for s_ in tree.body:
                if not isinstance(s_, ast.ImportFrom) or repo is None:
                    continue
                for al in s_.names:
                    if (al.asname or al.name) != name:
                        continue
                    base = mod.name.split(".")
                    is_pkg = getattr(mod, "path", "").endswith("__init__.py")
                    target = ".".join(base[: len(base) - s_.level + (1 if is_pkg else 0)] + ([s_.module] if s_.module else [])) if s_.level else (s_.module or "")
                    src = repo.modules.get(target)
                    if src is None or getattr(src, "tree", None) is None or src is mod:
                        return None
                    from .absint import Frame
                    holder = ast.parse("def _module_body():\n    pass").body[0]
                    holder._module, holder._parent, holder._class = src, src.tree, None
                    frame2 = Frame(holder, fr.depth + 1, None, name=f"<module {target}>", is_method=False)
                    frame2.caller = fr
                    return self._module_table(interp, al.name, st, frame2)
        if expr is None:
            # NAME = b"".join / _b("").join: joining with that (constant) separator
            for s_ in tree.body:
                if isinstance(s_, ast.Assign) and len(s_.targets) == 1 and isinstance(s_.targets[0], ast.Name) and s_.targets[0].id == name and isinstance(s_.value, ast.Attribute) \
                        and s_.value.attr == "join":
                    sep = s_.value.value
                    if isinstance(sep, ast.Call) and dotted(sep.func) in ("_b", "compat._b") and len(sep.args) == 1 and isinstance(sep.args[0], ast.Constant) and isinstance(sep.args[0].value, str):
                        return [val(("partial", ("strmethod", "join"), (("const", sep.args[0].value.encode("latin-1")),), ()), st)]
                    if isinstance(sep, ast.Constant) and isinstance(sep.value, (str, bytes)):
                        return [val(("partial", ("strmethod", "join"), (("const", sep.value),), ()), st)]
        if expr is None:
            # NAME = BaseException.__repr__ / object.__str__ ...: the builtin, called with the object as its argument
            for s_ in tree.body:
                if isinstance(s_, ast.Assign) and len(s_.targets) == 1 and isinstance(s_.targets[0], ast.Name) and s_.targets[0].id == name and isinstance(s_.value, ast.Attribute) \
                        and s_.value.attr in ("__repr__", "__str__") and isinstance(s_.value.value, ast.Name) and s_.value.value.id in self.BUILTIN_EXCEPTIONS + ("object",):
                    return [val(("builtin", "repr" if s_.value.attr == "__repr__" else "str"), st)]
        if expr is None:
            return None
        from .absint import Frame
        holder = ast.parse("def _module_body():\n    pass").body[0]
        holder._module = mod
        holder._parent = tree
        holder._class = None
        frame = Frame(holder, fr.depth + 1, None, name="<module>", is_method=False)
        frame.caller = fr
        return list(interp.eval(expr, st, frame))

    @staticmethod
    def _is_consumer(expr):
        return (isinstance(expr, ast.Attribute) and expr.attr == "extend" and isinstance(expr.value, ast.Call) and (dotted(expr.value.func) or "") in ("collections.deque", "deque")
                and not expr.value.args and len(expr.value.keywords) == 1 and expr.value.keywords[0].arg == "maxlen" and isinstance(expr.value.keywords[0].value, ast.Constant)
                and expr.value.keywords[0].value.value == 0)

    def default_value(self, expr, func):
        """A parameter default that names something of the module (a class, a function, a builtin function): that thing."""
        if isinstance(expr, ast.Name):
            mod = getattr(func, "_module", None)
            if expr.id in ("repr", "str", "bool", "len", "getattr", "setattr"):
                return ("builtin", expr.id)
            ci = self.classes.lookup(mod, expr.id) if mod is not None else None
            if ci is not None and not ci.external:
                return ("classref", ci)
            f = self.classes.lookup_function(mod, expr.id) if mod is not None else None
            if f is not None:
                return ("func", f)
        return TOP

    def _made_by_repo_function(self, mod, expr):
        """NAME = factory(<constants / names>) at module level, the factory being a function of the repository (a matcher made by
        MatchesPredicateWithParams ...): what the call makes is what the name holds."""
        if not (isinstance(expr, ast.Call) and isinstance(expr.func, ast.Name) and not any(isinstance(a, ast.Starred) for a in expr.args) and all(k.arg is not None for k in expr.keywords)):
            return False
        if not all(isinstance(a, (ast.Constant, ast.Name, ast.Attribute)) for a in list(expr.args) + [k.value for k in expr.keywords]):
            return False
        return self.classes.lookup_function(mod, expr.func.id) is not None

    def import_from(self, interp, stmt, st, fr):
        """`from .module import name` inside a function: the local names are bound to what those names are in that module."""
        mod = getattr(fr.func, "_module", None)
        if mod is None:
            return None
        base = mod.name.split(".")
        is_pkg = mod.path.endswith("__init__.py") if hasattr(mod, "path") else False
        if stmt.level:
            base = base[: len(base) - stmt.level + (1 if is_pkg else 0)]
            target = ".".join(base + ([stmt.module] if stmt.module else []))
        else:
            target = stmt.module or ""
        if target not in self.classes.repo.modules:
            return None
        src = self.classes.repo.modules[target]
        from .absint import Frame
        for al in stmt.names:
            name, local = al.name, al.asname or al.name
            ci = self.classes.lookup(src, name)
            f = self.classes.lookup_function(src, name) if ci is None else None
            if ci is not None and not ci.external:
                st = st.set(fr.local(local), ("classref", ci))
            elif f is not None:
                st = st.set(fr.local(local), ("func", f))
            else:
                holder = ast.parse("def _importing():\n    pass").body[0]
                holder._module, holder._parent, holder._class = src, src.tree, None
                frame = Frame(holder, fr.depth + 1, None, name=f"<module {target}>", is_method=False)
                frame.caller = fr
                got = self._module_table(interp, name, st, frame)
                if got and len(got) == 1 and got[0].kind == "val":
                    st = got[0].state.set(fr.local(local), got[0].value)
        return st

    def _root_attr(self, interp, chain, st, fr):
        """self.<name> on the analysed object, when it is neither state nor environment: class-level tables."""
        if len(chain) != 2 or fr.receiver is None or st.has(fr.self_key + "." + chain[1]) or ".".join(chain) in self.attrs:
            return None
        meth = self._method(fr.receiver, chain[1])
        if meth is not None:
            if self._decorators(meth) & {"property", "cached_property"} and interp is not None:
                return interp.inline(meth, {}, st, fr, receiver=fr.receiver)   # self.<property>: its getter runs
            return None
        getter = self._property_getter(fr.receiver, chain[1])
        if getter is not None and interp is not None:
            return self._run_getter(interp, getter, ("self",), st, fr, receiver=fr.receiver)
        got = self._class_attr_expr(fr.receiver, chain[1])
        if got is not None:
            return self._bound_to_root(self._eval_class_expr(interp, got[0], got[1], st, fr))
        dyn = self._dynamic_lookup(interp, fr.receiver, chain[1], ("self",), st, fr)
        if dyn is not None:
            return dyn
        if self.root_attr_absent(chain[1]):
            return [exc(("exc", "AttributeError"), st)]   # an attribute nobody assigned
        return None

    @staticmethod
    def _bind_member(v, obj):
        """What looking up a class member on an object gives: a function (and a functools.partialmethod) is bound to the object."""
        if isinstance(v, tuple) and v[:1] == ("func",):
            return ("partial", v, (obj,), ())
        if isinstance(v, tuple) and v[:1] == ("partialmethod",) and len(v) == 4:
            return ("partial", v[1], (obj,) + tuple(v[2]), tuple(v[3]))
        return v

    @classmethod
    def _bound_to_root(cls, results):
        """(a function kept in a class attribute is a method: looked up on the analysed object it is bound to it)"""
        return [r if r.kind == "exc" else val(cls._bind_member(r.value, ("self",)), r.state) for r in results]

    def root_attr_absent(self, attr):
        """Is an attribute of the analysed object that neither the state, the environment nor the classes of the
        repository define known not to exist?  (Name-mangled ones under ``closed_private``; domains that know the
        external base classes of the object say more.)"""
        return self.closed_private and is_mangled(attr)

    # The analysed object was built by its real constructor: a name-mangled attribute (self.__x -- only the class's own
    # code can assign it) that is neither in the state nor defined by the class does not exist.
    closed_private = False

    def load_attr(self, chain, st, fr):
        if fr.instance is not None and chain and chain[0] == fr.selfname and all(isinstance(c, str) for c in chain):
            return None   # attributes of an instance are never the analysed object's environment
        got = super().load_attr(chain, st, fr)
        if got is not None:
            return got
        if len(chain) == 2 and all(isinstance(c, str) for c in chain):
            if fr.selfname and chain[0] == fr.selfname and fr.receiver is not None and fr.instance is None and not st.has("self." + chain[1]):
                d = "self." + chain[1]
                f = self._method(fr.receiver, chain[1])
                is_prop = f is not None and self._decorators(f) & {"property", "cached_property"}
                if self.track(d) or d in self.results or self._is_method_value(d) or (f is not None and not is_prop):
                    return ("method", chain[1])
            if chain[1] == "append" and chain[0] != fr.selfname:
                key = fr.local(chain[0])
                cur = st.get(key, None)
                if isinstance(cur, tuple) and cur[:1] == ("tuple",):
                    return ("listappend", key)
        if all(isinstance(c, str) for c in chain) and ".".join(chain) in self.ctors and not st.has(fr.local(chain[0])):
            return ("ctorref", ".".join(chain))   # a constructor of the environment, handed around as a value
        if len(chain) == 2 and all(isinstance(c, str) for c in chain) and ".".join(chain) in self.CALLED_BY_NAME and not st.has(fr.local(chain[0])):
            return ("builtin", ".".join(chain))   # itertools.count & co. handed around as values
        if len(chain) == 1 and isinstance(chain[0], str) and not st.has(fr.local(chain[0])):
            if self.track(chain[0]) or chain[0] in self.results:
                return ("trackedfn", chain[0])   # a function of the environment, handed around as a value
            if chain[0] in ("bool", "repr", "str", "len", "object", "getattr", "setattr", "delattr", "hasattr") or chain[0] in self.CALLED_BY_NAME:
                return ("builtin", chain[0])
            f = self._lookup_function(chain[0], fr) or self.classes.lookup_function(getattr(fr.func, "_module", None), chain[0])
            if f is not None:
                return ("func", f)
            ci = self._class_of_expr(ast.Name(id=chain[0], ctx=ast.Load()), fr)
            if ci is not None:
                return ("classref", ci)
            if self._is_exception_class(chain[0], fr):
                return ("excclass", chain[0])
            if chain[0] in self.IMPORTED_BY_NAME and self._imports_name(fr, chain[0]):
                return ("builtin", chain[0])   # from operator import attrgetter ...: the library function, handed around as a value
        return None

    def _is_method_value(self, d):
        return False

    # Builtin types and library functions that are modelled where they are *called by name* (`list(x)`, `itertools.count(1)`):
    # held in a variable, a table or a partial and called from there, they are called through a synthesized `name(args)`.
    CALLED_BY_NAME = frozenset({"list", "dict", "set", "tuple", "frozenset", "int", "float", "bytes", "sorted", "reversed", "iter", "next", "enumerate", "zip", "map",
                                "filter", "any", "all", "sum", "min", "max", "isinstance", "issubclass", "callable", "type", "id", "vars", "print",
                                "itertools.count", "itertools.chain", "itertools.repeat", "itertools.filterfalse", "itertools.dropwhile", "itertools.takewhile",
                                "itertools.islice", "itertools.accumulate", "itertools.starmap", "itertools.zip_longest", "functools.reduce", "functools.partial",
                                "operator.attrgetter", "operator.itemgetter", "operator.methodcaller", "operator.is_", "operator.is_not", "operator.not_", "operator.eq",
                                "operator.ne", "operator.contains", "operator.truth", "operator.getitem", "operator.add", "operator.or_", "operator.and_", "operator.call", "operator.lt", "operator.gt", "operator.le", "operator.ge", "operator.sub",
                                "sys.exc_info", "sys.exception", "copy.copy", "copy.deepcopy"})
    IMPORTED_BY_NAME = frozenset({"attrgetter", "itemgetter", "methodcaller", "partial", "reduce", "chain", "count", "repeat", "filterfalse", "dropwhile", "takewhile", "islice",
                                  "accumulate", "starmap", "contains", "is_", "is_not", "not_", "eq", "ne", "truth", "getitem"})

    @staticmethod
    def _imports_name(fr, name):
        tree = getattr(getattr(fr.func, "_module", None), "tree", None)
        return tree is not None and any(isinstance(s_, ast.ImportFrom) and s_.module in ("operator", "functools", "itertools") and any((a_.asname or a_.name) == name for a_ in s_.names)
                                        for s_ in tree.body)

    _by_name_cache = {}
    OPERATOR_EXPR = {"operator.contains": (2, "{1} in {0}"), "operator.is_": (2, "{0} is {1}"), "operator.is_not": (2, "{0} is not {1}"), "operator.not_": (1, "not {0}"),
                     "operator.eq": (2, "{0} == {1}"), "operator.ne": (2, "{0} != {1}"), "operator.truth": (1, "bool({0})"), "operator.getitem": (2, "{0}[{1}]"),
                     "operator.add": (2, "{0} + {1}"), "operator.or_": (2, "{0} | {1}"), "operator.and_": (2, "{0} & {1}"), "operator.lt": (2, "{0} < {1}"), "operator.gt": (2, "{0} > {1}"),
                     "operator.le": (2, "{0} <= {1}"), "operator.ge": (2, "{0} >= {1}"), "operator.sub": (2, "{0} - {1}")}

    def call_by_name(self, interp, name, pos, kw, st, fr):
        """`name(*pos, **kw)` for a builtin held as a value: evaluated exactly as the call written out would be."""
        from .loader import _annotate
        key = (name, len(pos), tuple(k for k, _ in kw), id(getattr(fr.func, "_module", None)))
        f = self._by_name_cache.get(key)
        if f is None:
            params = [f"_a{i}" for i in range(len(pos))]
            kws = [k for k, _ in kw]
            if name == "type" and len(pos) == 0:
                return None
            op_name = name if name in self.OPERATOR_EXPR else "operator." + name
            if op_name in self.OPERATOR_EXPR and not kws and len(pos) == self.OPERATOR_EXPR[op_name][0]:
                src = f"def _calling_a_builtin({', '.join(params)}):\n    return {self.OPERATOR_EXPR[op_name][1].format(*params)}\n"   # operator.f(a, b) is the expression it names
            else:
                src = f"def _calling_a_builtin({', '.join(params + kws)}):\n    return {name}({', '.join(params + [f'{k}={k}' for k in kws])})\n"
            tree = ast.parse(src)
            _annotate(tree, getattr(fr.func, "_module", None))
            f = tree.body[0]
            f.name = f"<{name} called as a value>"
            f._parent = None
            self._by_name_cache[key] = f
        argvals = {f"_a{i}": v for i, v in enumerate(pos)}
        argvals.update(dict(kw))
        return interp.inline(f, argvals, st, fr, is_method=False)

    BUILTIN_EXCEPTIONS = ("BaseException", "Exception", "KeyboardInterrupt", "SystemExit", "GeneratorExit", "ValueError", "TypeError", "KeyError", "IndexError",
                          "AttributeError", "RuntimeError", "StopIteration", "AssertionError", "OSError", "IOError", "NotImplementedError", "LookupError")

    def _is_exception_class(self, name, fr):
        if name in self.BUILTIN_EXCEPTIONS:
            return True
        mod = getattr(fr.func, "_module", None)
        ci = self.classes.lookup(mod, name) if mod is not None else None
        return ci is not None and (self.classes.has_base_named(ci, "BaseException") or self.classes.has_base_named(ci, "Exception"))

    def match_dynamic(self, interp, handler_type, excvalue, st, fr):
        """`except <expression>:` -- the expression is evaluated; a tuple of exception classes decides by name."""
        got = [r for r in interp.eval(handler_type, st, fr) if r.kind == "val"]
        if len(got) != 1:
            return None
        v = got[0].value
        cand = list(v[1:]) if isinstance(v, tuple) and v[:1] == ("tuple",) else [v]
        if not cand or not all(isinstance(c, tuple) and c[:1] in (("excclass",), ("ctorref",)) for c in cand):
            return None
        cand = [("excclass", c[1].split(".")[-1]) for c in cand]
        if not (isinstance(excvalue, tuple) and len(excvalue) >= 2 and excvalue[0] == "exc" and isinstance(excvalue[1], str)):
            return "maybe"
        verdict = self._exc_isinstance(excvalue[1], [c[1] for c in cand], fr)
        return "maybe" if verdict is None else ("yes" if verdict else "no")

    @staticmethod
    def _lookup_function(name, fr):
        """A def of that name in a lexically enclosing function or at module level (a first-class function value)."""
        n = fr.func
        while n is not None:
            body = getattr(n, "body", None)
            if isinstance(body, list):
                for s_ in body:
                    if isinstance(s_, FUNC_TYPES) and s_.name == name:
                        return s_
            n = getattr(n, "_parent", None)
        return None

    def key_of(self, interp, e, st, fr):
        """State key of `<object>.attr` for objects of this model, whatever alias the object is reached through."""
        got = super().key_of(interp, e, st, fr)
        if got is not None or not isinstance(e, ast.Attribute):
            return got
        ch = attr_chain(e)
        if not ch or len(ch) < 2 or not all(isinstance(c, str) for c in ch):
            return None
        if len(ch) == 2 and fr.selfname and ch[0] == fr.selfname:
            return None   # self.attr: the interpreter's own rule
        if fr.instance is not None and ch[0] == fr.selfname:
            cur = fr.instance
        elif st.has(fr.local(ch[0])):
            cur = st.get(fr.local(ch[0]))
        elif fr.selfname and ch[0] == fr.selfname:
            cur = ("self",)
        else:
            return None
        for attr in ch[1:-1]:
            if is_inst(cur):
                cur = st.get(f"inst.{cur[1]}.{attr}", None)
            elif cur == ("self",):
                cur = st.get("self." + attr, self.attrs.get("self." + attr))
            elif isinstance(cur, tuple) and cur[:1] == ("wobj",):
                cur = st.get(f"obj.{cur[1]}.{attr}", self.attrs.get(f"{cur[1]}.{attr}"))
            else:
                return None
        if is_inst(cur):
            return f"inst.{cur[1]}.{ch[-1]}"
        if cur == ("self",):
            return "self." + ch[-1]
        if isinstance(cur, tuple) and cur[:1] == ("wobj",) and st.has(f"obj.{cur[1]}.{ch[-1]}"):
            return f"obj.{cur[1]}.{ch[-1]}"
        return None

    wobj_state = True

    def _delattr_value(self, base, name, st):
        """delattr(base, name) on values -> results, or None when the model cannot tell."""
        if not (isinstance(name, tuple) and name[:1] == ("const",) and isinstance(name[1], str)):
            return None
        if base == ("self",) or is_inst(base):
            key = ("self." if base == ("self",) else f"inst.{base[1]}.") + name[1]
            if not st.has(key):
                return [exc(("exc", "AttributeError"), st)]
            return [val(NONE, type(st)(frozenset((k, v) for k, v in st.items if k != key), st.log))]
        if isinstance(base, tuple) and base[:1] == ("wobj",) and (st.get(f"obj.{base[1]}.{name[1]}", None) == DELETED or ((base[1], name[1]) in self.lacks and not st.has(f"obj.{base[1]}.{name[1]}"))):
            return [exc(("exc", "AttributeError"), st)]
        s2 = self.delete_attr_on(base, name[1], st)
        return [val(NONE, s2)] if s2 is not None else None

    def _attr_builtin(self, interp, which, pos, st, fr):
        """getattr / setattr / delattr / hasattr called through a value (handed around as functions)."""
        if which == "setattr" and len(pos) == 3 and isinstance(pos[1], tuple) and pos[1][:1] == ("const",) and isinstance(pos[1][1], str):
            if is_inst(pos[0]) and interp is not None:
                return [val(NONE, self.set_attribute_value(interp, pos[0], pos[1][1], pos[2], st, fr))]   # (a property's setter runs)
            s2 = self.store_attr_on(pos[0], pos[1][1], pos[2], st, fr)
            return [val(NONE, s2)] if s2 is not None else None
        if which == "delattr" and len(pos) == 2:
            return self._delattr_value(pos[0], pos[1], st)
        if which in ("getattr", "hasattr") and len(pos) in ((2, 3) if which == "getattr" else (2,)) and isinstance(pos[1], tuple) and pos[1][:1] == ("const",) and isinstance(pos[1][1], str):
            got = self.attr_of_value(interp, pos[0], pos[1][1], st, fr)
            if got is None:
                return None
            out = []
            for r in got:
                missing = r.kind == "exc" and r.value[:2] == ("exc", "AttributeError")
                if which == "hasattr":
                    out.append(val(FALSE if missing else TRUE, r.state) if r.kind == "val" or missing else r)
                elif missing and len(pos) == 3:
                    out.append(val(pos[2], r.state))
                else:
                    out.append(r)
            return out
        return None

    def store_attr_on(self, base, attr, value, st, fr):
        got = super().store_attr_on(base, attr, value, st, fr)
        if got is not None:
            return got
        if isinstance(base, tuple) and base[:1] == ("classref",) and len(base) == 2 and hasattr(base[1], "name"):
            return st.set(f"cls.{base[1].name}.{attr}", value)   # setattr(Class, name, value): a member of the class
        if base == ("self",):
            return st.set("self." + attr, value)
        if is_inst(base):
            return st.set(f"inst.{base[1]}.{attr}", value)
        return None

    # -- calling things --------------------------------------------------------------------------
    @staticmethod
    def _bind(f, pos, kw, skip_first):
        got = ObjectDomain._bind_raw(f, pos, kw, skip_first)
        if got is None and os.environ.get("TTSA_TRACE_EXC") == "TypeError":
            print("BIND-FAILS", getattr(f, "name", "?"), "pos", str(pos)[:200], "kw", str(kw)[:300])
        return got

    @staticmethod
    def _bind_raw(f, pos, kw, skip_first):
        a = f.args
        params = [p.arg for p in a.posonlyargs + a.args][1 if skip_first else 0:]
        kwonly = [p.arg for p in a.kwonlyargs]
        argvals = {p: v for p, v in zip(params, pos)}
        if a.vararg is not None:
            argvals[a.vararg.arg] = ("tuple",) + tuple(pos[len(params):])
        elif len(pos) > len(params):
            return None   # too many positional arguments: TypeError
        extra = []
        for k, v in kw:
            if k in params or k in kwonly:
                if k in argvals and k in params[: len(pos)]:
                    return None
                argvals[k] = v
            else:
                extra.append((k, v))
        if a.kwarg is not None:
            argvals[a.kwarg.arg] = ("kwdict", tuple(extra))
        elif extra:
            return None
        if not any(isinstance(v, tuple) and v[:1] in (("*",), ("**",)) for v in list(pos) + [v for _, v in kw]):
            # a parameter without default that got no argument: TypeError, like too many
            n_def = len(a.defaults)
            allp = [p.arg for p in a.posonlyargs + a.args]
            required = set(allp[: len(allp) - n_def] if n_def else allp) - (set(allp[:1]) if skip_first else set())
            required |= {p.arg for p, dflt in zip(a.kwonlyargs, a.kw_defaults) if dflt is None}
            if any(p not in argvals for p in required):
                return None
        return argvals

    def call_method(self, interp, inst, name, pos, kw, st, fr):
        f = self._method(inst[2], name)
        if f is None:
            return None
        decos = self._decorators(f)
        got = self._call_decorated_method(interp, f, inst, pos, kw, st, fr)
        if got is not None:
            return got
        if "staticmethod" in decos:
            argvals = self._bind(f, pos, kw, False)
            return [exc(("exc", "TypeError"), st)] if argvals is None else interp.inline(f, argvals, st, fr, receiver=inst[2], is_method=False)
        argvals = self._bind(f, pos, kw, True)
        if argvals is None:
            return [exc(("exc", "TypeError"), st)]
        if "classmethod" in decos:
            return interp.inline(f, argvals, st, fr, receiver=inst[2])
        return self.run_function(interp, f, argvals, st, fr, receiver=inst[2], self_value=inst)

    def _wrap_generator(self, f, results, fr):
        return results

    def run_function(self, interp, f, argvals, st, fr, **inline_kw):
        """Inline ``f``; a generator function's body runs now and the call evaluates to the sequence of its yields
        (as for generator functions called by name)."""
        if isinstance(f, FUNC_TYPES) and is_generator(f) and getattr(self, "collect_yields", True) and not self._decorators(f) & {"inlineCallbacks", "contextmanager"}:
            made = self.make_generator(interp, f, argvals, st, fr, **inline_kw) if self.lazy_eligible(f) else None
            if made is not None:
                return made
            key = f"gen.{fr.depth + 1}"
            out = []
            for r in interp.inline(f, argvals, st.set(key, ()), fr, **inline_kw):
                ys = r.state.get(key, ())
                s2 = r.state.set(key, st.get(key, ())) if st.has(key) else type(st)(frozenset((k, v) for k, v in r.state.items if k != key), r.state.log)
                out.append(exc(r.value, s2) if r.kind == "exc" else self._generator_object(ys, s2))
            return out
        return self._wrap_generator(f, interp.inline(f, argvals, st, fr, **inline_kw), fr)


    # -- decorators ----------------------------------------------------------------------------------
    # Decorators that do not change what a call of the function does, as far as this model goes: descriptors the
    # class table already understands, and markers whose meaning the engine implements itself.
    TRANSPARENT_DECORATORS = {"property", "cached_property", "staticmethod", "classmethod", "abstractmethod", "contextmanager", "inlineCallbacks", "setter", "getter", "deleter",
                              "overload", "final", "override", "skip", "skipIf", "skipUnless", "expectedFailure"}

    def _decorator_values(self, interp, func, st, fr):
        """The decorators of ``func`` that are callables of the repository, innermost first, as abstract values;
        None when one of them cannot be followed (the function is then taken as written)."""
        out = []
        for dexpr in reversed(func.decorator_list):
            name = (dotted(dexpr.func if isinstance(dexpr, ast.Call) else dexpr) or "").split(".")[-1]
            if name in self.TRANSPARENT_DECORATORS:
                continue
            if isinstance(dexpr, ast.Call) and name == "wraps":
                continue   # functools.wraps(f): copies metadata onto the wrapper, the wrapper itself is unchanged
            if isinstance(dexpr, ast.Name):
                mod = getattr(func, "_module", None)
                target = self._lookup_function(dexpr.id, fr) or (self.classes.lookup_function(mod, dexpr.id) if mod is not None and hasattr(self.classes, "lookup_function") else None)
                if target is None or target is func:
                    return None
                out.append(("func", target))
                continue
            if isinstance(dexpr, ast.Call) and isinstance(dexpr.func, ast.Name):
                mod = getattr(func, "_module", None)
                target = self._lookup_function(dexpr.func.id, fr) or (self.classes.lookup_function(mod, dexpr.func.id) if mod is not None and hasattr(self.classes, "lookup_function") else None)
                if target is None or target is func:
                    return None
                out.append(("<decorator expression>", dexpr))   # @factory(args): what the factory returns is the decorator
                continue
            return None
        return out

    def _module_frame(self, func, caller):
        from .absint import Frame
        holder = ast.parse("def _applying_decorators():\n    pass").body[0]
        holder._module = getattr(func, "_module", None)
        holder._parent = getattr(holder._module, "tree", None)
        holder._class = None
        frame = Frame(holder, (caller.depth + 1) if caller is not None else 0, None, name=f"<decorators of {getattr(func, 'name', '?')}>", is_method=False)
        frame.caller = caller
        return frame

    def _decorated_values(self, interp, func, st, caller):
        """What the decorators of ``func`` (functions of the repository) make of it -> results, or None when it has none
        such / they hand back something this model cannot call."""
        frame = self._module_frame(func, caller)
        decos = self._decorator_values(interp, func, st, frame)
        if not decos:
            return None
        cur = [val(("func", func, (("<raw>", TRUE),)), st)]
        for dv in decos:
            nxt = []
            for r in cur:
                if r.kind == "exc":
                    return None
                if dv[0] == "<decorator expression>":
                    for d_r in interp.eval(dv[1], r.state, frame):
                        if d_r.kind == "exc":
                            return None
                        nxt.extend(self.apply(interp, d_r.value, [r.value], [], d_r.state, frame))
                else:
                    nxt.extend(self.apply(interp, dv, [r.value], [], r.state, frame))
            cur = nxt
        if not cur or any(r.kind != "val" or not (isinstance(r.value, tuple) and r.value[:1] and r.value[0] in CALLABLE_TAGS) for r in cur):
            return None
        return cur

    def _call_decorated_method(self, interp, f, obj, pos, kw, st, fr):
        """obj.m(*pos, **kw) where m's decorators are functions of the repository: what they made is looked up on the
        object -- a plain function is bound to it, a staticmethod object is not -- and called.  None: no such decorators."""
        if not getattr(f, "decorator_list", None) or self._decorators(f) & {"staticmethod", "classmethod", "property", "cached_property"}:
            return None
        made = self._decorated_values(interp, f, st, fr)
        if made is None:
            return None
        out = []
        for r in made:
            bound = [obj] if isinstance(r.value, tuple) and r.value[:1] == ("func",) else []
            out.extend(self.apply(interp, r.value, bound + list(pos), list(kw), r.state, fr))
        return out

    def decorated_call(self, interp, func, argvals, st, caller, receiver, is_method, self_value):
        """A call of a function whose decorators are functions of the repository: the decorators run (on the function
        as written), and what they return is called with the arguments.  None: take the function as written."""
        frame = self._module_frame(func, caller)
        cur = self._decorated_values(interp, func, st, caller)
        if cur is None:
            return None   # no such decorators, or they hand back something this model cannot call (an external wrapper, ...)
        a = func.args
        is_meth = is_method and getattr(func, "_class", None) is not None and bool(a.args) and "staticmethod" not in self._decorators(func)
        params = [p.arg for p in a.posonlyargs + a.args][1 if is_meth else 0:]
        pos, kw = [], []
        if is_meth:
            pos.append(self_value if self_value is not None else ("self",))
        positional = True
        for p_ in params:
            if p_ in argvals and positional:
                pos.append(argvals[p_])
            elif p_ in argvals:
                kw.append((p_, argvals[p_]))
            else:
                positional = False
        if a.vararg is not None and a.vararg.arg in argvals:
            extra = argvals[a.vararg.arg]
            if not (isinstance(extra, tuple) and extra[:1] == ("tuple",)) or not positional:
                return None
            pos.extend(extra[1:])
        for p_ in [x.arg for x in a.kwonlyargs]:
            if p_ in argvals:
                kw.append((p_, argvals[p_]))
        if a.kwarg is not None and a.kwarg.arg in argvals:
            more = argvals[a.kwarg.arg]
            if not (isinstance(more, tuple) and more[:1] == ("kwdict",)):
                return None
            kw.extend(more[1])
        out = []
        for r in cur:
            out.extend(self.apply(interp, r.value, pos, kw, r.state, frame))
        return out

    def decorate_nested(self, interp, node, closure, st, fr):
        """`@deco def inner(...)` inside a function: the name is bound to what the decorators return."""
        decos = self._decorator_values(interp, node, st, fr)
        if decos is None:
            # decorators given as expressions (a parameter, a call): evaluate them
            decos = []
            for dexpr in reversed(node.decorator_list):
                name = (dotted(dexpr.func if isinstance(dexpr, ast.Call) else dexpr) or "").split(".")[-1]
                if name in self.TRANSPARENT_DECORATORS or (isinstance(dexpr, ast.Call) and name == "wraps"):
                    continue
                got = [r for r in interp.eval(dexpr, st, fr)]
                if len(got) != 1 or got[0].kind != "val" or not (isinstance(got[0].value, tuple) and got[0].value[:1] and got[0].value[0] in CALLABLE_TAGS):
                    return None
                decos.append(got[0].value)
        if not decos:
            return None
        cur = [val(closure, st)]
        for dv in decos:
            nxt = []
            for r in cur:
                nxt.extend([r] if r.kind == "exc" else self.apply(interp, dv, [r.value], [], r.state, fr))
            cur = nxt
        return cur

    def instantiate(self, interp, ci, pos, kw, st, fr):
        n = st.get("ev.inst", 0)
        inst = ("inst", n, ci)
        s2 = st.set("ev.inst", n + 1)
        init = self._method(ci, "__init__")
        if init is None:
            # no __init__ in the repository (object, namedtuple ...): keep the constructor arguments
            s2 = s2.set(f"inst.{n}.__args__", ("tuple",) + tuple(pos)).set(f"inst.{n}.__kwargs__", ("kwdict", tuple(kw)))
            fields = self._namedtuple_fields(ci)
            if fields is not None:
                for name_, v in list(zip(fields, pos)) + [(k, v) for k, v in kw if k in fields]:
                    s2 = s2.set(f"inst.{n}.{name_}", v)
            return [val(inst, s2)]
        argvals = self._bind(init, pos, kw, True)
        if argvals is None:
            return [exc(("exc", "TypeError"), st)]
        out = []
        for r in interp.inline(init, argvals, s2, fr, receiver=ci, self_value=inst):
            out.append(r if r.kind == "exc" else val(inst, r.state))
        return out

    _NT_CACHE = {}

    def _module_namedtuples(self, fr):
        """{name: [field, ...]} for `Name = namedtuple("Name", fields)` declarations at the top of the frame's module."""
        mod = getattr(fr.func, "_module", None)
        tree = getattr(mod, "tree", None)
        if tree is None:
            return {}
        got = self._NT_CACHE.get(id(tree))
        if got is None:
            table = {}
            for s_ in tree.body:
                if isinstance(s_, ast.Assign) and len(s_.targets) == 1 and isinstance(s_.targets[0], ast.Name) and isinstance(s_.value, ast.Call) \
                        and (dotted(s_.value.func) or "").split(".")[-1] == "namedtuple" and len(s_.value.args) >= 2:
                    spec = s_.value.args[1]
                    if isinstance(spec, ast.Constant) and isinstance(spec.value, str):
                        table[s_.targets[0].id] = spec.value.replace(",", " ").split()
                    elif isinstance(spec, (ast.List, ast.Tuple)) and all(isinstance(e, ast.Constant) for e in spec.elts):
                        table[s_.targets[0].id] = [e.value for e in spec.elts]
            got = self._NT_CACHE[id(tree)] = (tree, table)
        return got[1]

    def _namedtuple_fields(self, ci):
        for c in self.classes.mro(ci):
            for b in c.base_exprs:
                if isinstance(b, ast.Call) and (dotted(b.func) or "").split(".")[-1] == "namedtuple" and len(b.args) >= 2:
                    spec = b.args[1]
                    if isinstance(spec, ast.Constant) and isinstance(spec.value, str):
                        return spec.value.replace(",", " ").split()
                    if isinstance(spec, (ast.List, ast.Tuple)) and all(isinstance(e, ast.Constant) for e in spec.elts):
                        return [e.value for e in spec.elts]
        return None

    def apply(self, interp, fn, pos, kw, st, fr):
        """Call the abstract callable ``fn`` with abstract arguments -> list of Result."""
        pos, kw = list(pos), list(kw)
        tag = fn[0] if isinstance(fn, tuple) and fn else None
        if tag not in ("func", "boundmethod", "classref", "partial", "method", "inst") and not (tag in ("builtin", "pytype") and (fn[1] == "<consume>" or fn[1] in self.CALLED_BY_NAME or fn[1] in self.IMPORTED_BY_NAME)):
            # not a callable of the repository whose body will run: it receives (and the log records) what the lists / dicts hold now
            pos = [unbox_deep(v, st) for v in pos]
            kw = [(k, unbox_deep(v, st)) for k, v in kw]
        if tag == "const-fn" and not pos and not kw:
            return [val(fn[1], st)]   # a bound method without arguments whose answer is known already
        if tag == "trackedfn":
            return self.call_tracked_values(fn[1], pos, kw, st)
        if tag == "setattrmethod" and len(pos) == 2 and not kw and isinstance(pos[0], tuple) and pos[0][:1] == ("const",) and isinstance(pos[0][1], str):
            return [val(NONE, self.set_attribute_value(interp, fn[1], pos[0][1], pos[1], st, fr))]
        if tag == "excclass" and not kw:
            # an exception class held in a variable (self.skipException ...), called: an exception of that class with those arguments
            return [val(("exc", fn[1], f"made in {fr.name}", tuple(unbox_deep(v, st) for v in pos)), st)]
        if tag == "builtin" and fn[1] in ("getattr", "setattr", "delattr", "hasattr") and not kw:
            got = self._attr_builtin(interp, fn[1], pos, st, fr)
            return got if got is not None else [val(TOP, st)]
        if tag == "builtin" and fn[1] == "<consume>" and len(pos) == 1 and not kw:
            # deque(maxlen=0).extend(it): the iterator is run to its end, nothing is kept
            got = self.force_sequence(interp, pos[0], st, fr)
            if os.environ.get("TTSA_TRACE_CONSUME"):
                print("CONSUME", str(pos[0])[:200], "->", None if got is None else [(r.kind, str(r.value)[:80]) for r in got])
            if got is None:
                els = interp._exact_elements(unbox(pos[0], st))
                if els is None:
                    raise Undecided(f"an iterator the analysis cannot follow is run to its end in {fr.name}")
                return [val(NONE, st)]
            return [r if r.kind == "exc" else val(NONE, r.state) for r in got]
        if tag == "pytype":
            if fn[1] == "NoneType" and not pos and not kw:
                return [val(NONE, st)]
            return self.apply(interp, ("builtin", fn[1]), pos, kw, st, fr)   # type(<a constant>) called: that builtin type
        if tag == "builtin" and (fn[1] in self.CALLED_BY_NAME or fn[1] in self.IMPORTED_BY_NAME):
            got = self.call_by_name(interp, fn[1], pos, kw, st, fr)
            return got if got is not None else [val(TOP, st)]
        if tag == "builtin" and len(pos) <= 1:
            if fn[1] == "bool" and not pos and not kw:
                return [val(FALSE, st)]
            if fn[1] == "str" and not pos and not kw:
                return [val(("const", ""), st)]
            if fn[1] == "bool" and pos:
                return [val({"T": TRUE, "F": FALSE}.get(self.truth(pos[0]), ("bool",)), st)]
            if fn[1] in ("repr", "str") and pos:
                ok_, p_ = self._py(unbox_deep(pos[0], st))
                if ok_ and isinstance(p_, (int, float, str, bytes, bool, type(None))):
                    return [val(("const", (repr if fn[1] == "repr" else str)(p_)), st)]
            if fn[1] == "len" and pos:
                els = interp._exact_elements(pos[0])
                return [val(("const", len(els)) if els is not None else TOP, st)]
            if fn[1] == "object":
                n = st.get("ev.inst", 0)
                return [val(("sym", f"<object #{n}>"), st.set("ev.inst", n + 1))]
            return [val(("ret", fn[1], pos[0] if pos else None), st)]
        if tag == "partial":
            _, inner, p_pos, p_kw = fn
            refs = {}
            pos2 = [st.get(v[1], TOP) if isinstance(v, tuple) and v[:1] == ("ref",) else v for v in p_pos]
            kw2 = []
            for k, v in p_kw:
                if isinstance(v, tuple) and v[:1] == ("ref",):
                    refs[k] = v[1]
                    kw2.append((k, st.get(v[1], TOP)))
                else:
                    kw2.append((k, v))
            pos_refs = {i: v[1] for i, v in enumerate(p_pos) if isinstance(v, tuple) and v[:1] == ("ref",)}
            given = {k for k, _ in kw}
            out = []
            for r in self.apply(interp, inner, pos2 + pos, [x for x in kw2 if x[0] not in given] + kw, st, fr):
                s2 = r.state
                for k, key in refs.items():
                    if s2.has("outparam." + k):
                        s2 = s2.set(key, s2.get("outparam." + k))
                if pos_refs and isinstance(inner, tuple) and inner[:1] == ("func",):
                    names = [p.arg for p in inner[1].args.posonlyargs + inner[1].args.args]
                    for i, key in pos_refs.items():
                        if i < len(names) and s2.has("outparam." + names[i]):
                            s2 = s2.set(key, s2.get("outparam." + names[i]))
                if any(k_.startswith("outparam.") for k_, _ in s2.items):
                    s2 = s2.drop_prefix("outparam.")
                out.append(type(r)(r.kind, r.value, s2))
            return out
        if tag == "func":
            node = fn[1]
            if isinstance(node, FUNC_TYPES) and getattr(node, "_class", None) is not None and pos and (pos[0] == ("self",) or is_inst(pos[0])) \
                    and node.args.args and not self._decorators(node) & {"staticmethod", "classmethod"}:
                # a method as a plain function, handed its object explicitly (what a decorator's wrapper does): the method runs on that object
                argvals = self._bind(node, pos[1:], kw, True)
                if argvals is None:
                    return [exc(("exc", "TypeError"), st)]
                root = getattr(self, "root_class", None) or fr.receiver
                res = interp.inline(node, argvals, st, fr, receiver=(pos[0][2] if is_inst(pos[0]) else root), is_method=True, closure_env=fn[2] if len(fn) == 3 else (),
                                    self_value=pos[0] if is_inst(pos[0]) else None)
                return self._wrap_generator(node, res, fr)
            argvals = self._bind(node, pos, kw, False) if not isinstance(node, ast.Lambda) or True else None
            if argvals is None:
                return [exc(("exc", "TypeError"), st)]
            if is_generator(node) and getattr(self, "collect_yields", True) and not self._decorators(node) & {"inlineCallbacks", "contextmanager"}:
                made = self.make_generator(interp, node, argvals, st, fr, receiver=fr.receiver, is_method=False, closure_env=fn[2] if len(fn) == 3 else ()) if self.lazy_eligible(node) else None
                if made is not None:
                    return made
                # calling a generator function through a value: as for a call by name, its body runs now and the call evaluates to the sequence of its yields
                key = f"gen.{fr.depth + 1}"
                out = []
                for r in interp.inline(node, argvals, st.set(key, ()), fr, receiver=fr.receiver, is_method=False, closure_env=fn[2] if len(fn) == 3 else ()):
                    ys = r.state.get(key, ())
                    s2 = r.state.set(key, st.get(key, ())) if st.has(key) else type(st)(frozenset((k, v) for k, v in r.state.items if k != key), r.state.log)
                    out.append(exc(r.value, s2) if r.kind == "exc" else self._generator_object(ys, s2))
                return out
            res = interp.inline(node, argvals, st, fr, receiver=fr.receiver, is_method=False, closure_env=fn[2] if len(fn) == 3 else ())
            return self._wrap_generator(node, res, fr)
        if tag == "bound":
            return self.call_bound_values(fn, pos, kw, st)
        if tag == "wobj":
            return self.call_bound_values(("bound", fn[1], "__call__"), pos, kw, st)
        if tag == "boundmethod":
            got = self.call_method(interp, fn[1], fn[2], pos, kw, st, fr)
            return got if got is not None else [val(TOP, st)]
        if is_inst(fn):
            got = self.call_method(interp, fn, "__call__", pos, kw, st, fr)
            return got if got is not None else [exc(("exc", "TypeError"), st)]
        if tag == "classref":
            return self.instantiate(interp, fn[1], pos, kw, st, fr)
        if tag == "ctorref":
            cpos, ckw = self._ctor_args(ast.parse(fn[1], mode="eval").body, fr, tuple(pos), tuple(kw))
            obj = ("new", fn[1].split(".")[-1], cpos, ckw)
            if getattr(self, "unique_ctors", False):
                n_ = st.get("ev.alloc", 0)
                return [val(obj + (n_,), st.set("ev.alloc", n_ + 1))]
            return [val(obj, st)]
        if tag == "supermethod":
            owner, name, inst = fn[1], fn[2], fn[3]
            receiver = inst[2] if inst is not None else (getattr(self, "root_class", None) or fr.receiver)
            found = self.classes.resolve_method(receiver, name, after=owner) if receiver is not None else (None, None)
            f = found[1] if self._followed(found[0]) and isinstance(found[1], FUNC_TYPES) else None
            if f is None and receiver is not None:
                # not a def further up the MRO: a method made in a class body there (name = factory(...)), looked up like any member
                mro = list(self.classes.mro(receiver))
                later = mro[mro.index(owner) + 1:] if owner in mro else []
                obj = inst if inst is not None else ("self",)
                for c in later:
                    if c.external or not self._followed(c):
                        continue
                    if name in c.attrs and name not in c.methods:
                        out = []
                        for r in self._eval_class_expr(interp, c, c.attrs[name], st, fr):
                            if r.kind == "exc":
                                out.append(r)
                                continue
                            callee = self._bind_member(r.value, obj)
                            out.extend(self.apply(interp, callee, pos, kw, r.state, fr))
                        return out
                    if name in self._dynamic_names(interp, c, fr):
                        got = self._dynamic_lookup(interp, c, name, obj, st, fr)
                        out = []
                        for r in got or []:
                            out.extend([r] if r.kind == "exc" else self.apply(interp, r.value, pos, kw, r.state, fr))
                        return out
            if f is None:
                return [val(NONE, st)]   # a method of an external base (object, unittest ...): nothing this model follows
            argvals = self._bind(f, pos, kw, True)
            if argvals is None:
                return [exc(("exc", "TypeError"), st)]
            return self.run_function(interp, f, argvals, st, fr, receiver=receiver, self_value=inst) if inst is not None else self.run_function(interp, f, argvals, st, fr, receiver=receiver)
        if tag == "dictmethod" and not kw:
            got = self._dict_read(st.get(fn[1], None), fn[2], pos, st)
            return got if got is not None else [val(TOP, st)]
        if tag == "strmethod" and pos and not kw:
            if fn[1] == "join" and len(pos) == 2 and (self.pullable(pos[1]) or (isinstance(pos[1], tuple) and pos[1][:1] == ("lazymap",))):
                out = []
                for g in interp._forced([val(pos[1], st)], fr):
                    out.extend([g] if g.kind == "exc" else self.apply(interp, fn, [pos[0], g.value], [], g.state, fr))
                return out
            pys = [self._py(unbox_deep(v, st)) for v in pos]
            if all(ok for ok, _ in pys) and isinstance(pys[0][1], (str, bytes)):
                try:
                    return [val(self._abs(getattr(pys[0][1], fn[1])(*[x for _, x in pys[1:]])), st)]
                except Exception as e_:
                    return [exc(("exc", type(e_).__name__), st)]
            return [val(TOP, st)]
        if tag == "decoderfactory" and not pos and not kw:
            n = st.get("ev.decoders", 0)
            return [val(("decoder", fn[1], n), st.set("ev.decoders", n + 1))]
        if tag == "decodermethod":
            args_ = dict(zip(("input", "final"), pos))
            args_.update(dict(kw))
            return self._decode(fn[1], args_.get("input"), args_.get("final", FALSE), st)
        if tag == "setmethod":
            cur = st.get(fn[1], None)
            if isinstance(cur, tuple) and cur[:1] == ("set",) and len(pos) <= 1 and not kw:
                return self.set_method(fn[1], fn[2], pos[0] if pos else None, st)
            return [val(TOP, st)]
        if tag == "listappend":
            cur = st.get(fn[1], None)
            if isinstance(cur, tuple) and cur[:1] == ("tuple",) and len(pos) == 1:
                return [val(NONE, st.set(fn[1], cur + (pos[0],)))]
            return [val(NONE, st.set(fn[1], TOP))]
        if tag == "attrgetter" and len(pos) == 1 and isinstance(fn[1], tuple):
            cur = [val((), st)]
            for path in fn[1]:
                nxt = []
                for acc in cur:
                    if acc.kind == "exc":
                        nxt.append(acc)
                        continue
                    for g in self._getattr_path(interp, pos[0], path, acc.state, fr):
                        nxt.append(g if g.kind == "exc" else val(acc.value + (g.value,), g.state))
                cur = nxt
            return [r if r.kind == "exc" else val(("tuple",) + r.value, r.state) for r in cur]
        if tag == "attrgetter" and len(pos) == 1:
            return self._getattr_path(interp, pos[0], fn[1], st, fr)
        if tag == "itemgetter" and len(pos) == 1:
            base, idx = pos[0], fn[1]
            got = self.subscript(base, idx, st, fr)
            if got is None and isinstance(base, tuple) and base[:1] == ("tuple",) and isinstance(idx, tuple) and idx[:1] == ("const",) and isinstance(idx[1], int) and -len(base) < idx[1] < len(base) - 1:
                got = base[1 + idx[1]] if idx[1] >= 0 else base[idx[1]]
            return [val(TOP if got is None else got, st)]
        if tag == "methodcaller" and len(pos) == 1:
            target = pos[0]
            if is_handle(target) and isinstance(st.get(heap_key(target), None), tuple) and st.get(heap_key(target))[:1] == ("set",) and fn[1] in self.SET_METHODS and len(fn[2]) <= 1 and not fn[3]:
                return self.set_method(heap_key(target), fn[1], unbox(fn[2][0], st) if fn[2] else None, st)   # methodcaller("update", x)(<a set some object holds>)
            if is_inst(target):
                got = self.call_method(interp, target, fn[1], list(fn[2]), list(fn[3]), st, fr) if self._method(target[2], fn[1]) is not None else None
                if got is None:
                    # not a method the class defines: whatever the attribute is (a callable stored on the instance, object.__setattr__ ...) is called
                    found = self._inst_attr(interp, target, fn[1], st, fr)
                    if found is not None:
                        out = []
                        for g in found:
                            out.extend([g] if g.kind == "exc" else self.apply(interp, g.value, list(fn[2]), list(fn[3]), g.state, fr))
                        return out
                return got if got is not None else [val(TOP, st)]
            if isinstance(target, tuple) and target[:1] == ("wobj",):
                return self.call_bound_values(("bound", target[1], fn[1]), list(fn[2]), list(fn[3]), st)
            if target == ("self",) or target == fr.instance:
                return self.apply(interp, ("method", fn[1]), list(fn[2]), list(fn[3]), st, fr)
            return [val(TOP, st)]
        if tag == "method":
            return self.apply_method(interp, fn[1], pos, kw, st, fr)
        if fn == TOP and self.strict_calls:
            # what is called here decides what happens next, and the analysis does not know what it is: no verdict
            raise Undecided(f"a value the analysis could not determine is called in {fr.name}")
        return [val(TOP, st)]

    # Calling a value that evaluated to "unknown" is no verdict (exit 2), not a call that does nothing.
    strict_calls = True

    def _unknown_arguments(self, call, st, fr):
        """A call of code this model would follow, whose argument list (a `*x` / `**x` of unknown content) it cannot determine."""
        if self.strict_calls:
            raise Undecided(f"the arguments of the call at line {getattr(call, 'lineno', '?')} of {fr.name} could not be determined (a * / ** argument of unknown content)")
        return val(TOP, st)

    def _param_names(self, fn, fr):
        """Positional parameter names of an abstract callable (without self), or None."""
        tag = fn[0] if isinstance(fn, tuple) and fn else None
        node, skip = None, 0
        if tag == "func":
            node = fn[1]
        elif tag == "method":
            root = getattr(self, "root_class", None) or fr.receiver
            node = self._method(root, fn[1]) if root is not None else None
            skip = 0 if node is None or "staticmethod" in self._decorators(node) else 1
        elif tag == "boundmethod":
            node = self._method(fn[1][2], fn[2])
            skip = 0 if node is None or "staticmethod" in self._decorators(node) else 1
        elif tag == "partial":
            inner = self._param_names(fn[1], fr)
            return inner[len(fn[2]):] if inner is not None else None
        if node is None:
            return None
        return [p.arg for p in node.args.posonlyargs + node.args.args][skip:]

    def apply_refs(self, interp, fn, pos, kw, st, fr):
        """apply() with arguments that may be ("ref", key) aliases of a caller's list / dict: the current value is
        handed in, and what the callee left in the parameter is written back."""
        names = self._param_names(fn, fr)
        pos_refs = {i: v[1] for i, v in enumerate(pos) if isinstance(v, tuple) and len(v) == 2 and v[0] == "ref"}
        kw_refs = {k: v[1] for k, v in kw if isinstance(v, tuple) and len(v) == 2 and v[0] == "ref"}
        if not pos_refs and not kw_refs:
            return self.apply(interp, fn, pos, kw, st, fr)
        pos2 = [st.get(v[1], TOP) if i in pos_refs else v for i, v in enumerate(pos)]
        kw2 = [(k, st.get(v[1], TOP) if k in kw_refs else v) for k, v in kw]
        out = []
        for r in self.apply(interp, fn, pos2, kw2, st, fr):
            s2 = r.state
            for i, key in pos_refs.items():
                if names is not None and i < len(names) and s2.has("outparam." + names[i]):
                    s2 = s2.set(key, s2.get("outparam." + names[i]))
            for k, key in kw_refs.items():
                if s2.has("outparam." + k):
                    s2 = s2.set(key, s2.get("outparam." + k))
            if any(k_.startswith("outparam.") for k_, _ in s2.items):
                s2 = s2.drop_prefix("outparam.")
            out.append(type(r)(r.kind, r.value, s2))
        return out

    def ref_or_value(self, interp, expr, value, st, fr):
        """("ref", key) when ``expr`` names a variable (or attribute kept in the state) that holds a list / dict, else the value."""
        key = interp._key_of(expr, fr, st) if isinstance(expr, (ast.Name, ast.Attribute)) else None
        if key is not None and st.has(key) and isinstance(value, tuple) and value[:1] in (("tuple",), ("kwdict",)):
            return ("ref", key)
        return value

    def _getattr_path(self, interp, obj, path, st, fr):
        cur = [val(obj, st)]
        for attr in path.split("."):
            nxt = []
            for r in cur:
                if r.kind == "exc":
                    nxt.append(r)
                    continue
                got = self.attr_of_value(interp, r.value, attr, r.state, fr)
                nxt.extend(got if got is not None else [val(TOP, r.state)])
            cur = nxt
        return cur

    def apply_method(self, interp, name, pos, kw, st, fr):
        """A method of the analysed object, called through a value."""
        d = "self." + name
        if d in self.ctors:
            return self.apply(interp, ("ctorref", d), pos, kw, st, fr)
        if self.track(d) or d in self.results or d in self.raises:
            def logged(tag):
                if not self.track(d):
                    return st
                log = st.get("ev.calls", ())
                return st.set("ev.calls", log + ((d, tuple(pos), tuple(kw), tag),)) if len(log) < self.log_cap else st.set("ev.calls.overflow", 1)
            return [val(v, logged("ok")) for v in self.results.get(d, [TOP])] + [exc(e, logged(e[1] if isinstance(e, tuple) and len(e) > 1 else "raised")) for e in self.raises.get(d, [])]
        root = getattr(self, "root_class", None) or (fr.receiver if fr.instance is None else None)
        if root is None:
            return [val(TOP, st)]
        f = self._method(root, name)
        if f is None:
            # not a def: whatever the classes bind to the name (a method made in a class body, by a loop, by a decorator ...)
            found = self._root_value_attr(interp, name, st, fr)
            if found and all(r.kind == "exc" or (isinstance(r.value, tuple) and r.value[:1] and r.value[0] in CALLABLE_TAGS and r.value[:2] != ("method", name)) for r in found):
                out = []
                for r in found:
                    out.extend([r] if r.kind == "exc" else self.apply(interp, r.value, pos, kw, r.state, fr))
                return out
            if self.strict_calls:
                raise Undecided(f"the analysed object's `{name}` is called, and the analysis could not determine what it is")
            return [val(TOP, st)]
        got = self._call_decorated_method(interp, f, ("self",), pos, kw, st, fr)
        if got is not None:
            return got
        static = "staticmethod" in self._decorators(f)
        argvals = self._bind(f, pos, kw, not static)
        if argvals is None:
            return [exc(("exc", "TypeError"), st)]
        return self.run_function(interp, f, argvals, st, fr, receiver=root, is_method=not static)

    def call_bound_values(self, bound, pos, kw, st):
        obj = bound[1]
        name = f"<{obj[1]}>.{bound[2]}" if isinstance(obj, tuple) else f"{obj}.{bound[2]}"
        if (bound[1], bound[2]) in self.lacks:
            return [exc(("exc", "AttributeError"), st)]
        pos = [unbox_deep(v, st) for v in pos]   # what the outside world is handed (and the log records): the objects as they are now
        kw = [(k, unbox_deep(v, st)) for k, v in kw]
        if isinstance(obj, tuple):
            pos = [obj] + pos
        log = st.get("ev.calls", ())

        def logged(tag):
            if len(log) >= self.log_cap:
                return st.set("ev.calls.overflow", 1)
            return st.set("ev.calls", log + ((name, tuple(pos), tuple(kw), tag),))

        if self.oracle is None:
            outcomes = None
        elif getattr(self, "oracle_state", False):
            outcomes = self.oracle(name, tuple(pos), tuple(kw), st)
        else:
            outcomes = self.oracle(name, tuple(pos), tuple(kw))
        if outcomes is None:
            outcomes = [("val", v) for v in self.results.get(name, self.results.get("*." + bound[2], [("ret", name if isinstance(obj, tuple) else obj, bound[2])]))]
            outcomes += [("exc", e) for e in self.raises.get(name, self.raises.get("*." + bound[2], []))]
        out = []
        for oc in outcomes:
            kind, v = oc[0], oc[1]
            tag = oc[2] if len(oc) > 2 else None
            if kind == "val":
                out.append(val(v, logged(tag or "ok")))
            else:
                out.append(exc(v, logged(tag or (v[1] if isinstance(v, tuple) and len(v) > 1 else "raised"))))
        return out

    # -- argument evaluation for calls made through values ----------------------------------------
    @staticmethod
    def _call_args(interp, call, st, fr):
        """Evaluate the arguments of ``call`` -> list of (Result-or-None, pos, kw, state)."""
        exprs = [a.value if isinstance(a, ast.Starred) else a for a in call.args] + [k.value for k in call.keywords]
        out = []
        share = [not isinstance(a, ast.Starred) for a in call.args] + [k.arg is not None for k in call.keywords]
        for r in interp.eval_list(exprs, st, fr, share=share):
            if r.kind == "exc":
                out.append((r, None, None, None))
                continue
            pos = []
            ok = True
            for a, v in zip(call.args, r.value[: len(call.args)]):
                if isinstance(a, ast.Starred):
                    els = interp._exact_elements(unbox(v, r.state))
                    if els is None:
                        if os.environ.get("TTSA_TRACE_ARGS"):
                            print("UNKNOWN *", str(v)[:200])
                        ok = False
                        break
                    pos.extend(els)
                else:
                    pos.append(v)
            kw = []
            for k, v in zip(call.keywords, r.value[len(call.args):]):
                if k.arg is None:
                    v = unbox(v, r.state)   # (a dict some object holds: what it holds now)
                    if isinstance(v, tuple) and v[:1] == ("kwdict",):
                        kw.extend(v[1])
                    else:
                        if os.environ.get("TTSA_TRACE_ARGS"):
                            print("UNKNOWN **", str(v)[:200])
                        ok = False
                else:
                    kw.append((k.arg, v))
            out.append((None, pos if ok else None, kw, r.state))
        return out

    def call(self, interp, call, st, fr):
        d = dotted(call.func) or ""
        f_ = call.func
        handled_elsewhere = self.track(d) or d in self.results or d in self.raises or d in self.ctors
        # getattr(<instance>, "name", default) / hasattr(<instance>, "name"): decided by the instance's class and state
        if d in ("getattr", "hasattr") and not call.keywords and len(call.args) == (3 if d == "getattr" else 2):
            got = interp.eval_list(list(call.args), st, fr)
            if got and all(r.kind == "exc" or ((is_inst(r.value[0]) or r.value[0] == ("self",)) and isinstance(r.value[1], tuple) and r.value[1][:1] == ("const",) and isinstance(r.value[1][1], str)) for r in got):
                out = []
                for r in got:
                    if r.kind == "exc":
                        out.append(r)
                        continue
                    inst, name = r.value[0], r.value[1][1]
                    if inst == ("self",):
                        root = getattr(self, "root_class", None)
                        known = r.state.has("self." + name) or ("self." + name) in self.attrs or (root is not None and (self._method(root, name) is not None or self._class_attr_expr(root, name) is not None))
                        found = self._root_value_attr(interp, name, r.state, fr) if known else None
                    else:
                        found = self._inst_attr(interp, inst, name, r.state, fr)
                    for f_r in (found if found is not None else [None]):
                        # (a lookup that ends in AttributeError -- from __getattr__, or because nothing defines the name -- is "not there")
                        missing = f_r is None or (f_r.kind == "exc" and f_r.value[:2] == ("exc", "AttributeError"))
                        s_r = r.state if f_r is None else f_r.state
                        if d == "hasattr":
                            out.append(val(FALSE if missing else TRUE, s_r) if missing or f_r.kind == "val" else f_r)
                        elif missing:
                            out.append(val(r.value[2], s_r))
                        else:
                            out.append(f_r)
                return out
        # setattr(x, "name", v) / getattr(x, "name") with a constant name are the attribute store / load
        if d in ("setattr", "getattr") and not call.keywords and len(call.args) == (3 if d == "setattr" else 2) \
                and isinstance(call.args[0], (ast.Name, ast.Attribute)) and attr_chain(call.args[0]):
            out = []
            decided = d == "setattr" or attr_chain(call.args[0])[0] == fr.selfname or any(
                r0.kind == "val" and is_inst(r0.value) for r0 in interp.eval(call.args[0], st, fr))
            for r in (interp.eval_list(list(call.args[1:]), st, fr) if decided else ()):
                if r.kind == "exc":
                    out.append(r)
                    continue
                name = r.value[0]
                if not (isinstance(name, tuple) and name[:1] == ("const",) and isinstance(name[1], str) and name[1].isidentifier()):
                    decided = False
                    break
                node = ast.copy_location(ast.Attribute(value=call.args[0], attr=name[1], ctx=ast.Store() if d == "setattr" else ast.Load()), call)
                if d == "setattr":
                    out.append(val(NONE, interp.assign(node, r.value[1], r.state, fr)))
                else:
                    out.extend(interp.eval(node, r.state, fr))
            if decided:
                return out
        if d == "getattr" and len(call.args) == 2 and not call.keywords and not st.has(fr.local("getattr")) and not any(isinstance(a, ast.Starred) for a in call.args):
            # getattr(<whatever the expression evaluates to>, <a name that evaluates to a constant>): the attribute of that value
            if isinstance(call.args[0], ast.Name) and st.has(fr.local(call.args[0].id)):
                held = st.get(fr.local(call.args[0].id))
                where = heap_key(held) if is_handle(held) else fr.local(call.args[0].id)
                content = st.get(where, None)
                names_ = [r for r in interp.eval(call.args[1], st, fr)]
                if isinstance(content, tuple) and content[:1] == ("set",) and len(names_) == 1 and names_[0].kind == "val" and isinstance(names_[0].value, tuple) \
                        and names_[0].value[:1] == ("const",) and names_[0].value[1] in self.SET_METHODS:
                    return [val(("setmethod", where, names_[0].value[1]), names_[0].state)]   # getattr(<a set>, "update"): the method bound to that very set
            out, ok = [], True
            for r in interp.eval_list(list(call.args), st, fr):
                if r.kind == "exc":
                    out.append(r)
                    continue
                got = self._attr_builtin(interp, "getattr", list(r.value), r.state, fr)
                if got is None:
                    ok = False
                    break
                out.extend(got)
            if ok and out:
                return out
        if d == "property" and 1 <= len(call.args) + len(call.keywords) <= 2 and all(k.arg in ("fget", "fset") for k in call.keywords) and not st.has(fr.local("property")):
            # property(getter[, setter]) as an object: a class attribute holding it is looked up / assigned through these functions
            out = []
            for r in interp.eval_list(list(call.args) + [k.value for k in call.keywords], st, fr):
                if r.kind == "exc":
                    out.append(r)
                    continue
                given = dict(zip(("fget", "fset"), r.value[: len(call.args)]))
                given.update({k.arg: v for k, v in zip(call.keywords, r.value[len(call.args):])})
                out.append(val(("property", given.get("fget", NONE), given.get("fset", NONE)), r.state))
            return out
        if isinstance(f_, ast.Attribute) and f_.attr == "with_traceback" and len(call.args) == 1 and not call.keywords:
            recv = interp.eval(f_.value, st, fr)
            if recv and all(r.kind == "exc" or (isinstance(r.value, tuple) and r.value[:1] == ("exc",)) for r in recv):
                out = []
                for r0 in recv:
                    if r0.kind == "exc":
                        out.append(r0)
                        continue
                    for r in interp.eval(call.args[0], r0.state, fr):
                        out.append(r if r.kind == "exc" else val(r0.value, r.state))   # e.with_traceback(tb) is e
                return out
        if d == "delattr" and len(call.args) == 2 and not call.keywords:
            out = []
            decided = True
            for r in interp.eval_list(list(call.args), st, fr):
                if r.kind == "exc":
                    out.append(r)
                    continue
                got = self._delattr_value(r.value[0], r.value[1], r.state)
                if got is None:
                    decided = False
                    break
                out.extend(got)
            if decided:
                return out
        # codecs incremental decoders, folded on constant bytes: the standard library's own decoding of what was fed so far
        if d == "codecs.getincrementaldecoder" and len(call.args) == 1 and not call.keywords and not (self.track(d) or d in self.results):
            return [r if r.kind == "exc" else val(("decoderfactory", r.value), r.state) for r in interp.eval(call.args[0], st, fr)]
        if isinstance(f_, ast.Attribute) and f_.attr == "decode" and isinstance(f_.value, (ast.Name, ast.Attribute)) and 1 <= len(call.args) + len(call.keywords) <= 2:
            recv = interp.eval(f_.value, st, fr)
            if recv and all(r.kind == "exc" or (isinstance(r.value, tuple) and r.value[:1] == ("decoder",)) for r in recv):
                out = []
                for r0 in recv:
                    if r0.kind == "exc":
                        out.append(r0)
                        continue
                    for r in interp.eval_list(list(call.args) + [k.value for k in call.keywords], r0.state, fr):
                        if r.kind == "exc":
                            out.append(r)
                            continue
                        args_ = dict(zip(("input", "final"), r.value[: len(call.args)]))
                        args_.update({k.arg: v for k, v in zip(call.keywords, r.value[len(call.args):])})
                        out.extend(self._decode(r0.value, args_.get("input"), args_.get("final", FALSE), r.state))
                return out
        if d in ("repr", "str") and len(call.args) == 1 and not call.keywords:
            got = interp.eval(call.args[0], st, fr)
            if got and all(r.kind == "exc" or (self._py(r.value)[0] and isinstance(self._py(r.value)[1], (int, float, str, bytes, bool, type(None))) and not isinstance(self._py(r.value)[1], tuple)) for r in got):
                return [r if r.kind == "exc" else val(("const", (repr if d == "repr" else str)(self._py(r.value)[1])), r.state) for r in got]
            if got and all(r.kind == "exc" or is_inst(r.value) for r in got):
                out = []
                for r in got:
                    if r.kind == "exc":
                        out.append(r)
                        continue
                    name = "__repr__" if d == "repr" or not self._has_method(r.value[2], "__str__") else "__str__"
                    res = self.call_method(interp, r.value, name, [], [], r.state, fr) if self._has_method(r.value[2], name) else None
                    out.extend(res if res is not None else [val(("ret", d, r.value), r.state)])
                return out
        if d == "vars" and len(call.args) == 1 and not call.keywords and isinstance(call.args[0], (ast.Name, ast.Attribute)):
            return interp.eval(ast.copy_location(ast.Attribute(value=call.args[0], attr="__dict__", ctx=ast.Load()), call), st, fr)   # vars(x) is x.__dict__
        if d == "type" and len(call.args) == 1 and not call.keywords:
            got = interp.eval(call.args[0], st, fr)
            if got and all(r.kind == "exc" or is_inst(r.value) for r in got):
                return [r if r.kind == "exc" else val(("classref", r.value[2]), r.state) for r in got]
            if got and all(r.kind == "exc" or self._py(r.value)[0] for r in got):
                return [r if r.kind == "exc" else val(("pytype", type(self._py(r.value)[1]).__name__), r.state) for r in got]
        if isinstance(f_, ast.Name) and not st.has(fr.local(f_.id)) and f_.id in self._module_namedtuples(fr) and not any(isinstance(a, ast.Starred) for a in call.args) \
                and all(k.arg is not None for k in call.keywords):
            # a module-level namedtuple: its instances are tuples whose positions have names
            fields = self._module_namedtuples(fr)[f_.id]
            out = []
            for r in interp.eval_list(list(call.args) + [k.value for k in call.keywords], st, fr):
                if r.kind == "exc":
                    out.append(r)
                    continue
                given = dict(zip(fields, r.value[: len(call.args)]))
                given.update({k.arg: v for k, v in zip(call.keywords, r.value[len(call.args):])})
                if set(given) != set(fields) or len(call.args) > len(fields):
                    out.append(exc(("exc", "TypeError"), r.state))
                else:
                    out.append(val(("tuple",) + tuple(given[f] for f in fields), r.state))
            return out
        if d in ("nullcontext", "contextlib.nullcontext") and len(call.args) <= 1 and not call.keywords:
            return [r if r.kind == "exc" else val(("nullcontext", r.value[0] if r.value else NONE), r.state) for r in interp.eval_list(list(call.args), st, fr)]
        # functools.partial / operator helpers as values
        if d in ("partial", "functools.partial") and call.args and (any(isinstance(a, ast.Starred) for a in call.args) or any(k.arg is None for k in call.keywords)):
            # partial(f, *args, **kwargs): exact sequences / dicts spread out
            out = []
            for bad, pos, kw, s2 in self._call_args(interp, call, st, fr):
                if bad is not None:
                    out.append(bad)
                elif pos is None or not pos:
                    out.append(val(TOP, s2))
                else:
                    out.append(val(("partial", pos[0], tuple(pos[1:]), tuple(kw)), s2))
            return out
        if d in ("partial", "functools.partial") and call.args and not any(isinstance(a, ast.Starred) for a in call.args) and all(k.arg is not None for k in call.keywords):
            out = []
            # the arguments frozen into the partial are the caller's objects themselves (a list it goes on filling, ...)
            for r in interp.eval_list(list(call.args) + [k.value for k in call.keywords], st, fr, share=[False] + [True] * (len(call.args) - 1 + len(call.keywords))):
                if r.kind == "exc":
                    out.append(r)
                    continue

                def ref_or_value(expr, v, r=r):
                    key = interp._key_of(expr, fr, r.state) if isinstance(expr, (ast.Name, ast.Attribute)) else None
                    if key is not None and r.state.has(key) and isinstance(v, tuple) and v[:1] in (("tuple",), ("kwdict",)):
                        return ("ref", key)
                    return v
                pos = tuple(ref_or_value(a, v) for a, v in zip(call.args[1:], r.value[1: len(call.args)]))
                kw = tuple((k.arg, ref_or_value(k.value, v)) for k, v in zip(call.keywords, r.value[len(call.args):]))
                out.append(val(("partial", r.value[0], pos, kw), r.state))
            return out
        if d.split(".")[-1] == "attrgetter" and d.split(".")[0] in ("operator", "attrgetter") and not call.keywords and (len(call.args) > 1 or any(isinstance(a, ast.Starred) for a in call.args)):
            # attrgetter(a, b, ...): a tuple of the attributes
            out = []
            for bad, pos, kw, s2 in self._call_args(interp, call, st, fr):
                if bad is not None:
                    out.append(bad)
                elif pos is None or not all(isinstance(v, tuple) and v[:1] == ("const",) and isinstance(v[1], str) for v in pos):
                    out.append(val(TOP, s2))
                else:
                    out.append(val(("attrgetter", tuple(v[1] for v in pos)), s2))
            return out
        if d == "zip" and call.args and not call.keywords and any(isinstance(a, ast.Starred) for a in call.args):
            out = []
            for bad, pos, kw, s2 in self._call_args(interp, call, st, fr):
                if bad is not None:
                    out.append(bad)
                    continue
                seqs = [interp._exact_elements(unbox_deep(v, s2)) for v in pos] if pos is not None else [None]
                out.append(val(TOP if any(x is None for x in seqs) else ("tuple",) + tuple(("tuple",) + tuple(t) for t in zip(*seqs)), s2))
            return out
        if d == "zip" and call.args and not call.keywords and not any(isinstance(a, ast.Starred) for a in call.args):
            out = []
            settled = []
            for r in interp.eval_list(list(call.args), st, fr):
                if r.kind == "exc":
                    settled.append(r)
                    continue
                # (iterators handed to zip are consumed here, at once -- for finite ones consumed by a loop that is the same thing; endless ones stay)
                cur = [((), r.state)]
                for v in r.value:
                    nxt = []
                    for acc, s_ in cur:
                        got = None if isinstance(v, tuple) and v[:1] in (("repeat",), ("itercount",), ("calliter",)) else self.force_sequence(interp, v, s_, fr)
                        if got is None:
                            nxt.append((acc + (v,), s_))
                            continue
                        for g in got:
                            if g.kind == "exc":
                                settled.append(g)
                            else:
                                nxt.append((acc + (g.value,), g.state))
                    cur = nxt
                settled.extend(val(acc, s_) for acc, s_ in cur)
            for r in settled:
                if r.kind == "exc":
                    out.append(r)
                    continue
                seqs = [interp._exact_elements(v) for v in r.value]
                finite = [len(x) for x in seqs if x is not None]
                if finite:
                    # zip stops at its shortest argument: an endless repeat(x) gives as many x as that
                    seqs = [x if x is not None else ([v[1]] * min(finite) if isinstance(v, tuple) and v[:1] == ("repeat",) and len(v) == 2 else None) for x, v in zip(seqs, r.value)]
                if any(x is None for x in seqs):
                    out.append(val(TOP, r.state))
                else:
                    out.append(val(("tuple",) + tuple(("tuple",) + tuple(t) for t in zip(*seqs)), r.state))
            return out
        if d.split(".")[-1] in ("attrgetter", "itemgetter") and d.split(".")[0] in ("operator", "attrgetter", "itemgetter") and len(call.args) == 1 and not call.keywords:
            out = []
            for r in interp.eval(call.args[0], st, fr):
                if r.kind == "exc":
                    out.append(r)
                elif d.endswith("attrgetter") and isinstance(r.value, tuple) and r.value[:1] == ("const",) and isinstance(r.value[1], str):
                    out.append(val(("attrgetter", r.value[1]), r.state))
                elif d.endswith("itemgetter"):
                    out.append(val(("itemgetter", r.value), r.state))
                else:
                    out.append(val(TOP, r.state))
            return out
        if d in ("partialmethod", "functools.partialmethod") and call.args and not any(isinstance(a, ast.Starred) for a in call.args) and all(k.arg is not None for k in call.keywords) \
                and not st.has(fr.local("partialmethod")):
            out = []
            for r in interp.eval_list(list(call.args) + [k.value for k in call.keywords], st, fr):
                if r.kind == "exc":
                    out.append(r)
                    continue
                n_ = len(call.args)
                out.append(val(("partialmethod", r.value[0], tuple(r.value[1:n_]), tuple((k.arg, v) for k, v in zip(call.keywords, r.value[n_:]))), r.state))
            return out
        if d == "staticmethod" and len(call.args) == 1 and not call.keywords:
            # staticmethod(f): looked up on the class or an instance it is f itself, never bound to the instance
            return [r if r.kind == "exc" or not (isinstance(r.value, tuple) and r.value[:1] == ("func",)) else val(("partial", r.value, (), ()), r.state) for r in interp.eval(call.args[0], st, fr)]
        if d == "object" and not call.args and not call.keywords and not st.has(fr.local("object")):
            n = st.get("ev.inst", 0)
            return [val(("sym", f"<object #{n}>"), st.set("ev.inst", n + 1))]   # a fresh object: equal and identical to itself only
        if d == "super" and len(call.args) == 2 and not call.keywords and isinstance(call.args[0], ast.Name):
            # super(Class, obj): lookups continue after Class in the MRO of obj
            owner = self._class_of_expr(call.args[0], fr)
            got = interp.eval(call.args[1], st, fr)
            if owner is not None and got and all(r.kind == "exc" or is_inst(r.value) or r.value == ("self",) for r in got):
                return [r if r.kind == "exc" else val(("super", owner, r.value if is_inst(r.value) else None), r.state) for r in got]
        if d == "super" and not call.args and not call.keywords and getattr(fr.func, "_class", None) is not None and hasattr(fr.func, "_module"):
            owner = self.classes.get(fr.func._module.name, fr.func._class.name)
            if owner is not None:
                return [val(("super", owner, fr.instance), st)]   # super() as a value: attribute lookups continue after the current class
        if d == "iter" and len(call.args) == 1 and not call.keywords:
            # iter(<exact sequence>): an iterator object with its own position; next() advances it for every holder
            got = interp.eval(call.args[0], st, fr)
            ITERATORS = (("seqiter",), ("itercount",), ("genobj",), ("lazycomp",), ("calliter",), ("repeat",), ("iterobj",))
            if not all(r.kind == "exc" or (isinstance(r.value, tuple) and r.value[:1] in ITERATORS) for r in got):
                got = interp._forced(got, fr)
            if got and all(r.kind == "exc" or interp._exact_elements(r.value) is not None or (isinstance(r.value, tuple) and r.value[:1] in ITERATORS) for r in got):
                out = []
                for r in got:
                    if r.kind == "exc" or (isinstance(r.value, tuple) and r.value[:1] in ITERATORS):
                        out.append(r)   # (an iterator is its own iterator)
                        continue
                    n = r.state.get("ev.iters", 0)
                    out.append(val(("seqiter", n), r.state.set("ev.iters", n + 1).set(f"it.{n}", ("tuple",) + tuple(interp._exact_elements(r.value)))))
                return out
        if d in ("itertools.count", "count") and len(call.args) <= 1 and not call.keywords and not st.has(fr.local("count")):
            out = []
            for r in interp.eval_list(list(call.args), st, fr):
                start = r.value[0] if r.kind == "val" and r.value else ("const", 0)
                if r.kind == "exc" or not (isinstance(start, tuple) and start[:1] == ("const",) and isinstance(start[1], int)):
                    out.append(r if r.kind == "exc" else val(TOP, r.state))
                    continue
                n = r.state.get("ev.iters", 0)
                out.append(val(("itercount", n), r.state.set("ev.iters", n + 1).set(f"it.{n}", start)))
            return out
        if d == "next" and 1 <= len(call.args) <= 2 and not call.keywords:
            got = interp.eval(call.args[0], st, fr)
            if got and all(r.kind == "exc" or (isinstance(r.value, tuple) and r.value[:1] in (("seqiter",), ("itercount",), ("genobj",), ("lazycomp",), ("iterobj",))) for r in got):
                out = []
                for r in got:
                    if r.kind == "exc":
                        out.append(r)
                        continue
                    for kind_, el, rest, s1 in self._pull(interp, r.value, r.state, fr):
                        if kind_ == "item":
                            out.append(val(el, s1))
                        elif kind_ == "exc":
                            out.append(exc(el, s1))
                        elif kind_ == "end" and len(call.args) == 2:
                            out.extend(interp.eval(call.args[1], s1, fr))
                        elif kind_ == "end":
                            out.append(exc(("exc", "StopIteration"), s1))
                        else:
                            out.append(val(TOP, s1))
                return out
        if d is not None and "." not in d and "operator." + d in self.OPERATOR_EXPR and not st.has(fr.local(d)) and self._imports_name(fr, d) and len(call.args) == self.OPERATOR_EXPR["operator." + d][0] \
                and not call.keywords and not any(isinstance(a, ast.Starred) for a in call.args):
            out = []
            for r in interp.eval_list(list(call.args), st, fr, share=[True] * len(call.args)):
                out.extend([r] if r.kind == "exc" else self.call_by_name(interp, "operator." + d, list(r.value), [], r.state, fr))
            return out
        if d in self.OPERATOR_EXPR and len(call.args) == self.OPERATOR_EXPR[d][0] and not call.keywords and not any(isinstance(a, ast.Starred) for a in call.args) and not st.has(fr.local("operator")):
            out = []
            for r in interp.eval_list(list(call.args), st, fr, share=[True] * len(call.args)):
                out.extend([r] if r.kind == "exc" else self.call_by_name(interp, d, list(r.value), [], r.state, fr))
            return out
        if d == "map" and len(call.args) >= 3 and not call.keywords and not any(isinstance(a, ast.Starred) for a in call.args) and not st.has(fr.local("map")) and self.lazy_generators:
            # map(f, a, b, ...): f applied to the elements of a, b, ... in step, as the result is consumed
            return [r if r.kind == "exc" else self._iterator_object(("zipmap", r.value[0], tuple(r.value[1:])), r.state) for r in interp.eval_list(list(call.args), st, fr, share=[True] * len(call.args))]
        if d == "dict" and len(call.args) == 1 and not call.keywords and not isinstance(call.args[0], ast.Starred) and not st.has(fr.local("dict")) and getattr(self, "exact_dicts", False):
            # dict(<pairs produced one by one>): the pairs are pulled to the end, later keys replacing earlier ones
            got = interp.eval(call.args[0], st, fr)
            if got and all(r.kind == "exc" or self.pullable(r.value) or (isinstance(r.value, tuple) and r.value[:1] == ("lazymap",)) for r in got):
                out = []
                for r in interp._forced(got, fr):
                    if r.kind == "exc":
                        out.append(r)
                        continue
                    els = interp._exact_elements(r.value)
                    items, ok_ = [], els is not None
                    for el in els or []:
                        el = unbox(el, r.state)
                        pair = interp._exact_elements(el)
                        k_ok, key_ = self._dkey(pair[0]) if pair is not None and len(pair) == 2 else (False, None)
                        if not k_ok:
                            ok_ = False
                            break
                        items = [(k2, v2) for k2, v2 in items if k2 != key_] + [(key_, pair[1])]
                    out.append(val(("kwdict", tuple(items)) if ok_ else TOP, r.state))
                return out
        if d in ("itertools.starmap", "starmap") and len(call.args) == 2 and not call.keywords and not any(isinstance(a, ast.Starred) for a in call.args) and self.lazy_generators \
                and not st.has(fr.local("starmap")):
            # starmap(f, rows): f(*row) for each row, as the result is consumed
            return [r if r.kind == "exc" else self._iterator_object(("starmap", r.value[0], r.value[1]), r.state) for r in interp.eval_list(list(call.args), st, fr, share=[True, True])]
        if d in ("itertools.accumulate", "accumulate") and len(call.args) in (1, 2) and all(k.arg == "initial" for k in call.keywords) and not any(isinstance(a, ast.Starred) for a in call.args) \
                and self.lazy_generators and not st.has(fr.local("accumulate")):
            out = []
            for r in interp.eval_list(list(call.args) + [k.value for k in call.keywords], st, fr, share=[True] * (len(call.args) + len(call.keywords))):
                if r.kind == "exc":
                    out.append(r)
                    continue
                fn = r.value[1] if len(call.args) == 2 else ("builtin", "operator.add")
                start = ("initial", r.value[len(call.args)]) if call.keywords and r.value[len(call.args)] != NONE else ("first",)
                out.append(self._iterator_object(("accum", fn, r.value[0], start), r.state))
            return out
        if d in ("itertools.islice", "islice") and len(call.args) in (2, 3) and not call.keywords and not any(isinstance(a, ast.Starred) for a in call.args) and self.lazy_generators \
                and not st.has(fr.local("islice")):
            out = []
            for r in interp.eval_list(list(call.args), st, fr, share=[True] * len(call.args)):
                if r.kind == "exc":
                    out.append(r)
                    continue
                bounds = []
                for b in r.value[1:]:
                    ok_, p_ = self._py(b)
                    bounds.append(p_ if ok_ and (p_ is None or (isinstance(p_, int) and not isinstance(p_, bool) and p_ >= 0)) else "?")
                if "?" in bounds:
                    raise Undecided(f"itertools.islice with bounds the analysis could not determine, in {fr.name}")
                skip, stop = (0, bounds[0]) if len(bounds) == 1 else (bounds[0] or 0, bounds[1])
                out.append(self._iterator_object(("islice", r.value[0], skip, None if stop is None else max(stop - skip, 0)), r.state))
            return out
        if d in ("functools.reduce", "reduce") and len(call.args) in (2, 3) and not call.keywords and not any(isinstance(a, ast.Starred) for a in call.args) and not st.has(fr.local("reduce")):
            # reduce(f, seq[, initial]): f applied left to right, as written in functools
            out = []
            for r in interp._forced_list(interp.eval_list(list(call.args), st, fr, share=[True] * len(call.args)), fr):
                if r.kind == "exc":
                    out.append(r)
                    continue
                fnv, seq = r.value[0], unbox(r.value[1], r.state)
                els = interp._exact_elements(seq)
                if els is None:
                    raise Undecided(f"functools.reduce over a sequence the analysis could not enumerate, in {fr.name}")
                if len(call.args) == 3:
                    cur = [val(r.value[2], r.state)]
                elif els:
                    cur, els = [val(els[0], r.state)], els[1:]
                else:
                    out.append(exc(("exc", "TypeError"), r.state))
                    continue
                for el in els:
                    nxt = []
                    for c in cur:
                        if c.kind == "exc":
                            out.append(c)
                        else:
                            nxt.extend(self.apply(interp, fnv, [c.value, el], [], c.state, fr))
                    cur = nxt
                out.extend(cur)
            return out
        if d == "iter" and len(call.args) == 2 and not call.keywords:
            return [r if r.kind == "exc" else val(("calliter", r.value[0], r.value[1]), r.state) for r in interp.eval_list(list(call.args), st, fr)]
        if d in ("itertools.repeat", "repeat") and len(call.args) == 1 and not call.keywords:
            return [r if r.kind == "exc" else val(("repeat", r.value), r.state) for r in interp.eval(call.args[0], st, fr)]   # the same object, for ever
        short = d.split(".")[-1]
        if d in ("itertools.compress", "compress", "itertools.chain", "chain", "itertools.chain.from_iterable", "chain.from_iterable", "itertools.filterfalse", "filterfalse", "filter",
                 "itertools.dropwhile", "dropwhile", "itertools.takewhile", "takewhile") and call.args and not call.keywords and not any(isinstance(a, ast.Starred) for a in call.args):
            out = []
            for r in interp.eval_list(list(call.args), st, fr):
                if r.kind == "exc":
                    out.append(r)
                    continue
                out.extend(self._itertool(interp, short if short != "from_iterable" else "chain.from_iterable", list(r.value), r.state, fr))
            return out
        if d in ("deque", "collections.deque") and call.args:
            # deque(iterable, maxlen=0): consumes the iterable (for its effects)
            out = []
            for r in interp._forced(interp.eval(call.args[0], st, fr), fr):
                out.append(r if r.kind == "exc" else val(TOP, r.state))
            return out
        if d in ("ExitStack", "contextlib.ExitStack") and not call.args and not call.keywords:
            n = st.get("ev.inst", 0)
            return [val(("exitstack", n), st.set("ev.inst", n + 1).set(f"xs.{n}", ()))]
        if d in ("callable",) and len(call.args) == 1:
            out = []
            for r in interp.eval(call.args[0], st, fr):
                if r.kind == "exc":
                    out.append(r)
                else:
                    v = r.value
                    yes = (isinstance(v, tuple) and v[:1] and v[0] in CALLABLE_TAGS) or (is_inst(v) and self._has_method(v[2], "__call__"))
                    out.append(val(TRUE if yes else (FALSE if v == NONE or (isinstance(v, tuple) and v[:1] == ("const",)) else ("bool",)), r.state))
            return out
        if not handled_elsewhere:
            # methods of instances / exit stacks, reached through a local, `self` or an attribute chain without calls
            if isinstance(f_, ast.Attribute) and not any(isinstance(n_, ast.Call) for n_ in ast.walk(f_.value)):
                recv = interp.eval(f_.value, st, fr)
                if recv and all(r.kind == "val" and r.value == ("self",) for r in recv) and not (isinstance(f_.value, ast.Name) and f_.value.id == fr.selfname and fr.instance is None):
                    # a method of the analysed object called through an alias (a helper object that was handed `self`)
                    out = []
                    for r in recv:
                        dd = "self." + f_.attr
                        if not r.state.has(dd) and (self._is_method_value(dd) or self.track(dd) or dd in self.results or dd in self.raises or (
                                getattr(self, "root_class", None) is not None and self._method(self.root_class, f_.attr) is not None)):
                            for bad, pos, kw, s2 in self._call_args(interp, call, r.state, fr):
                                if bad is not None:
                                    out.append(bad)
                                elif pos is None:
                                    out.append(self._unknown_arguments(call, s2, fr))
                                else:
                                    out.extend(self.apply(interp, ("method", f_.attr), pos, kw, s2, fr))
                        else:
                            for g in self._root_value_attr(interp, f_.attr, r.state, fr):
                                for bad, pos, kw, s2 in self._call_args(interp, call, g.state, fr):
                                    out.extend([bad] if bad is not None else ([val(TOP, s2)] if pos is None else self.apply(interp, g.value, pos, kw, s2, fr)))
                    return out
                if recv and all(r.kind == "val" and (is_inst(r.value) or is_exitstack(r.value)) for r in recv):
                    out = []
                    for r in recv:
                        for bad, pos, kw, s2 in self._call_args(interp, call, r.state, fr):
                            if bad is not None:
                                out.append(bad)
                            elif pos is None:
                                out.append(self._unknown_arguments(call, s2, fr))
                            elif is_exitstack(r.value):
                                out.extend(self._exitstack_method(interp, r.value, f_.attr, pos, kw, s2, fr))
                            else:
                                got = self._inst_attr(interp, r.value, f_.attr, s2, fr)
                                if got is None:
                                    out.append(val(TOP, s2))
                                    continue
                                for g in got:
                                    out.extend([g] if g.kind == "exc" else self.apply(interp, g.value, pos, kw, g.state, fr))
                    return out
            # Class.method(...): classmethod / staticmethod / unbound method of a class of the repository
            if isinstance(f_, ast.Attribute) and isinstance(f_.value, (ast.Name, ast.Attribute)):
                owner_v = None
                if isinstance(f_.value, ast.Name) and st.has(fr.local(f_.value.id)):
                    v_ = st.get(fr.local(f_.value.id))
                    owner_v = v_[1] if isinstance(v_, tuple) and v_[:1] == ("classref",) else None
                elif not (isinstance(f_.value, ast.Name) and f_.value.id in (fr.selfname,)):
                    owner_v = self._class_of_expr(f_.value, fr)
                mf = self._method(owner_v, f_.attr) if owner_v is not None else None
                if mf is not None:
                    decos = self._decorators(mf)
                    out = []
                    for bad, pos, kw, s2 in self._call_args(interp, call, st, fr):
                        if bad is not None:
                            out.append(bad)
                        elif pos is None:
                            out.append(self._unknown_arguments(call, s2, fr))
                        elif "classmethod" in decos:
                            argvals = self._bind(mf, pos, kw, True)
                            if argvals is None:
                                out.append(exc(("exc", "TypeError"), s2))
                            else:
                                argvals[mf.args.args[0].arg] = ("classref", owner_v)
                                out.extend(interp.inline(mf, argvals, s2, fr, receiver=owner_v, is_method=False))
                        elif "staticmethod" in decos:
                            argvals = self._bind(mf, pos, kw, False)
                            out.extend([exc(("exc", "TypeError"), s2)] if argvals is None else interp.inline(mf, argvals, s2, fr, receiver=owner_v, is_method=False))
                        elif pos and (is_inst(pos[0]) or pos[0] == ("self",)):
                            # Class.method(obj, ...): that class's own method (no virtual dispatch) runs on obj
                            argvals = self._bind(mf, pos[1:], kw, True)
                            if argvals is None:
                                out.append(exc(("exc", "TypeError"), s2))
                            elif is_inst(pos[0]):
                                out.extend(self.run_function(interp, mf, argvals, s2, fr, receiver=pos[0][2], self_value=pos[0]))
                            else:
                                root = getattr(self, "root_class", None) or fr.receiver
                                out.extend(self.run_function(interp, mf, argvals, s2, fr, receiver=root))
                        elif pos and isinstance(pos[0], tuple) and pos[0][:1] in (("wobj",), ("new",)):
                            # Class.method(something that merely quacks like an instance): the method body runs with that object as self
                            argvals = self._bind(mf, pos, kw, False)
                            out.extend([exc(("exc", "TypeError"), s2)] if argvals is None else interp.inline(mf, argvals, s2, fr, receiver=None, is_method=False))
                        else:
                            out.append(val(TOP, s2))
                    return out
            # a class of the repository: a new instance
            ci = self._class_of_expr(f_, fr) if isinstance(f_, (ast.Name, ast.Attribute)) and not (isinstance(f_, ast.Name) and st.has(fr.local(f_.id))) else None
            if ci is not None:
                out = []
                for bad, pos, kw, s2 in self._call_args(interp, call, st, fr):
                    if bad is not None:
                        out.append(bad)
                    elif pos is None:
                        out.append(self._unknown_arguments(call, s2, fr))
                    else:
                        out.extend(self.instantiate(interp, ci, pos, kw, s2, fr))
                return out
            # a local (or attribute of an instance) holding a callable value
            fnv = None
            if isinstance(f_, ast.Name) and st.has(fr.local(f_.id)):
                fnv = st.get(fr.local(f_.id))
            if fnv is not None and ((isinstance(fnv, tuple) and fnv[:1] and fnv[0] in CALLABLE_TAGS + ("wobj",) and not (fnv[0] == "func" and len(fnv) == 2 and getattr(fnv[1], "_class", None) is None)) or is_inst(fnv)):
                out = []
                for bad, pos, kw, s2 in self._call_args(interp, call, st, fr):
                    if bad is not None:
                        out.append(bad)
                    elif pos is None:
                        out.append(self._unknown_arguments(call, s2, fr))
                    else:
                        out.extend(self.apply(interp, fnv, pos, kw, s2, fr))
                return out
            if fnv is None and isinstance(f_, ast.Name) and not st.has(fr.local(f_.id)) and f_.id not in self.attrs and self._lookup_function(f_.id, fr) is None \
                    and self.classes.lookup_function(getattr(fr.func, "_module", None), f_.id) is None and self._class_of_expr(f_, fr) is None:
                # NAME(...) where NAME is a module-level variable holding something callable (made by a factory, a partial ...)
                made = self._module_table(interp, f_.id, st, fr)
                if made and all(r.kind == "exc" or (isinstance(r.value, tuple) and r.value[:1] and r.value[0] in CALLABLE_TAGS) for r in made):
                    out = []
                    for m_ in made:
                        if m_.kind == "exc":
                            out.append(m_)
                            continue
                        for bad, pos, kw, s2 in self._call_args(interp, call, m_.state, fr):
                            if bad is not None:
                                out.append(bad)
                            elif pos is None:
                                out.append(self._unknown_arguments(call, s2, fr))
                            else:
                                out.extend(self.apply(interp, m_.value, pos, kw, s2, fr))
                    return out
                tree_ = getattr(getattr(fr.func, "_module", None), "tree", None)
                if self.strict_calls and tree_ is not None and f_.id not in self.results and not self.track(f_.id) and any(
                        isinstance(s_, (ast.Assign, ast.AnnAssign)) and any(isinstance(t_, ast.Name) and t_.id == f_.id for t_ in (s_.targets if isinstance(s_, ast.Assign) else [s_.target]))
                        for s_ in tree_.body):
                    raise Undecided(f"`{f_.id}(...)` in {fr.name}: a module-level variable whose value the analysis could not determine is called")
            if fnv == TOP and self.strict_calls and isinstance(f_, ast.Name):
                raise Undecided(f"`{f_.id}(...)` in {fr.name}: the analysis could not determine what the variable holds, so it cannot tell what the call does")
            # self.x(...) where the attribute x of the analysed object holds a callable value (a callback given to the constructor, ...)
            ch = attr_chain(f_)
            if fr.instance is None and ch and len(ch) == 2 and fr.selfname and ch[0] == fr.selfname and (st.has(fr.self_key + "." + ch[1]) or isinstance(self.attrs.get("self." + ch[1]), tuple)):
                held = st.get(fr.self_key + "." + ch[1]) if st.has(fr.self_key + "." + ch[1]) else self.attrs["self." + ch[1]]
                if (isinstance(held, tuple) and held[:1] and held[0] in CALLABLE_TAGS + ("wobj",)) or is_inst(held):
                    out = []
                    for bad, pos, kw, s2 in self._call_args(interp, call, st, fr):
                        if bad is not None:
                            out.append(bad)
                        elif pos is None:
                            out.append(self._unknown_arguments(call, s2, fr))
                        else:
                            out.extend(self.apply(interp, held, pos, kw, s2, fr))
                    return out
            # self.m(...) inside a method of an instance
            if fr.instance is not None and ch and len(ch) == 2 and ch[0] == fr.selfname:
                got = self._inst_attr(interp, fr.instance, ch[1], st, fr)
                if got is not None:
                    out = []
                    for g in got:
                        if g.kind == "exc":
                            out.append(g)
                            continue
                        for bad, pos, kw, s2 in self._call_args(interp, call, g.state, fr):
                            if bad is not None:
                                out.append(bad)
                            elif pos is None:
                                out.append(self._unknown_arguments(call, s2, fr))
                            else:
                                out.extend(self.apply(interp, g.value, pos, kw, s2, fr))
                    return out
            # <a namedtuple held in a variable>.field(...): the field holds something callable
            if isinstance(f_, ast.Attribute) and isinstance(f_.value, ast.Name) and st.has(fr.local(f_.value.id)):
                held = unbox(st.get(fr.local(f_.value.id)), st)
                if isinstance(held, tuple) and held[:1] == ("tuple",) and any(f_.attr in fields and len(fields) == len(held) - 1 for fields in self._module_namedtuples(fr).values()):
                    got = self.attr_of_value(interp, held, f_.attr, st, fr)
                    if got and all(r.kind == "val" and isinstance(r.value, tuple) and r.value[:1] and (r.value[0] in CALLABLE_TAGS + ("wobj",) or is_inst(r.value)) for r in got):
                        out = []
                        for r in got:
                            for bad, pos, kw, s2 in self._call_args(interp, call, r.state, fr):
                                if bad is not None:
                                    out.append(bad)
                                elif pos is None:
                                    out.append(self._unknown_arguments(call, s2, fr))
                                else:
                                    out.extend(self.apply(interp, r.value, pos, kw, s2, fr))
                        return out
            # <a namedtuple held in a variable>._asdict()
            if isinstance(f_, ast.Attribute) and f_.attr == "_asdict" and isinstance(f_.value, ast.Name) and st.has(fr.local(f_.value.id)) and not call.args and not call.keywords:
                held = unbox(st.get(fr.local(f_.value.id)), st)
                nts = self._module_namedtuples(fr)
                makers = {dotted(s_.value.func) for s_ in ast.walk(fr.func) if isinstance(s_, ast.Assign) and isinstance(s_.value, ast.Call) and dotted(s_.value.func) in nts
                          and any(isinstance(t_, ast.Name) and t_.id == f_.value.id for t_ in s_.targets)}
                if len(makers) == 1 and isinstance(held, tuple) and held[:1] == ("tuple",) and len(held) - 1 == len(nts[next(iter(makers))]):
                    # (several namedtuples of the module have this many fields: the one this variable was made with)
                    return [val(("kwdict", tuple(zip(nts[next(iter(makers))], held[1:]))), st)]
                got = self.attr_of_value(interp, unbox(st.get(fr.local(f_.value.id)), st), "_asdict", st, fr)
                if got and all(r.kind == "val" and isinstance(r.value, tuple) and r.value[:1] == ("const-fn",) for r in got):
                    return [val(r.value[1], r.state) for r in got]
            # calling the value of an arbitrary expression: f(x)(y), table[k](x), getattr(o, n)(x)
            if isinstance(f_, ast.Attribute) and isinstance(f_.value, ast.Call) and dotted(f_.value.func) == "super" and not f_.value.args and not f_.value.keywords \
                    and interp.resolve_callee(call, st, fr, self.classes) is None:
                # super().m(...) where no def further up the MRO is called m: whatever the classes further up bind to m (a method made in a class body ...)
                out = []
                for r in interp.eval(f_, st, fr):
                    if r.kind == "exc" or not (isinstance(r.value, tuple) and r.value[:1] == ("supermethod",)):
                        out = None
                        break
                    for bad, pos, kw, s2 in self._call_args(interp, call, r.state, fr):
                        if bad is not None:
                            out.append(bad)
                        elif pos is None:
                            out.append(self._unknown_arguments(call, s2, fr))
                        else:
                            out.extend(self.apply(interp, r.value, pos, kw, s2, fr))
                if out is not None:
                    return out
            if isinstance(f_, (ast.Call, ast.Subscript, ast.BoolOp, ast.IfExp)) or (isinstance(f_, ast.Attribute) and not attr_chain(f_) and not (dotted(f_) or "").startswith("super()")
                                                             and not isinstance(f_.value, (ast.Constant, ast.JoinedStr))   # ("text".method(...) is modelled where it is called)
                                                             and not any(isinstance(n_, ast.Call) for n_ in ast.walk(f_.value))):
                vals = interp.eval(f_, st, fr)
                if self.strict_calls and isinstance(f_, (ast.Call, ast.Subscript)) and any(r.kind == "val" and r.value == TOP for r in vals):
                    raise Undecided(f"`{norm_expr(f_)}(...)` in {fr.name}: the analysis could not determine what is called")
                if vals and all(r.kind == "exc" or (isinstance(r.value, tuple) and r.value[:1] and (r.value[0] in CALLABLE_TAGS + ("wobj",) or is_inst(r.value))) for r in vals):
                    out = []
                    for r in vals:
                        if r.kind == "exc":
                            out.append(r)
                            continue
                        for bad, pos, kw, s2 in self._call_args(interp, call, r.state, fr):
                            if bad is not None:
                                out.append(bad)
                            elif pos is None:
                                out.append(self._unknown_arguments(call, s2, fr))
                            else:
                                out.extend(self.apply(interp, r.value, pos, kw, s2, fr))
                    return out
        return super().call(interp, call, st, fr)

    def _elements(self, interp, value, st, fr):
        """Exact elements of a sequence value, forcing lazy ones -> list of (elements or None, state)."""
        hook = getattr(self, "force_sequence", None)
        got = hook(interp, value, st, fr) if hook is not None else None
        if got is not None:
            return [(interp._exact_elements(r.value) if r.kind == "val" else None, r.state) for r in got]
        return [(interp._exact_elements(value), st)]

    def pullable(self, v):
        return isinstance(v, tuple) and v[:1] in (("calliter",), ("repeat",), ("seqiter",), ("itercount",), ("genobj",), ("lazycomp",), ("iterobj",), ("chain",), ("ifilter",), ("zipmap",), ("accum",), ("islice",), ("starmap",)) or (isinstance(v, tuple) and v[:1] == ("lazymap",) and len(v) == 3 and self.pullable(v[2]))

    def pull(self, interp, seq, st, fr):
        return self._pull(interp, seq, st, fr)

    def _decode(self, dec, data, final, st):
        """<incremental decoder>.decode(data, final) -> results; the decoder's history lives in the state."""
        import codecs
        enc, n = dec[1], dec[2]
        fed = st.get(f"dec.{n}", ())
        ok_d, pd = self._py(data)
        ok_f, pf = self._py(final)
        if not (isinstance(enc, tuple) and enc[:1] == ("const",) and isinstance(enc[1], str) and ok_d and isinstance(pd, bytes) and ok_f and all(isinstance(x, tuple) for x in fed)):
            return [val(TOP, st.set(f"dec.{n}", fed + (None,)))]
        try:
            real = codecs.getincrementaldecoder(enc[1])()
            for chunk, fin in fed:
                real.decode(chunk, fin)
            text = real.decode(pd, bool(pf))
        except LookupError:
            return [exc(("exc", "LookupError"), st)]
        except UnicodeDecodeError:
            return [exc(("exc", "UnicodeDecodeError"), st)]
        return [val(("const", text), st.set(f"dec.{n}", fed + ((pd, bool(pf)),)))]

    def _pull(self, interp, seq, st, fr):
        """One step of iterating ``seq`` (lazily): -> list of ("item", element, rest, state) | ("end", None, None, state) |
        ("exc", exception, None, state) | ("unknown", None, None, state)."""
        if is_handle(seq):
            seq = st.get(heap_key(seq), TOP)
        if isinstance(seq, tuple) and seq[:1] == ("iter",) and len(seq) == 2:
            seq = seq[1]
        if isinstance(seq, tuple) and seq[:1] in (("tuple",), ("lazyseq",)):
            if len(seq) == 1:
                return [("end", None, None, st)]
            return [("item", seq[1], ("tuple",) + tuple(seq[2:]), st)]
        if isinstance(seq, tuple) and seq[:1] == ("repeat",) and len(seq) == 2:
            return [("item", seq[1], seq, st)]
        if isinstance(seq, tuple) and seq[:1] == ("iterobj",) and len(seq) == 2:
            out = []
            for kind, el, rest, s1 in self._pull(interp, st.get(f"it.{seq[1]}", TOP), st, fr):
                out.append((kind, el, seq, s1.set(f"it.{seq[1]}", rest)) if kind == "item" else (kind, el, None, s1.set(f"it.{seq[1]}", ("tuple",)) if kind == "end" else s1))
            return out
        if isinstance(seq, tuple) and seq[:1] == ("chain",) and len(seq) == 2:
            if not seq[1]:
                return [("end", None, None, st)]
            out = []
            for kind, el, rest, s1 in self._pull(interp, seq[1][0], st, fr):
                if kind == "item":
                    out.append(("item", el, ("chain", (rest,) + tuple(seq[1][1:])), s1))
                elif kind == "end":
                    out.extend(self._pull(interp, ("chain", tuple(seq[1][1:])), s1, fr))
                else:
                    out.append((kind, el, None, s1))
            return out
        if isinstance(seq, tuple) and seq[:1] == ("ifilter",) and len(seq) == 4:
            _, mode, pred, src = seq
            out = []
            work = [(src, st)]
            for _ in range(self.generator_budget):
                nxt = []
                for cur, s0 in work:
                    for kind, el, rest, s1 in self._pull(interp, cur, s0, fr):
                        if kind != "item":
                            out.append((kind, el, None, s1))
                            continue
                        verdicts = [val({"T": TRUE, "F": FALSE}.get(self.truth(el), ("bool",)), s1)] if pred == NONE else self.apply(interp, pred, [el], [], s1, fr)
                        for r in verdicts:
                            t = self.truth(r.value) if r.kind == "val" else None
                            if r.kind == "exc":
                                out.append(("exc", r.value, None, r.state))
                            elif t not in ("T", "F"):
                                out.append(("unknown", None, None, r.state))
                            elif mode == "takewhile":
                                out.append(("item", el, ("ifilter", mode, pred, rest), r.state) if t == "T" else ("end", None, None, r.state))
                            elif mode == "dropwhile":
                                if t == "T":
                                    nxt.append((rest, r.state))
                                else:
                                    out.append(("item", el, rest, r.state))   # from here on everything passes
                            elif (t == "T") == (mode == "filter"):
                                out.append(("item", el, ("ifilter", mode, pred, rest), r.state))
                            else:
                                nxt.append((rest, r.state))
                work = list(dict.fromkeys(nxt))
                if not work:
                    return out
            raise Undecided(f"{mode} does not find its next element within the analysis budget")
        if isinstance(seq, tuple) and seq[:1] == ("zipmap",) and len(seq) == 3:
            cur = [((), (), st)]
            out = []
            for src in seq[2]:
                nxt = []
                for els, rests, s0 in cur:
                    for kind, el, rest, s1 in self._pull(interp, src, s0, fr):
                        if kind == "item":
                            nxt.append((els + (el,), rests + (rest,), s1))
                        else:
                            out.append((kind, el, None, s1))   # the shortest source ends the map
                cur = nxt
            for els, rests, s0 in cur:
                for r in self.apply(interp, seq[1], list(els), [], s0, fr):
                    out.append(("exc", r.value, None, r.state) if r.kind == "exc" else ("item", r.value, ("zipmap", seq[1], rests), r.state))
            return out
        if isinstance(seq, tuple) and seq[:1] == ("starmap",) and len(seq) == 3:
            out = []
            for kind, el, rest, s1 in self._pull(interp, seq[2], st, fr):
                if kind != "item":
                    out.append((kind, el, None, s1))
                    continue
                row = interp._exact_elements(unbox(el, s1))
                if row is None:
                    out.append(("unknown", None, None, s1))
                    continue
                for r in self.apply(interp, seq[1], list(row), [], s1, fr):
                    out.append(("exc", r.value, None, r.state) if r.kind == "exc" else ("item", r.value, ("starmap", seq[1], rest), r.state))
            return out
        if isinstance(seq, tuple) and seq[:1] == ("accum",) and len(seq) == 4:
            _, fn, src, mode = seq
            if mode[0] == "initial":
                return [("item", mode[1], ("accum", fn, src, ("acc", mode[1])), st)]
            out = []
            for kind, el, rest, s1 in self._pull(interp, src, st, fr):
                if kind != "item":
                    out.append((kind, el, None, s1))
                elif mode[0] == "first":
                    out.append(("item", el, ("accum", fn, rest, ("acc", el)), s1))
                else:
                    for r in self.apply(interp, fn, [mode[1], el], [], s1, fr):
                        out.append(("exc", r.value, None, r.state) if r.kind == "exc" else ("item", r.value, ("accum", fn, rest, ("acc", r.value)), r.state))
            return out
        if isinstance(seq, tuple) and seq[:1] == ("islice",) and len(seq) == 4:
            _, src, skip, left = seq
            if left == 0:
                return [("end", None, None, st)]
            out = []
            work = [(src, skip, st)]
            while work:
                cur, k, s0 = work.pop()
                for kind, el, rest, s1 in self._pull(interp, cur, s0, fr):
                    if kind != "item":
                        out.append((kind, el, None, s1))
                    elif k > 0:
                        work.append((rest, k - 1, s1))
                    else:
                        out.append(("item", el, ("islice", rest, 0, None if left is None else left - 1), s1))
            return out
        if isinstance(seq, tuple) and seq[:1] == ("genobj",) and len(seq) == 2:
            return self.pull_generator(interp, seq, st, fr)
        if isinstance(seq, tuple) and seq[:1] == ("lazycomp",) and len(seq) == 6:
            return self.pull_comprehension(interp, seq, st, fr)
        if isinstance(seq, tuple) and seq[:1] == ("seqiter",) and len(seq) == 2:
            rest = st.get(f"it.{seq[1]}", None)
            if not (isinstance(rest, tuple) and rest[:1] == ("tuple",)):
                return [("unknown", None, None, st)]
            if len(rest) == 1:
                return [("end", None, None, st)]
            return [("item", rest[1], seq, st.set(f"it.{seq[1]}", ("tuple",) + tuple(rest[2:])))]
        if isinstance(seq, tuple) and seq[:1] == ("itercount",) and len(seq) == 2:
            cur = st.get(f"it.{seq[1]}", None)
            if not (isinstance(cur, tuple) and cur[:1] == ("const",) and isinstance(cur[1], int)):
                return [("unknown", None, None, st)]
            return [("item", cur, seq, st.set(f"it.{seq[1]}", ("const", cur[1] + 1)))]
        if isinstance(seq, tuple) and seq[:1] == ("calliter",) and len(seq) == 3:
            # iter(f, sentinel): f() until it returns the sentinel
            out = []
            for r in self.apply(interp, seq[1], [], [], st, fr):
                if r.kind == "exc":
                    out.append(("exc", r.value, None, r.state))
                    continue
                v = unbox_deep(r.value, r.state)
                same = True if v == seq[2] and v != TOP else self._values_equal(v, seq[2]) if hasattr(self, "_values_equal") else None
                if same is None and (self.is_none(seq[2]) == "T") and self.is_none(v) in ("T", "F"):
                    same = self.is_none(v) == "T"
                out.append(("end", None, None, r.state) if same is True else ("item", r.value, seq, r.state) if same is False else ("unknown", None, None, r.state))
            return out
        if isinstance(seq, tuple) and seq[:1] == ("lazymap",) and len(seq) == 3:
            out = []
            for kind, el, rest, s1 in self._pull(interp, seq[2], st, fr):
                if kind != "item":
                    out.append((kind, el, None, s1))
                    continue
                for r in self.apply(interp, seq[1], [el], [], s1, fr):
                    out.append(("exc", r.value, None, r.state) if r.kind == "exc" else ("item", r.value, ("lazymap", seq[1], rest), r.state))
            return out
        return [("unknown", None, None, st)]

    def _takewhile_lazily(self, interp, pred, seq, st, fr, limit=64):
        """takewhile over a sequence that may never end (map over repeat ...): elements are pulled one at a time."""
        out = []
        work = [((), seq, st)]
        for _ in range(limit):
            nxt = []
            for acc, cur, s0 in work:
                for kind, el, rest, s1 in self._pull(interp, cur, s0, fr):
                    if kind == "end":
                        out.append(val(("tuple",) + acc, s1))
                    elif kind == "exc":
                        out.append(exc(el, s1))
                    elif kind == "unknown":
                        out.append(val(TOP, s1))
                    else:
                        verdicts = [val({"T": TRUE, "F": FALSE}.get(self.truth(el), ("bool",)), s1)] if pred == NONE else self.apply(interp, pred, [el], [], s1, fr)
                        for r in verdicts:
                            if r.kind == "exc":
                                out.append(r)
                                continue
                            t = self.truth(r.value)
                            if t == "T":
                                nxt.append((acc + (el,), rest, r.state))
                            elif t == "F":
                                out.append(val(("tuple",) + acc, r.state))
                            else:
                                out.append(val(TOP, r.state))
            work = nxt
            if not work:
                return out
        raise Undecided("takewhile over an endless sequence did not stop within the analysis budget")

    def _iterator_object(self, description, st):
        """An iterator with a position of its own (whoever holds it sees it advance): ``description`` is what is left of it."""
        n = st.get("ev.iters", 0)
        return val(("iterobj", n), st.set("ev.iters", n + 1).set(f"it.{n}", description))

    def _itertool(self, interp, name, args, st, fr):
        out = []
        if name == "takewhile" and len(args) == 2 and isinstance(args[1], tuple) and args[1][:1] in (("lazymap",), ("repeat",)):
            return self._takewhile_lazily(interp, args[0], args[1], st, fr)
        if self.lazy_generators and name == "chain" and any(self.pullable(a) for a in args):
            return [self._iterator_object(("chain", tuple(args)), st)]   # (a part is produced on demand: so is the chain)
        if self.lazy_generators and name in ("filter", "filterfalse", "dropwhile", "takewhile") and len(args) == 2 and self.pullable(args[1]):
            return [self._iterator_object(("ifilter", name, args[0], args[1]), st)]
        if name == "compress" and len(args) == 2:
            for data, s1 in self._elements(interp, args[0], st, fr):
                for sel, s2 in self._elements(interp, args[1], s1, fr):
                    if data is None or sel is None or any(self.truth(x) not in ("T", "F") for x in sel):
                        out.append(val(TOP, s2))
                    else:
                        out.append(val(("tuple",) + tuple(dv for dv, sv in zip(data, sel) if self.truth(sv) == "T"), s2))
            return out
        if name in ("chain", "chain.from_iterable"):
            parts = args
            if name == "chain.from_iterable":
                got = self._elements(interp, args[0], st, fr)
                if len(got) != 1 or got[0][0] is None:
                    return [val(TOP, st)]
                parts, st = got[0]
            cur = [((), st)]
            for p in parts:
                nxt = []
                for acc, s1 in cur:
                    for els, s2 in self._elements(interp, p, s1, fr):
                        nxt.append((None if acc is None or els is None else acc + tuple(els), s2))
                cur = nxt
            return [val(TOP if acc is None else ("tuple",) + acc, s1) for acc, s1 in cur]
        if name in ("filter", "filterfalse", "dropwhile", "takewhile") and len(args) == 2:
            pred, seq = args
            for els, s1 in self._elements(interp, seq, st, fr):
                if els is None:
                    out.append(val(TOP, s1))
                    continue
                cur = [((), s1, "taking" if name != "dropwhile" else "dropping")]
                for el in els:
                    nxt = []
                    for acc, s2, mode in cur:
                        if acc is None or mode == "done":
                            nxt.append((acc, s2, mode))
                            continue
                        if mode == "passing":
                            nxt.append((acc + (el,), s2, mode))
                            continue
                        results = [val({"T": TRUE, "F": FALSE}.get(self.truth(el), ("bool",)), s2)] if pred == NONE else self.apply(interp, pred, [el], [], s2, fr)
                        for r in results:
                            if r.kind == "exc":
                                out.append(r)
                                continue
                            t = self.truth(r.value)
                            if t not in ("T", "F"):
                                nxt.append((None, r.state, mode))
                            elif name == "filter":
                                nxt.append((acc + (el,) if t == "T" else acc, r.state, mode))
                            elif name == "filterfalse":
                                nxt.append((acc + (el,) if t == "F" else acc, r.state, mode))
                            elif name == "takewhile":
                                nxt.append((acc + (el,), r.state, mode) if t == "T" else (acc, r.state, "done"))
                            else:   # dropwhile
                                nxt.append((acc, r.state, mode) if t == "T" else (acc + (el,), r.state, "passing"))
                    cur = nxt
                out.extend(val(TOP if acc is None else ("tuple",) + acc, s2) for acc, s2, _ in cur)
            return out
        return [val(TOP, st)]

    def _apply(self, interp, fn, arg, st, fr):
        """One-argument application used by lazy maps: any callable of this model."""
        if isinstance(fn, tuple) and fn[:1] and fn[0] in CALLABLE_TAGS + ("wobj", "userfn") and not (fn[0] == "methodcaller" and isinstance(arg, tuple) and arg[:1] == ("wobj",)):
            return self.apply(interp, fn, [arg], [], st, fr)
        if is_inst(fn):
            return self.apply(interp, fn, [arg], [], st, fr)   # an object with __call__
        if fn == TOP and self.strict_calls:
            raise Undecided(f"map(...) over a function the analysis could not determine, in {fr.name}")
        return super()._apply(interp, fn, arg, st, fr)

    def _dict_read(self, cur, method, pos, st):
        """A method of dicts that only reads, on an exact dict -> results, or None."""
        if isinstance(cur, tuple) and cur[:1] == ("kwdict",):
            if method == "get" and 1 <= len(pos) <= 2:
                ok_, name = self._dkey(unbox_deep(pos[0], st))
                return [val(dict(cur[1]).get(name, pos[1] if len(pos) > 1 else NONE) if ok_ else TOP, st)]
            if method == "items" and not pos:
                return [val(("kwitems", cur[1]), st)]
            if method == "keys" and not pos:
                return [val(("tuple",) + tuple(self._dkey_abs(k) for k, _ in cur[1]), st)]
            if method == "values" and not pos:
                return [val(("tuple",) + tuple(v for _, v in cur[1]), st)]
            if method == "copy" and not pos:
                return [val(cur, st)]
        return None

    def call_on_value(self, interp, receiver, call, st, fr):
        name = call.func.attr
        if isinstance(receiver, tuple) and receiver[:1] == ("kwdict",) and name in ("get", "items", "keys", "values", "copy") and not call.keywords:
            # <a call that returns a dict>.items() ...
            out = []
            for bad, pos, kw, s2 in self._call_args(interp, call, st, fr):
                got = self._dict_read(receiver, name, pos, s2) if bad is None and pos is not None else None
                out.extend(got if got is not None else [bad if bad is not None else val(TOP, s2)])
            return out
        if not (is_inst(receiver) or is_exitstack(receiver) or receiver == ("self",)):
            return None
        out = []
        for bad, pos, kw, s2 in self._call_args(interp, call, st, fr):
            if bad is not None:
                out.append(bad)
            elif pos is None:
                out.append(self._unknown_arguments(call, s2, fr))
            elif is_exitstack(receiver):
                out.extend(self._exitstack_method(interp, receiver, name, pos, kw, s2, fr))
            elif receiver == ("self",):
                for g in self._root_value_attr(interp, name, s2, fr):
                    out.extend([g] if g.kind == "exc" else self.apply(interp, g.value, pos, kw, g.state, fr))
            else:
                got = self._inst_attr(interp, receiver, name, s2, fr)
                if got is None:
                    out.append(val(TOP, s2))
                    continue
                for g in got:
                    out.extend([g] if g.kind == "exc" else self.apply(interp, g.value, pos, kw, g.state, fr))
        return out

    # -- contextlib.ExitStack -------------------------------------------------------------------
    def _exitstack_method(self, interp, xs, name, pos, kw, st, fr):
        key = f"xs.{xs[1]}"
        cur = st.get(key, ())
        if name == "callback" and pos:
            return [val(pos[0], st.set(key, cur + (("callback", pos[0], tuple(pos[1:]), tuple(kw)),)))]
        if name == "push" and len(pos) == 1:
            return [val(pos[0], st.set(key, cur + (("exit", pos[0]),)))]
        if name == "enter_context" and len(pos) == 1:
            out = []
            for r in self._enter(interp, pos[0], st, fr):
                out.append(r if r.kind == "exc" else val(r.value, r.state.set(key, r.state.get(key, ()) + (("cm", pos[0]),))))
            return out
        if name == "close" and not pos:
            return [val(NONE, s2) if kind != "raise" else exc(payload, s2) for kind, payload, s2 in self._unwind(interp, xs, "next", None, st, fr)]
        if name == "pop_all" and not pos:
            n = st.get("ev.inst", 0)
            return [val(("exitstack", n), st.set("ev.inst", n + 1).set(f"xs.{n}", cur).set(key, ()))]
        if name in ("__enter__",):
            return [val(xs, st)]
        return [val(TOP, st)]

    def _unwind(self, interp, xs, kind, payload, st, fr):
        """Run the registered exits last-in-first-out -> list of (kind, payload, state)."""
        key = f"xs.{xs[1]}"
        work = [(kind, payload, st)]
        done = []
        guard = 0
        while work:
            guard += 1
            if guard > 200:
                raise Undecided("ExitStack unwinding did not terminate in the model")
            k, p, s = work.pop()
            cbs = s.get(key, ())
            if not cbs:
                done.append((k, p, s))
                continue
            entry = cbs[-1]
            s = s.set(key, cbs[:-1])
            if entry[0] == "callback":
                for r in self.apply(interp, entry[1], list(entry[2]), list(entry[3]), s, fr):
                    # a callback's exception replaces whatever was propagating; its return value is ignored
                    work.append(("raise", r.value, r.state) if r.kind == "exc" else (k, p, r.state))
            else:
                args = list(exc_info_of(p)[1:]) if k == "raise" else [NONE, NONE, NONE]
                fnv = entry[1]
                results = self._exit(interp, fnv, args, s, fr) if entry[0] == "cm" else self.apply(interp, fnv, args, [], s, fr)
                for r in results:
                    if r.kind == "exc":
                        work.append(("raise", r.value, r.state))
                    elif k == "raise" and self.truth(r.value) == "T":
                        work.append(("next", None, r.state))
                    elif k == "raise" and self.truth(r.value) == "TF":
                        work.append(("next", None, r.state))
                        work.append((k, p, r.state))
                    else:
                        work.append((k, p, r.state))
        return done

    # -- the context-manager protocol on objects ----------------------------------------------------
    def _enter(self, interp, cm, st, fr):
        if is_inst(cm):
            got = self.call_method(interp, cm, "__enter__", [], [], st, fr)
            return got if got is not None else [val(cm, st)]
        if is_exitstack(cm):
            return [val(cm, st)]
        if isinstance(cm, tuple) and cm[:1] == ("wobj",):
            log = st.get("ev.calls", ())
            return [val(cm, st.set("ev.calls", log + ((f"{cm[1]}.__enter__", (), (), "ok"),)))]
        return [val(TOP, st)]

    def _exit(self, interp, cm, args, st, fr):
        if is_inst(cm):
            got = self.call_method(interp, cm, "__exit__", args, [], st, fr)
            return got if got is not None else [val(NONE, st)]
        if isinstance(cm, tuple) and cm[:1] == ("wobj",):
            log = st.get("ev.calls", ())
            return [val(NONE, st.set("ev.calls", log + ((f"{cm[1]}.__exit__", (), (), "ok"),)))]
        return [val(NONE, st)]

    def with_object(self, interp, stmt, item, value, st, fr):
        """`with <instance or ExitStack> [as x]:` -> outcomes (kind, payload, state), or None when not an object of this model."""
        if isinstance(value, tuple) and value[:1] == ("nullcontext",):
            # contextlib.nullcontext(x): entering gives x, leaving does nothing
            s2 = st if item.optional_vars is None else interp.assign(item.optional_vars, value[1], st, fr)
            return list(interp.exec_block(stmt.body, [s2], fr))
        if not (is_inst(value) or is_exitstack(value)):
            return None
        out = []
        for r in self._enter(interp, value, st, fr):
            if r.kind == "exc":
                out.append(("raise", r.value, r.state))
                continue
            s2 = r.state
            if item.optional_vars is not None:
                s2 = interp.assign(item.optional_vars, r.value, s2, fr)
            for kind, payload, s3 in interp.exec_block(stmt.body, [s2], fr):
                if is_exitstack(value):
                    out.extend(self._unwind(interp, value, kind, payload, s3, fr))
                    continue
                args = list(exc_info_of(payload)[1:]) if kind == "raise" else [NONE, NONE, NONE]
                for r2 in self._exit(interp, value, args, s3, fr):
                    if r2.kind == "exc":
                        out.append(("raise", r2.value, r2.state))
                    elif kind == "raise":
                        t = self.truth(r2.value)
                        if t in ("T", "TF"):
                            out.append(("next", None, r2.state))
                        if t in ("F", "TF"):
                            out.append((kind, payload, r2.state))
                    else:
                        out.append((kind, payload, r2.state))
        return out
