"""E9: self-test harness -- mutants must be reported, benign rewrites must not.

Each variant is a textual edit of the *current* tree, applied to a scratch copy
under /dev/shm (removed immediately), analysed with ``--root``.  Results go into
the evidence file only; they never change a check's verdict.
"""

import ast
import os
import random
import shutil
import tempfile
import traceback
from concurrent.futures import ProcessPoolExecutor


class Variant:
    def __init__(self, name, file, old, new, expect=None, kind="mutant", occurrence=None, note=""):
        self.name = name
        self.file = file
        self.old = old
        self.new = new
        self.expect = expect  # rule name(s) expected to fire (mutants)
        self.kind = kind  # 'mutant' | 'benign'
        self.occurrence = occurrence
        self.note = note


def M(name, file, old, new, expect=None, occurrence=None, note=""):
    return Variant(name, file, old, new, expect, "mutant", occurrence, note)


def B(name, file, old, new, occurrence=None, note=""):
    return Variant(name, file, old, new, None, "benign", occurrence, note)


def scratch_base():
    for d in ("/dev/shm", os.environ.get("TMPDIR") or "", "/var/tmp"):
        if d and os.path.isdir(d) and os.access(d, os.W_OK):
            return d
    return None


def copy_tree(root, dest):
    src = os.path.join(root, "testtools")
    dst = os.path.join(dest, "testtools")

    def ignore(d, names):
        return [n for n in names if n == "tests" or n == "__pycache__" or n.endswith(".pyc")]

    shutil.copytree(src, dst, ignore=ignore)


def apply_edit(dest, v):
    path = os.path.join(dest, v.file)
    if not os.path.isfile(path):
        return "not-applied: file missing"
    with open(path, encoding="utf-8") as f:
        s = f.read()
    n = s.count(v.old)
    if n == 0:
        return "not-applied: anchor text not found"
    if v.occurrence is None:
        if n != 1:
            return f"not-applied: anchor text found {n} times"
        s = s.replace(v.old, v.new)
    else:
        idx = -1
        for _ in range(v.occurrence + 1):
            idx = s.find(v.old, idx + 1)
            if idx < 0:
                return "not-applied: occurrence missing"
        s = s[:idx] + v.new + s[idx + len(v.old):]
    try:
        ast.parse(s)
    except SyntaxError as e:
        return f"not-applied: edit does not compile ({e})"
    with open(path, "w", encoding="utf-8") as f:
        f.write(s)
    return None


def _run_variant(args):
    prop, root, v, seed = args
    from ..__main__ import run_rules
    from ..loader import AnalysisError

    base = scratch_base()
    dest = tempfile.mkdtemp(prefix="ttsa-", dir=base)
    try:
        copy_tree(root, dest)
        err = apply_edit(dest, v)
        if err:
            return {"name": v.name, "kind": v.kind, "status": err}
        try:
            ctx, _ = run_rules(prop, dest, "quick", seed)
        except AnalysisError as e:
            return {"name": v.name, "kind": v.kind, "status": "analysis-error", "detail": str(e)[:300]}
        fired = sorted({i.rule for i in ctx.violations})
        where = [f"{i.rule}@{i.where}:{i.name}"[:160] for i in ctx.violations][:6]
        if v.kind == "mutant":
            if not fired:
                status = "SURVIVED"
            elif v.expect and not (set([v.expect] if isinstance(v.expect, str) else v.expect) & set(fired)):
                status = "killed-by-other-rule"
            else:
                status = "killed"
        else:
            status = "silent" if not fired else "FALSE-ALARM"
        return {"name": v.name, "kind": v.kind, "status": status, "fired": fired, "reports": where}
    except Exception:
        return {"name": v.name, "kind": v.kind, "status": "harness-error", "detail": traceback.format_exc()[-400:]}
    finally:
        shutil.rmtree(dest, ignore_errors=True)


def variants_for(prop):
    from . import corpus

    return list(corpus.CORPUS.get(prop, []))


def run_variants(prop, root, variants, seed=0, workers=16):
    variants = list(variants)
    random.Random(seed).shuffle(variants)
    if not variants:
        return []
    with ProcessPoolExecutor(max_workers=min(workers, len(variants))) as ex:
        return list(ex.map(_run_variant, [(prop, root, v, seed) for v in variants]))


def run_for(prop, root, seed=0):
    results = run_variants(prop, root, variants_for(prop), seed)
    mutants = [r for r in results if r["kind"] == "mutant"]
    benign = [r for r in results if r["kind"] == "benign"]
    weak = []
    for r in results:
        if r["status"] in ("SURVIVED", "FALSE-ALARM", "analysis-error", "harness-error") or r["status"].startswith("not-applied"):
            weak.append(f"SELFTEST-WEAK {prop} {r['kind']} {r['name']}: {r['status']} {r.get('detail', '')}")
    return {
        "mutants_applied": sum(1 for r in mutants if not r["status"].startswith("not-applied")),
        "mutants_killed": sum(1 for r in mutants if r["status"].startswith("killed")),
        "benign_applied": sum(1 for r in benign if not r["status"].startswith("not-applied")),
        "benign_silent": sum(1 for r in benign if r["status"] == "silent"),
        "results": sorted(results, key=lambda r: r["name"]),
        "weak_lines": weak,
    }
